#!/venv/bin/python
"""Regenerate MANIFEST.json from the table below (keeps it schema-valid at all times)."""
import json
import os
import sys

HERE = os.path.dirname(os.path.abspath(__file__))

# id -> (technique, level text, level note, design ref)
CHECKS = {
    "C01": (
        "explicit-state BFS over operation histories on the real Part, lock-step reference timeline",
        "All histories of add/remove/set_quarter_duration/get_or_add_point up to the stated depth over a small object pool "
        "and time grid are enumerated with canonical-state de-duplication; in every reached state the structural invariants and "
        "every query combination are compared with a reference timeline. Exhaustive within the bounds, which is the right level "
        "for index/relinking logic whose defects show on two or three objects.",
        "Trusted: the reference timeline in checks/c01.py (a dict object->(start,end) plus a change table); numpy; bounds: <=4 "
        "objects, times 0..4, depth <=5; order inside one time point is not compared.",
        "DESIGN.md section 4 C01",
    ),
    "C08": (
        "exhaustive enumeration of small single-part scores x alignment label assignments x clocks x pedal streams, plus hand-written files in all seven historical dialects",
        "All rhythm/tie/tuplet/pickup/signature/attribute/chord sub-spaces of single-part scores, all {match,deletion}^k label assignments with "
        "0-2 extra performed notes as insertions or ornaments, seven (ppq, mpq) pairs with on-grid/off-grid/half-tick times and every pedal stream "
        "of length 0-3 are written with save_match and loaded with load_match (with and without score); alignment, performance and reconstructed "
        "score are compared field-wise; files in all seven dialects with shared ids exercise the documented duplicate-id resolution.",
        "Trusted: reference model and dialect writer in mc/c08_model.py; every alignment has at least one match; line order, sound_off, channel "
        "and track are not compared; ids accepted with or without the -1 suffix.",
        "DESIGN.md section 4 C08",
    ),
    "C09": (
        "exhaustive enumeration of repeat/ending/navigation structures x content variants x options; reference acceptor and reference paths",
        "Every structure of every class (simple, nested, volta shapes, D.C./D.S. with Fine/Coda, combinations) over up to 5-6 one-bar "
        "measures, times every content variant, is unfolded by every entry point and option combination on the real implementation; the "
        "produced parts are compared with the concatenation along the path the implementation reports, the path is run through a "
        "reference acceptor for the notation, and on the unambiguous sub-class compared with a reference interpreter of the notation.",
        "Trusted: the acceptor / interpreter in checks/c09.py; exact maximal paths asserted only for simple repeats, 1|2 and 1,2|3 voltas "
        "and a D.C./D.S. at the end of the piece (al Fine); coda forms are checked for validity, totality and copy correctness only.",
        "DESIGN.md section 4 C09",
    ),
    "C11": (
        "exhaustive enumeration of small parts (signature tables x pre-existing measure subsets x note rectangles x operation orders) and of the duration estimator over all (duration, divisions) pairs",
        "Every part over the alphabets (divisions, one to three signatures at every quarter, every subset/pair of pre-existing measures, every "
        "onset/end of one to three notes, tuplet runs, pre-tied and slurred chains, divisions changes) is normalised by add_measures / tie_notes / "
        "find_tuplets / fill_rests / sanitize_part in several orders on the real implementation: measure tiling and numbering against a reference, "
        "note array identical before and after every operation, notes within measures, tie chains well-formed, every assigned symbolic duration "
        "evaluates to the numeric one; estimate_symbolic_duration and find_tie_split are enumerated for divisions 1..960 (thorough: all; quick: 1..48 + selected + a seed block).",
        "Trusted: reference model mc/c11_model.py; durations compared within the estimator's documented eps; which notes get split, ids of new "
        "notes, Tuplet objects and slurs are not compared.",
        "DESIGN.md section 4 C11",
    ),
    "C12": (
        "complete enumeration of the finite domains named in the property against independent twelve-tone / line-of-fifths / Fraction arithmetic",
        "The domains of the property are finite and are enumerated completely: all steps x alterations x octaves, all MIDI pitches, every "
        "note-name string of the grammar, fifths -12..12 x accepted and unknown modes, symbolic types x dots x ratios x divisions, tempo units, "
        "tuplet type pairs, interval classes, clef and mode codes, and tick conversion on a millisecond grid for ppq/mpq pairs as Python "
        "numbers, numpy scalars and arrays. Each value is compared with an independent reference and inverses/rejections are checked.",
        "Trusted: reference arithmetic in checks/c12.py (C4=60, line of fifths, Fraction tick counts); exact half-tick ties accept either "
        "neighbour; float32 scalars and negative times are outside the quantifier.",
        "DESIGN.md section 4 C12",
    ),
    "C02": (
        "exhaustive enumeration of small parts (quarter tables x signature tables x first-measure lengths x beat-mode histories) against exact Fraction integration",
        "Every part over the stated alphabets (first point 0 or 2, up to two/three quarter-duration changes and time-signature changes at every "
        "position combination, every first-measure length, ten meters) is built, every history of beat-mode switches to depth 3-4 is applied, "
        "parts are edited and re-queried; the four maps and quarter_duration_map are evaluated at every integer and half position and around every "
        "change point, as scalar/list/array, and compared with exact integration: values, origin, monotonicity, continuity, inverses.",
        "Trusted: exact reference in mc/c02_ref.py; before the first signature both readings of the beat unit are accepted; when a signature "
        "changes inside the first measure both origins are accepted; positions outside [first, last] are not compared.",
        "DESIGN.md section 4 C02",
    ),
    "C03": (
        "exhaustive enumeration of abstract scores in named sub-spaces (rhythm/voice cores, ties, graces, decorations singly and in pairs, attribute changes, part-group forests, repeats) with three oracles",
        "Each named sub-space of MusicXML-expressible scores is enumerated completely (quick: the complete small sub-spaces plus one seed-selected "
        "stride block of the large ones); every score is built through the public API, saved, re-loaded and re-saved on the real implementation: "
        "round-trip equality on exactly the statement's attributes (voice re-assignment reading computed from the spec), an independent lxml "
        "reader of the written bytes against the spec's sounding notes, and the byte fixpoint save(load(file)) == file.",
        "Trusted: lxml; the independent reader mc/c03_reader.py and projection mc/c03_proj.py; scores of <=3 measures, <=4 events (5-8 on fixed "
        "cores), two voices/staves; three open known findings (divisions change without a time point, doubled right-barline fermata, Words objects).",
        "DESIGN.md section 4 C03",
    ),
    "C04": (
        "exhaustive enumeration of small scores x (mode, pickup policy, minimum_ppq, velocity, input/output kind) configurations against an exact-Fraction tick model; raw mido read plus re-import",
        "Scores are enumerated in named sub-spaces (division grids with every pickup length, part/group/voice structures, touching equal pitches "
        "in all voice/part assignments, all ordered divisions pairs with mid-bar changes, all 4-slot rhythms with every tie subset over tuplet "
        "grids, option products); each is exported by the real save_score_midi in the configured modes, the file is read raw with mido and compared "
        "with exact reference ticks (ppq = lcm doubled to the minimum, every tick integral), then imported with load_score_midi in the same mode "
        "and compared (notes, grouping, signatures, tempo).",
        "Trusted: mido; reference model mc/c04_model.py; parts start at 0 and share measures; pitch spelling not compared; tempo within 1 us per "
        "quarter; hangs detected by a CPU-time limit; one open known finding (0/x signature under time_sig_change).",
        "DESIGN.md section 4 C04",
    ),
    "C05": (
        "exhaustive enumeration of parts (frames x single events / event pairs / triples), scores of 2-3 parts, all option subsets, and small note arrays for the inverse, against an exact reference table",
        "424 frames (meter/measure plans x division plans incl. mid-measure changes x key plans) x every single note, tie chain or grace event, "
        "all ordered event pairs and shared-onset triples, all 2^7 include_* subsets, rest arrays, scores/lists/groups of one to three parts with "
        "divisions whose lcm exceeds both and note-less parts, and 1-3 row note arrays with beat, division or both columns are run through the "
        "real note_array / rest_array / note_array_to_score; every row, column and the row order are compared with a reference table computed in Fractions.",
        "Trusted: reference table mc/c05_ref.py (never calls the code under test); metrical columns only for parts with measures and an object at "
        "time 0; voice/staff compared only where the score states them.",
        "DESIGN.md section 4 C05",
    ),
    "C06": (
        "exhaustive enumeration of small performances x export options and of abstract MIDI files with tempo events, against an exact tick/tempo reference reader",
        "All performances of up to three notes over grids containing exact ticks, half-tick ties and non-representable decimals, with controls, "
        "programs, signatures and meta events, in all input kinds, ppq/mpq pairs, merge combinations and output kinds, are saved and re-loaded; "
        "the written file is first read by an independent reference reader, then the loaded performance is compared, then saved and loaded again. "
        "All abstract files with up to three set_tempo events in any track at any of four ticks are loaded and compared with exact piecewise integration.",
        "Trusted: mido's file layer; the reference reader/integrator in mc/c06_model.py (Fractions). Exact half-tick ties accept either tick; a part "
        "without program changes may gain one default program per (channel, track).",
        "DESIGN.md section 4 C06",
    ),
    "C07": (
        "per line class and version: full product of per-field alphabets (all-pairs above a size limit), parse/format/dispatch/to_v1 oracles",
        "For every line class of versions 0.1.0-0.5.0 and 1.0.0 the product of small per-field alphabets is enumerated (complete up to a limit, "
        "otherwise all pairs of fields complete with the rest cycled); each line object is written, parsed by its class and by the public "
        "dispatcher, compared field-wise, re-written (text fixpoint) and, for pre-1.0 lines, converted with to_v1 and compared on musical content.",
        "Trusted: the alphabets and per-version format facts in mc/c07_alpha.py; text is compared by fixpoint and field equality, not against an "
        "independent writer; values the format cannot carry only need to reach a fixpoint.",
        "DESIGN.md section 4 C07",
    ),
    "C10": (
        "exhaustive enumeration of small parts (signature/clef/measure tables, pickups, gaps) x all integer positions x 7 argument forms, reference 'latest element at or before t'",
        "Every small part over the stated alphabets (time/key signatures, clefs on up to three staves with staves lacking a clef, all measure "
        "tilings with pickups and quarter-duration changes) is built; each of the six maps is queried at every integer position as int, numpy "
        "integer, array, permuted array, list, one-element and empty array and compared with the reference; note-array columns derived from the "
        "maps are compared too; edit-then-query histories re-query after Part.add/remove.",
        "Trusted: reference maps in mc/c10_model.py; clef signs compared through partitura's own sign table after checking it is a bijection; "
        "pickups generated only where 'full bar' has one reading.",
        "DESIGN.md section 4 C10",
    ),
    "C13": (
        "exhaustive enumeration of small note arrays in every row order x option combinations (full product on a core, pairwise covering arrays elsewhere) and of small rolls for the inverse, against a reference rasteriser",
        "All note arrays of up to three rows over small pitch/onset/duration/velocity/channel alphabets in every row permutation are rasterised "
        "under the full product of the nine options on a core set and pairwise-complete option rows elsewhere, in score and performance units; "
        "shape, cell occupancy, velocities (max on collisions, independent of row order), index rows, pitch-class fold and normalisation are "
        "compared with a reference rasteriser written from the statement; all 128xn and 88xn rolls (n<=4, <=3 runs) are decoded and compared.",
        "Trusted: the reference rasteriser in checks/c13.py; rounding ties (off-grid half frames) are left out and counted; touching runs are not "
        "generated for the inverse; option defaults are not checked (every option is passed explicitly).",
        "DESIGN.md section 4 C13",
    ),
    "C14": (
        "exhaustive enumeration of small note lists x control streams x thresholds and of all threshold-assignment histories, against a reference pedal model",
        "All note lists of up to three notes on a small grid (overlapping and zero-length notes of one pitch across channels, unsorted order) "
        "times all pedal streams of up to three events times thresholds are constructed; sounding ends are compared with a reference pedal model; "
        "every history of 1-3 threshold assignments is compared with a fresh part; every pedal value against every threshold; note array / rebuild / track renumbering clauses.",
        "Trusted: reference model in mc/c14_model.py; an event or re-strike exactly at the release counts either way; when the pedal is never "
        "lifted and the pitch never struck again only sound_off >= note_off, monotonicity and recomputation are required.",
        "DESIGN.md section 4 C14",
    ),
    "C15": (
        "exhaustive enumeration of 2-3 part inputs (divisions pairs/triples, voice/staff multisets, timing slots, element kinds, container shapes) x three reassign modes",
        "All ordered pairs/triples of divisions values, all multisets of (voice, staff) patterns, all timing slot combinations, all pairs of "
        "element kinds, 25 extra element kinds and eight container shapes are merged in the three modes on the real implementation; presence and "
        "musical time of every note/rest/non-structural element, lcm divisions at every point, voice/staff partition relations, first-part-only "
        "structural classes, identity for single parts and agreement with the score-level note array are compared with a reference merge.",
        "Trusted: reference merge in mc/c15_model.py; staff/voice numbers of Words/Direction/Clef after merging are not compared; clefs and some "
        "navigation classes of later parts may be kept or dropped; first measures are complete.",
        "DESIGN.md section 4 C15",
    ),
    "C16": (
        "complete enumeration of spellings x 39 interval classes x directions and of all small scores (ties, chords, graces, decorations) x argument kinds",
        "All steps x alterations -2..2 x octaves 0..8 are transposed by all 39 interval classes in both directions as Part and Score arguments and "
        "compared with reference diatonic/chromatic arithmetic; all small scores of up to three slots with every tie choice and decoration are "
        "transposed in five argument kinds: every pitched note (tie-later, chord, grace roles) must move, everything else and the argument's "
        "full fingerprint must be unchanged, the result must share no object with the argument, up-then-down restores the spelling; "
        "transpose_note / step2pc / Roman-numeral root and bass arithmetic are enumerated completely.",
        "Trusted: reference arithmetic in mc/c16_model.py; only results needing at most two accidentals are compared; compound intervals out of scope.",
        "DESIGN.md section 4 C16",
    ),
    "C17": (
        "exhaustive enumeration of small note arrays in every row order (multisets of 1-5 rows), pitch pairs/contexts, periodic families of every length, and MIDI files built from them",
        "All multisets of up to four (five in blocks) rows over small onset/pitch/duration alphabets in every row permutation, all pitch pairs "
        "21..108, 12^4 pitch-class sequences, periodic motifs of every length 1..120 (crossing the ps13 windows), both voice modes, three profile "
        "sets, and MIDI files written from the arrays are fed to the real estimate_spelling / estimate_voices / estimate_key / load_score_midi; "
        "sounding pitch, accidental bound, order independence, voice well-formedness, key validity/invariances (and the winning profile against an "
        "exact Krumhansl-Schmuckler reference) and importer pitches are checked.",
        "Trusted: reference in mc/c17_ref.py using the profile tables of globals.py; key invariances asserted only where the winning correlation "
        "is finite and unique by 1e-9; hundreds of arbitrary rows are out of reach.",
        "DESIGN.md section 4 C17",
    ),
    "C18": (
        "exhaustive enumeration of small score/performance/alignment triples x 5 normalisations x 2 tempo methods, encode->decode round trip and time maps against exact references",
        "All single-part scores of a structural family (compositions of four grid units into notes/chords/rests, second voice, grace, pickup), all "
        "tempo sequences over {0.3,0.5,0.8}, all single (and pairs of) alignment changes (deletion, insertion, ornament, unknown ids) in three "
        "alignment orders and several input forms are encoded and decoded under every normalisation and tempo method on the real implementation; "
        "the matched table, decoded onsets up to one shift, durations, velocities and both time maps are compared with references.",
        "Trusted: reference in mc/c18_model.py; tolerances 2e-5 s / 1e-5 relative (measured worst error 7e-7 s); performances have increasing mean "
        "onset per score onset; three open known findings (grace duration 0, 75 ms floor twice).",
        "DESIGN.md section 4 C18",
    ),
    "C19": (
        "exhaustive enumeration of abstract scores serialised by independent MEI and kern writers, denotational reference in Fraction quarters; export->load round trips; dispatch",
        "Abstract scores over small notation alphabets (values whole..16th with 0-3 dots, tuplets, chords, rests, measure rests, spaces, ties, "
        "graces, layers/spines, staves, meter/key/clef declared as attributes or children / tandem interpretations, barlines, spine splits, "
        "repeats) are written as MEI and kern text by two independent writers and loaded by the real importers; every note's spelling, onset, "
        "duration, staff, voice partition, ties, measure starts and the meter/key/clef in force are compared with the denotation; exportable "
        "parts are saved with save_mei/save_kern and re-loaded; load_score dispatch by extension incl. content under the wrong extension.",
        "Trusted: the two writers and the reference reading in mc/c19_model.py; lxml; kern voice numbers and part order left open; two open known "
        "findings (kern tie touching a chord, spines sharing a part only when all agree).",
        "DESIGN.md section 4 C19",
    ),
    "C20": (
        "exhaustive enumeration of call sequences (depth 2) over an object family + stateless enumeration of all interleavings of iteration clients",
        "Every ordered pair (and every repetition) of read-only entry points is executed on every object of an enumerated family; "
        "the argument's full identity-free fingerprint must stay the initial one, repeated results must be identical and the result "
        "of g after f must equal g on a fresh object. All interleavings of 2-3 iteration clients over one container are enumerated "
        "by a cooperative scheduler that owns every iter()/next() step.",
        "Trusted: mc/fingerprint.py (reads instance dictionaries and the point array only); caches/cursors named in DESIGN 2.5 are "
        "excluded from the fingerprint and covered by the g-after-f clause; objects: 1 + 12 single-feature + feature-pair scores, 3 performances.",
        "DESIGN.md section 4 C20",
    ),
}

NOT_YET = "check not built yet in this revision of /verif (planned as bounded exhaustive enumeration, DESIGN.md section 4)"


def main():
    props = [json.loads(l) for l in open(os.path.join(HERE, "properties.jsonl"))]
    checks = []
    na = []
    for p in props:
        pid = p["id"]
        if pid in CHECKS and os.path.exists(os.path.join(HERE, "checks", pid.lower() + ".py")):
            tech, text, note, ref = CHECKS[pid]
            checks.append(
                dict(
                    property_id=pid,
                    quick_cmd="./check %s --tier quick" % pid,
                    thorough_cmd="./check %s --tier thorough" % pid,
                    evidence_file="evidence/%s.json" % pid,
                    replay_cmd_template="./check %s --replay {path}" % pid,
                    engine="mc-python",
                    level_claimed=dict(category="model_checking", text=text, design_ref=ref),
                    level_note=note,
                    technique=tech,
                )
            )
        else:
            na.append(dict(property_id=pid, reason=NA.get(pid, NOT_YET)))
    man = dict(
        version=1,
        setup_cmd="/venv/bin/python mc/selftest.py",
        hooks=dict(
            guard="CPJKU_PARTITURA_VERIF",
            enable="no source hooks: checks import partitura from /repo's working tree (the ./check dispatcher exports CPJKU_PARTITURA_VERIF=1 for uniformity)",
            baseline_off_cmd="cd /repo && /venv/bin/python -m pytest -ra -q -p no:cacheprovider --timeout=900 --continue-on-collection-errors",
            source_commits=[],
            add_only=True,
        ),
        engines=[
            dict(
                name="mc-python",
                path="mc/",
                serves_properties=[c["property_id"] for c in checks],
                kind_free_text="hand-written explicit-state / bounded-exhaustive explorer in Python running the real implementation in lock-step with reference models (mc/core.py runner, mc/explorer.py BFS, mc/interleave.py schedules)",
            )
        ],
        checks=checks,
        notes="Unguarded fix: commits in /repo are listed in known_findings.json (status fixed). See DESIGN.md.",
        not_applicable=na,
    )
    with open(os.path.join(HERE, "MANIFEST.json"), "w") as f:
        json.dump(man, f, indent=1)
    try:
        import jsonschema

        jsonschema.validate(man, json.load(open("/root/.vp/MANIFEST.schema.json")))
        print("MANIFEST.json valid: %d checks, %d not_applicable" % (len(checks), len(na)))
    except ImportError:
        print("written (jsonschema not available)")


NA = {}

if __name__ == "__main__":
    main()
