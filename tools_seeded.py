#!/venv/bin/python
"""Run the registered checks against the seeded property-breaking changes in /verif/seeded/<id>/.

For each seeded change: scratch worktree of /repo HEAD under /var/tmp, `git apply patch.diff`,
optionally the baseline suite (--baseline) and the demonstration (--demo), then the quick check
of the property it breaks (plus `also` checks from meta.json) with VERIF_REPO pointing at the
worktree; expects exit 1 with a VIOLATION line.  The worktree is removed afterwards.
Usage: tools_seeded.py [--baseline] [--demo] [--tier quick] [ids...]
Writes seeded/RESULTS.json and prints a table.
"""
import json
import os
import shutil
import subprocess
import sys
import time

HERE = os.path.dirname(os.path.abspath(__file__))


def sh(cmd, cwd=None, env=None, timeout=3600):
    p = subprocess.run(cmd, shell=True, cwd=cwd, env=env, stdout=subprocess.PIPE, stderr=subprocess.STDOUT, timeout=timeout)
    return p.returncode, p.stdout.decode("utf8", "replace")


def _merge_write(rpath, sid, entry):
    """several runs of this tool may be active: re-read the file under a lock and replace one entry"""
    import fcntl

    with open(rpath + ".lock", "w") as lk:
        fcntl.flock(lk, fcntl.LOCK_EX)
        cur = json.load(open(rpath)) if os.path.exists(rpath) else {}
        cur[sid] = entry
        tmp = rpath + ".tmp%d" % os.getpid()
        json.dump(cur, open(tmp, "w"), indent=1, sort_keys=True)
        os.replace(tmp, rpath)


def main():
    args = [a for a in sys.argv[1:] if not a.startswith("--")]
    flags = {a for a in sys.argv[1:] if a.startswith("--")}
    tier = "thorough" if "--thorough" in flags else "quick"
    sd = os.path.join(HERE, "seeded")
    ids = args or sorted(d for d in os.listdir(sd) if os.path.exists(os.path.join(sd, d, "patch.diff")))
    results = {}
    rpath = os.path.join(sd, "RESULTS.json")
    if os.path.exists(rpath):
        results = json.load(open(rpath))
    for sid in ids:
        d = os.path.join(sd, sid)
        meta = json.load(open(os.path.join(d, "meta.json")))
        wt = "/var/tmp/seedrun-%s" % sid
        sh("git -C /repo worktree remove --force %s" % wt)
        shutil.rmtree(wt, ignore_errors=True)
        rc, out = sh("git -C /repo worktree add --detach -q %s HEAD" % wt)
        if rc:
            print(sid, "worktree failed", out)
            continue
        entry = dict(property=meta["property"], summary=meta.get("summary", ""))
        try:
            if "--demo" in flags and os.path.exists(os.path.join(d, "demo.py")):
                os.makedirs(os.path.join(wt, "MUTATION"), exist_ok=True)
                shutil.copy(os.path.join(d, "demo.py"), os.path.join(wt, "MUTATION", "demo.py"))
                rc, out = sh("/venv/bin/python MUTATION/demo.py", cwd=wt)
                entry["demo_without_change"] = "exit %d" % rc
            rc, out = sh("git apply %s" % os.path.join(d, "patch.diff"), cwd=wt)
            if rc:
                entry["apply"] = "FAILED: " + out[-300:]
                results[sid] = entry
                _merge_write(rpath, sid, entry)
                print(sid, "patch does not apply")
                continue
            env = dict(os.environ, VERIF_REPO=wt)
            if "--baseline" in flags:
                xml = "/var/tmp/seedrun-%s.xml" % sid
                sh("/venv/bin/python -m pytest -q -p no:cacheprovider --timeout=900 --continue-on-collection-errors --junitxml=%s" % xml, cwd=wt)
                rc, out = sh("%s/tools_baseline.py %s" % (HERE, xml))
                entry["baseline"] = out.strip().splitlines()[0] if out.strip() else "?"
                os.remove(xml)
            if "--demo" in flags and os.path.exists(os.path.join(d, "demo.py")):
                os.makedirs(os.path.join(wt, "MUTATION"), exist_ok=True)
                shutil.copy(os.path.join(d, "demo.py"), os.path.join(wt, "MUTATION", "demo.py"))
                rc, out = sh("/venv/bin/python MUTATION/demo.py", cwd=wt)
                entry["demo_with_change"] = "exit %d" % rc
            checks = [meta["property"]] + list(meta.get("also", []))
            entry["checks"] = {}
            for pid in checks:
                t0 = time.time()
                rc, out = sh("./check %s --tier %s --no-evidence" % (pid, tier), cwd=HERE, env=env)
                viol = [l for l in out.splitlines() if l.startswith("VIOLATION")]
                groups = [l for l in out.splitlines() if l.startswith("violation group")]
                entry["checks"][pid] = dict(exit=rc, violations=len(viol), groups=[g[:160] for g in groups[:4]], wall_s=round(time.time() - t0, 1))
                print("%-14s %s %s exit=%d violation-lines=%d %.0fs" % (sid, pid, tier, rc, len(viol), time.time() - t0))
            entry["detected_by"] = [p for p, r in entry["checks"].items() if r["exit"] == 1 and r["violations"] > 0]
        finally:
            sh("git -C /repo worktree remove --force %s" % wt)
            shutil.rmtree(wt, ignore_errors=True)
        results[sid] = entry
        _merge_write(rpath, sid, entry)
        if "--baseline" in flags or "--demo" in flags:
            prev = meta.get("verified", {})
            prev.update({k: v for k, v in entry.items() if k not in ("property", "summary")})
            prev["how"] = ("scratch worktree of /repo HEAD under /var/tmp, git apply patch.diff; baseline suite compared with BASELINE.json "
                           "stable_pass; demo.py run without and with the change; ./check <property> --tier quick with VERIF_REPO=<worktree>")
            meta["verified"] = prev
            json.dump(meta, open(os.path.join(d, "meta.json"), "w"), indent=1)
    print()
    for sid in sorted(results):
        e = results[sid]
        print("%-16s %-4s detected_by=%s  %s" % (sid, e["property"], ",".join(e.get("detected_by", [])) or "-", e.get("summary", "")[:90]))


if __name__ == "__main__":
    main()
