#!/bin/bash
# tools_rebase_seeded.sh <id>... : re-make seeded/<id>/patch.diff on /repo HEAD with fuzzy context matching
# (a fix commit touched neighbouring lines); the change itself must stay the same - inspect the printed diff.
for id in "$@"; do
  wt=/var/tmp/rebase-$id
  git -C /repo worktree remove --force $wt 2>/dev/null; rm -rf $wt
  git -C /repo worktree add --detach -q $wt HEAD || exit 1
  if (cd $wt && patch -p1 --fuzz=3 --no-backup-if-mismatch < /verif/seeded/$id/patch.diff); then
    (cd $wt && git diff -- partitura) > /verif/seeded/$id/patch.diff.new
    if [ -s /verif/seeded/$id/patch.diff.new ]; then
      mv /verif/seeded/$id/patch.diff.new /verif/seeded/$id/patch.diff
      /venv/bin/python - "$id" <<'PY'
import json, sys, subprocess
p = '/verif/seeded/%s/meta.json' % sys.argv[1]
m = json.load(open(p))
head = subprocess.check_output(['git', '-C', '/repo', 'rev-parse', '--short', 'HEAD']).decode().strip()
m['rebased'] = 'patch re-made on /repo %s with fuzzy context matching (a fix commit touched neighbouring lines); same change' % head
json.dump(m, open(p, 'w'), indent=1)
PY
      echo "rebased $id"
    fi
  else
    echo "FAILED $id"
  fi
  git -C /repo worktree remove --force $wt; rm -rf $wt
done
