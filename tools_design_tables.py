#!/venv/bin/python
"""Regenerate the generated tables of DESIGN.md (between the AUTOGEN markers) from
known_findings.json and seeded/RESULTS.json + seeded/*/meta.json."""
import json, os, re
HERE = os.path.dirname(os.path.abspath(__file__))
kf = json.load(open(os.path.join(HERE, "known_findings.json")))["findings"]
out = []
out.append("#### Repaired defects (`fix:` commits in /repo, in order of property)\n")
out.append("| property | commit | what failed |\n|---|---|---|")
for e in sorted((e for e in kf if e["status"] == "fixed"), key=lambda e: (e["property"], )):
    out.append("| %s | %s | %s |" % (e["property"], e["commit"], e["what"].replace("|", "\\|")))
out.append("\n#### Open known findings (genuine, recorded, not repaired)\n")
out.append("| property | clause | where / trigger | what and why it is not repaired |\n|---|---|---|---|")
for e in (e for e in kf if e["status"] == "open"):
    out.append("| %s | %s | %s %s | %s |" % (e["property"], e.get("clause", "(any)"), e.get("where", ""), ("trigger `%s`" % e["trigger"]) if e.get("trigger") else "", e["what"].replace("|", "\\|")))
rp = os.path.join(HERE, "seeded", "RESULTS.json")
if os.path.exists(rp):
    res = json.load(open(rp))
    out.append("\n#### Seeded property-breaking changes (`seeded/<id>/`) and the checks that catch them\n")
    out.append("| id | breaks | caught by (quick) | change | needs |\n|---|---|---|---|---|")
    for sid in sorted(res):
        mp = os.path.join(HERE, "seeded", sid, "meta.json")
        meta = json.load(open(mp)) if os.path.exists(mp) else {}
        e = res[sid]
        out.append("| %s | %s | %s | %s | %s |" % (sid, e["property"], ", ".join(e.get("detected_by", [])) or ("not claimed (judged outside the statement)" if meta.get("judged") else ("neutralised by a later fix" if meta.get("neutralised") else "**missed**")),
                   str(meta.get("summary", ""))[:260].replace("|", "\\|").replace("\n", " "), str(meta.get("needs", ""))[:220].replace("|", "\\|").replace("\n", " ")))
# sub-spaces per check, from the evidence of the last run of each check
import glob
out.append("\n#### Enumerated sub-spaces per check (from `evidence/<id>.json`, tier and seed of the last run)\n")
out.append("| check | tier | space | cases | bounds |\n|---|---|---|---|---|")
for ep in sorted(glob.glob(os.path.join(HERE, "evidence", "C*.json"))):
    ev = json.load(open(ep))
    agg = {}
    order = []
    for sp in ev.get("coverage", {}).get("spaces", []):
        name = re.sub(r"/depth\d+$", "", sp["name"])
        if name not in agg:
            agg[name] = [0, sp.get("bounds", "")]
            order.append(name)
        agg[name][0] += sp.get("cases", 0)
    for name in order:
        out.append("| %s | %s | %s | %d | %s |" % (ev["property_id"], ev.get("tier", ""), name, agg[name][0],
                   str(agg[name][1])[:240].replace("|", "\\|").replace("\n", " ")))
text = "\n".join(out) + "\n"
p = os.path.join(HERE, "DESIGN.md")
s = open(p).read()
a, b = "<!-- AUTOGEN:BEGIN -->", "<!-- AUTOGEN:END -->"
if a in s:
    s = s[:s.index(a) + len(a)] + "\n" + text + s[s.index(b):]
    open(p, "w").write(s)
    print("DESIGN.md tables updated")
else:
    print("markers not found")
