#!/bin/bash
# tools_runall.sh [tier] : run every registered check sequentially, print exit code and wall time
tier=${1:-quick}
shift
cd /verif
ids="$@"
[ -z "$ids" ] && ids=$(/venv/bin/python -c "import json;print(' '.join(c['property_id'] for c in json.load(open('MANIFEST.json'))['checks']))")
for p in $ids; do
  s=$(date +%s.%N)
  ./check $p --tier $tier > /var/tmp/runall_$p.log 2>&1; rc=$?
  e=$(date +%s.%N)
  printf "%s exit=%d wall=%.1fs kf=%d\n" $p $rc $(echo "$e - $s" | bc) $(grep -c "^KNOWN-FINDING" /var/tmp/runall_$p.log)
done
