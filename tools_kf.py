#!/venv/bin/python
"""tools_kf.py <property> <commit-ish>... : append status=fixed entries for the given /repo commits."""
import json, subprocess, sys
pid = sys.argv[1]
kf = json.load(open('/verif/known_findings.json'))
have = {e.get('commit') for e in kf['findings']}
for c in sys.argv[2:]:
    sha, subj = subprocess.check_output(['git', '-C', '/repo', 'log', '-1', '--format=%h\t%s', c]).decode().strip().split('\t', 1)
    if sha in have:
        continue
    what = subj[5:] if subj.startswith('fix: ') else subj
    kf['findings'].append(dict(status='fixed', property=pid, commit=sha, line='fixed: property=%s %s %s' % (pid, sha, what), what=what))
json.dump(kf, open('/verif/known_findings.json', 'w'), indent=1)
print('known findings:', len(kf['findings']))
