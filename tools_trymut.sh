#!/bin/bash
# tools_trymut.sh <seeded id> <check> [extra check args]: apply seeded patch in a scratch worktree and run the check against it
id=$1; chk=$2; shift 2
wt=/var/tmp/try-$id
git -C /repo worktree remove --force $wt 2>/dev/null; rm -rf $wt
git -C /repo worktree add --detach -q $wt HEAD && (cd $wt && git apply /verif/seeded/$id/patch.diff) && (cd /verif && VERIF_REPO=$wt ./check $chk --tier quick --no-evidence "$@" 2>&1 | grep -v "^KNOWN" | cut -c1-420 | tail -8)
git -C /repo worktree remove --force $wt
