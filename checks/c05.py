"""C05 - the note array is a faithful table of the score.

Bounded-exhaustive enumeration of small parts (frames = divisions x meter/measures x key signatures;
contents = note / tie-chain / grace / rest events on the frame's grid), score structures (lists,
groups, scores of 1-3 parts with unequal divisions) and small note arrays (inverse direction).  Every
array returned by the real implementation is compared column by column with a reference table computed
exactly (fractions) from the part description (mc/c05_ref.py).

Clauses (names used in violations) and the sentence of the statement that licenses them:
  row-set, id            one row per sounding note (tie chain = one row, graces kept), id; part-prefixed ids on request
  onset-duration-div     onset and duration in divisions equal the timeline values (rescaled to the lcm for lists)
  quarter-values, beat-values   equal the part's time maps (exact reference, float32 tolerance)
  pitch, spelling, voice, staff, grace, key-signature, time-signature, metrical-position, divs-per-quarter
                         every (optional) column equals what the score states at the note's onset
  columns                every requested column is present
  order                  rows ordered by onset, then pitch
  array-built, rest-array-built   the array can be built for every in-domain part / option set
  inverse-*, score-built-from-array, array-of-rebuilt-score   note_array_to_score(a).note_array() returns the same
                         onsets, durations and pitches

Edit spaces (part-edit1, part-edit2, score-edit): the same clauses on ONE Part / Score object that is queried, edited
through the public API (signatures, measures, notes, rests, quarter duration; alphabet in mc/c05_edit.py) and queried
again with the same options - every array must be the table of the score as it is when the array is taken.

Tie edit spaces (part-edit-ties1, part-edit-ties2): the same query / edit / query rounds with edits of tie chains that
were already queried (alphabet in mc/c05_edit.py: resize the last note, move a boundary between members, remove the last
note, untie, tie a new or an existing note on, rescale the whole part in place by removing every object and adding it again
at multiplied times) - a chain is one row whose duration is the timeline duration of its members as they are now.
part-merged (thorough): the note array of the Part that merge_parts makes out of parts with unequal divisions.

Inverse direction with measures (inverse-m1, inverse-m2, inverse-m3, inverse-mtrip): note arrays together with a time
signature (ts_beats / ts_beat_type columns, time_sigs argument, estimate_time), so that note_array_to_score builds measures,
a pickup measure for rows with negative beat onsets, and ties over barlines; division 0 is the start of the pickup measure,
the first row may start later (the array opens with a rest or is an excerpt).  The note array of the rebuilt score must state
the same beat onsets (as they are: the pickup is representable), durations, division columns and pitches.

Inverse direction with changing time signatures (inverse-ts): note arrays whose ts_beats / ts_beat_type columns change
along the array - every sequence of 2-3 time signatures (a signature may come back after another one; equal and different
beat units), 1-2 measures each, with notes inside, over the barlines and over the signature changes; the beat columns are the
exact beat map of the sequence and must come back from the rebuilt score, with the division columns and pitches.

Magnitude space (part-magnitude): the small parts again at large tick values - every time and quarter duration of the
frame multiplied by a factor (480, 10080, 302400 divisions per quarter times the frame's own), and notes / rests placed
in a late section of the part whose tick values lie around 2^24, around 2^30 and just below 2^31 (the int32 division
columns end there), alone or together with notes at the start of the part; same clauses, exact reference.
Zero-valued voice and staff numbers (part-decor, rest-decor): a voice or staff stated as 0 is a stated value.

Nesting space (score-nest): 1-3 parts distributed in every way over a part list with PartGroups nested to a bounded depth
(groups of one element included); the array of the list, of the Score made of it and of every group at any level is the
union of the tables of the parts below it (same id readings as the other score spaces).
"""
from fractions import Fraction as F
from itertools import product

from mc.core import CaseResult, Space, run_check, block_of, innermost_partitura_frame, exc_text
from mc import c05_gen as G
from mc import c05_ref as R
from mc import c05_edit as E

PID = "C05"
RULE = (
    "cases are enumerated exhaustively per named sub-space (frame x events x option sets; score structures x "
    "division tuples x contents; note arrays over small onset/duration/pitch alphabets); a case is distinct by "
    "construction; non-trivial = the array under test has at least one row; edit spaces: frame x content x every "
    "sequence of 1-2 edits of the alphabet, the arrays are taken before the first and after every edit (tie edit spaces: the "
    "same with the alphabet of tie chain edits on a content with tie chains and notes that can be tied); inverse-m*: time "
    "signature form x pickup length x sorted rows over position / duration alphabets x column kinds x voice column; "
    "part-magnitude: frame x 1-2 events x (factor, place of the late section) x which events are late; inverse-ts: "
    "sequence of 2-3 time signatures x measures per signature x content pattern per signature x pickup x column kinds x voice column"
)
ASSUMPTIONS = [
    "parts are built through the public API (Part, add, set_quarter_duration, tie links); the first time point is 0",
    "quarter/beat reference: exact sum over division and time-signature stretches, a beat is a quarter before the "
    "first time signature, zero at the end of a pickup measure (first measure shorter than the signature starting with it)",
    "voice / staff are compared only where the score states them; key / time signature only where one has started at or "
    "before the onset; metrical position only with >= 2 measures, and for a short first measure both the position from "
    "its start and from the virtual start of a complete measure are accepted",
    "include_divs_per_quarter on a part with a division change may raise the documented 'not supported' exception",
    "score level: metrical columns may be rescaled or not; ids of parts inside groups inside lists may carry the flat "
    "or the nested prefix; extra columns (divs_pq) may be present; rows are ordered by onset_beat, then pitch",
    "order of rows with equal onset and pitch is not compared; float32 columns within 4 ulp of the exact value",
    "inverse direction: default options, divs given for division-only arrays; arrays with negative beat onsets are "
    "compared up to a common shift of the beat onsets; ids and voices of the rebuilt score are not compared",
    "inverse direction, generator preconditions: every zero-duration row (grace note) has a row of positive duration at "
    "the same or a later onset; division columns are consistent with the beat columns (onset_div = onset_beat x divs)",
    "inverse direction with a time signature (inverse-m*): the array is the table of a part whose pickup measure (if any) "
    "starts at division 0: onset_div = (onset_beat + pickup) x divisions per beat, pickup shorter than a measure, at least one "
    "row inside a pickup (otherwise the array does not state it); beat onsets are compared as they are, without a common "
    "shift, except for an array without pickup that ends before its first barline: note_array_to_score gives it one "
    "incomplete measure, which the beat map reads as a pickup (common shift accepted; reported as a weakness, "
    "proposed_fixes/C05-s-short-single-measure.diff); one constant time signature; without ts columns a beat is taken for a "
    "quarter (documented), so the time_sigs / estimate_time forms and beat-only arrays use beat type 4; a grace note row has "
    "its main note at the same onset in the same voice (create_part documents the removal of grace notes without main note); "
    "pickups on a grid of halves or of thirds of a beat, and of 3/2 beats on the grid of thirds (negative onsets -7/6, -5/6: "
    "the pickup length was truncated to one division less for float32 beat-only arrays, repaired in /repo e6b4838)",
    "inverse direction with changing time signatures (inverse-ts): the array is the table of a part whose signatures change at "
    "barlines, every signature lasts a whole number of measures and has a row at its start (the columns state a signature at "
    "row onsets only, note_array_to_score puts a signature at the first row that carries it); onset_beat / duration_beat are the "
    "beat map of that part (a beat = the beat unit in force, 0 at the end of the pickup measure), duration_beat of a row that "
    "sounds over a change = beat map at its end - beat map at its onset; beat and division columns together when the beat "
    "unit changes (create_divs_from_beats documents that beat-only arrays need uniform beat units); the time signature and "
    "metrical columns of the rebuilt score are not compared (the statement names onsets, durations and pitches)",
    "rest arrays: the dummy spelling columns are not compared; collapse=True is outside the statement; rest arrays of "
    "lists / groups are checked for parts with equal divisions only (no rescaling is stated for them), a one-element "
    "list may or may not prefix its ids",
    "generator preconditions for the metrical columns: requested only for parts with measures and notated beats; a time "
    "signature, when present, starts at the first time point (no stretch before the first signature inside a measure grid)",
    "musical beats (part-musical): the beat columns follow Part.beat_map with use_musical_beat in force, "
    "ts_mus_beats is the number given to use_musical_beat or the default (6->2, 9->3, 12->4)",
    "notes without id, unpitched notes, tie chains with gaps, grace notes inside tie chains and two signatures at one "
    "time are not generated",
    "edit spaces (part-edit1, part-edit2, score-edit): 'the score' is the Part as it is when the array is taken, so after "
    "an edit through Part.add / Part.remove / Part.set_quarter_duration the arrays equal the table of the edited score; "
    "replacing a signature or re-barring = remove + add between two queries; edits that lead outside the preconditions "
    "above are not generated (first time point 0, two signatures at one time, a time signature that does not start at the "
    "first time point), nor parts whose first measure is shorter than its signature while the length of a beat in "
    "divisions changes during the first beat after time 0 (Part.measure_map takes the position of that beat for the "
    "divisions per beat of the first measure: see proposed_fixes/C05-s-subbeat-pickup.diff)",
    "tie edit spaces: tie links are the tie_next / tie_prev attributes, set in pairs as the importers set them; a note is "
    "resized / moved with Part.remove(o, 'start' | 'end') + Part.add(o, start, end); edited chains keep the end of a member at "
    "the start of the next one and one spelled pitch; a note removed from the part is unlinked first; the in-place rescaling "
    "is applied to parts with one quarter duration only (a quarter duration set at a later time cannot be taken back)",
    "part-magnitude: every time below 2^31 (the division columns are int32); the late section starts a whole number of "
    "quarters (<= 65536: the beat and quarter columns are float32, onsets one division of the frame apart stay distinct) "
    "after time 0, after the last measure, signature and division change of the frame: the signatures and the quarter "
    "duration in force there are the last ones of the frame, the metrical position is compared inside measures only "
    "(the late section lies outside every measure; the option is still requested there)",
    "a voice or staff number 0 given to Note / Rest is a stated value (the arrays show 0)",
    "part-merged: the inputs are parts with one quarter duration whose notes and rests all state voice and staff (domain of "
    "merge_parts); the expected table is the union of the input tables with times multiplied to the lcm of the divisions "
    "(what merge_parts documents); voice and staff (renumbered by merge_parts) are not compared",
]
CHUNK = 40

BASE_FIELDS = ["onset_beat", "duration_beat", "onset_quarter", "duration_quarter", "onset_div", "duration_div",
               "pitch", "voice", "id"]
FLAG_FIELDS = {
    "include_pitch_spelling": ["step", "alter", "octave"],
    "include_key_signature": ["ks_fifths", "ks_mode"],
    "include_time_signature": ["ts_beats", "ts_beat_type"],
    "include_metrical_position": ["is_downbeat", "rel_onset_div", "tot_measure_div"],
    "include_grace_notes": ["is_grace", "grace_type"],
    "include_staff": ["staff"],
    "include_divs_per_quarter": ["divs_pq"],
}
ULP4 = 4 * 2.0 ** -23


def f4_ok(obs, ref):
    r = float(ref)
    return abs(float(obs) - r) <= ULP4 * max(1.0, abs(r))


def frac(s):
    if isinstance(s, str):
        a, b = s.split("/")
        return F(int(a), int(b))
    return F(s)


# ---------------------------------------------------------------------------------------------
# the oracle for one array


def row_mismatches(o, r, names, flags, level, kind):
    """list of (clause, column, expected, observed) for observed row o against reference row r"""
    bad = []

    def eq(clause, col, exp):
        if col in names and int(o[col]) != exp:
            bad.append((clause, col, exp, int(o[col])))

    eq("onset-duration-div", "onset_div", r["onset_div"])
    eq("onset-duration-div", "duration_div", r["duration_div"])
    for col, clause in (("onset_quarter", "quarter-values"), ("duration_quarter", "quarter-values"),
                        ("onset_beat", "beat-values"), ("duration_beat", "beat-values")):
        if col in names and not f4_ok(o[col], r[col]):
            bad.append((clause, col, str(r[col]), float(o[col])))
    eq("pitch", "pitch", r["pitch"])
    if r["voice"] is not None:
        eq("voice", "voice", r["voice"])
    if "include_pitch_spelling" in flags and kind == "note":
        if "step" in names and str(o["step"]) != r["step"]:
            bad.append(("spelling", "step", r["step"], str(o["step"])))
        eq("spelling", "alter", r["alter"])
        eq("spelling", "octave", r["octave"])
    if "include_grace_notes" in flags:
        eq("grace", "is_grace", r["is_grace"])
        if "grace_type" in names and str(o["grace_type"]) != r["grace_type"]:
            bad.append(("grace", "grace_type", r["grace_type"], str(o["grace_type"])))
    if "include_key_signature" in flags and r["ks"] is not None:
        eq("key-signature", "ks_fifths", r["ks"][0])
        eq("key-signature", "ks_mode", r["ks"][1])
    if "include_time_signature" in flags and r["ts"] is not None:
        eq("time-signature", "ts_beats", r["ts"][0])
        eq("time-signature", "ts_beat_type", r["ts"][1])
        eq("time-signature", "ts_mus_beats", r["ts"][2])
    if "include_metrical_position" in flags and r["metrical"] is not None and all(
            c in names for c in FLAG_FIELDS["include_metrical_position"]):
        got = (int(o["is_downbeat"]), int(o["rel_onset_div"]), int(o["tot_measure_div"]))
        acc = []
        for d, rel, tot in r["metrical"]:
            acc.append((d, rel, tot))
            if level == "list" and r.get("scale", 1) != 1:
                acc.append((d, rel * r["scale"], tot * r["scale"]))
        if got not in acc:
            bad.append(("metrical-position", "is_downbeat,rel_onset_div,tot_measure_div", acc, got))
    if "include_staff" in flags and r["staff"] is not None:
        eq("staff", "staff", r["staff"])
    if "divs_pq" in names and ("include_divs_per_quarter" in flags or level == "list"):
        eq("divs-per-quarter", "divs_pq", r["divs_pq"])
    return bad


def check_array(res, arr, rows, flags, level, kind, where, ctx):
    """compare a structured array with the reference rows; rows carry `ids` (accepted ids) at list level"""
    import numpy as np

    if not isinstance(arr, np.ndarray) or arr.dtype.names is None:
        res.fail("columns", expected="structured array", observed=repr(type(arr)), where=where, detail=ctx)
        return False
    names = set(arr.dtype.names)
    need = list(BASE_FIELDS)
    for f in flags:
        need += FLAG_FIELDS[f]
    if "include_time_signature" in flags and kind == "note":
        need.append("ts_mus_beats")
    missing = [c for c in need if c not in names and not (kind == "rest" and c in ("step", "alter", "octave"))]
    if missing:
        res.fail("columns", expected=need, observed=list(arr.dtype.names), where=where, detail=ctx)
        return False
    if len(arr) != len(rows):
        res.fail("row-set", expected="%d rows: %s" % (len(rows), sorted(r["id"] for r in rows)),
                 observed="%d rows: %s" % (len(arr), [str(x) for x in arr["id"]]), where=where, detail=ctx)
        return False
    # assignment of observed rows to reference rows with the same id (ids may repeat across parts when
    # prefixes are off): exact search, so that the verdict does not depend on the order of candidates
    obs = list(arr)
    cand = []
    for o in obs:
        oid = str(o["id"])
        ks = [k for k, r in enumerate(rows) if oid in r.get("ids", (r["id"],))]
        if not ks:
            res.fail("id", expected=sorted(set(x for r in rows for x in r.get("ids", (r["id"],)))),
                     observed=[str(x) for x in arr["id"]], where=where, detail=ctx)
            return False
        cand.append(ks)
    mism = {}

    def mm(i, k):
        if (i, k) not in mism:
            mism[(i, k)] = row_mismatches(obs[i], rows[k], names, flags, level, kind)
        return mism[(i, k)]

    def search(i, used, exact):
        if i == len(obs):
            return []
        for k in cand[i]:
            if k in used or (exact and mm(i, k)):
                continue
            rest = search(i + 1, used | {k}, exact)
            if rest is not None:
                return [k] + rest
        return None

    assign = search(0, frozenset(), True)
    ok = assign is not None
    if not ok:
        assign = search(0, frozenset(), False)
        if assign is None:
            res.fail("row-set", expected=sorted(x for r in rows for x in r.get("ids", (r["id"],))),
                     observed=[str(x) for x in arr["id"]], where=where, detail=ctx)
            return False
        for i, k in enumerate(assign):
            bad = mm(i, k)
            if bad:
                clause, col, exp, ob = bad[0]
                res.fail(clause, expected={col: exp}, observed={col: ob}, where=where,
                         detail="%s row id=%s (all mismatches: %s)" % (ctx, str(obs[i]["id"]), [b[1] for b in bad]))
    matched = [rows[k] for k in assign]
    if ok:
        keys = [(m["onset_beat"], m["pitch"]) for m in matched]
        if any(keys[i] > keys[i + 1] for i in range(len(keys) - 1)):
            res.fail("order", expected="rows ordered by onset, then pitch",
                     observed=[[str(a), b] for a, b in keys], where=where, detail=ctx)
            ok = False
    return ok


def check_list_array(res, arr, rows, flags, kind, where, ctx, extra_readings=()):
    """list level: the array must agree with the reference under one reading of the id prefix rule,
    applied to all rows alike"""
    readings = []
    for k in range(len(rows[0]["id_readings"]) if rows else 0):
        ids = [r["id_readings"][k] for r in rows]
        if ids not in readings:
            readings.append(ids)
    for fn in extra_readings:
        ids = [fn(r) for r in rows]
        if ids not in readings:
            readings.append(ids)
    first = None
    for ids in readings:
        tmp = CaseResult()
        rr = [dict(r, ids=(i,)) for r, i in zip(rows, ids)]
        if check_array(tmp, arr, rr, flags, "list", kind, where, ctx):
            return True
        if first is None:
            first = tmp
    for v in first.violations:
        if len(res.violations) < 8:
            res.violations.append(v)
    return False


def call(res, clause, fn, ctx):
    """run fn under try; exception -> violation. returns (ok, value)"""
    from mc.core import Hang

    try:
        return True, fn()
    except Hang:
        raise
    except Exception as e:  # noqa
        res.fail(clause, kind="exception", where=innermost_partitura_frame(e), observed=exc_text(e), detail=ctx)
        return False, None


def kwargs_of(flags):
    return {f: True for f in flags}


# ---------------------------------------------------------------------------------------------
# part level


def part_configs(frame, flags_list, all_flags):
    """apply the generator-side preconditions to a list of flag sets"""
    out = []
    for fl in flags_list:
        fl = [f for f in fl if not (f == "include_metrical_position" and not frame["has_measures"])]
        if fl not in out:
            out.append(fl)
    return out


def eval_part_arrays(res, part, ref, frame, configs, ctx, via="method"):
    import partitura.utils.music as M

    rows = ref.note_rows()
    multi = len(ref.divs) > 1
    n = 0
    for fl in configs:
        c2 = "%s flags=%s via=%s" % (ctx, [f.replace("include_", "") for f in fl], via)
        if via == "method":
            fn = lambda: part.note_array(**kwargs_of(fl))
            where = "Part.note_array"
        elif via == "ensure":
            fn = lambda: M.ensure_notearray(part, **kwargs_of(fl))
            where = "ensure_notearray(Part)"
        else:
            fn = lambda: M.note_array_from_part(part, **kwargs_of(fl))
            where = "note_array_from_part"
        res.transitions += 1
        n += 1
        if multi and "include_divs_per_quarter" in fl:
            try:
                arr = fn()
            except Exception as e:  # documented: not supported
                if "multiple divisions is not supported" in str(e):
                    continue
                res.fail("array-built", kind="exception", where=innermost_partitura_frame(e), observed=exc_text(e), detail=c2)
                continue
        else:
            ok, arr = call(res, "array-built", fn, c2)
            if not ok:
                continue
        check_array(res, arr, rows, fl, "part", "note", where, c2)
    return n


def eval_rest_arrays(res, part, ref, frame, configs, ctx, via="method"):
    import partitura.utils.music as M

    rows = ref.rest_rows()
    for fl in configs:
        c2 = "%s rest flags=%s via=%s" % (ctx, [f.replace("include_", "") for f in fl], via)
        if via == "method":
            fn = lambda: part.rest_array(**kwargs_of(fl))
            where = "Part.rest_array"
        else:
            fn = lambda: M.ensure_rest_array(part, **kwargs_of(fl))
            where = "ensure_rest_array(Part)"
        res.transitions += 1
        ok, arr = call(res, "rest-array-built", fn, c2)
        if not ok:
            continue
        check_array(res, arr, rows, fl, "part", "rest", where, c2)


def describe(spec, ref):
    ch = ref.chains()
    return "rows=%d ties=%d graces=%d rests=%d novoice=%d pickup=%d divchg=%d" % (
        len(ch), sum(1 for c in ch if len(c) > 1), sum(1 for c in ch if c[0]["k"] == "grace"), len(ref.rests),
        sum(1 for c in ch if c[0].get("voice") is None), 1 if ref.shift("q") else 0, len(ref.divs) - 1)


def eval_part(case):
    from mc import ir

    res = CaseResult(states=1, transitions=0, traces=1)
    frame = G.get_frame(case["frame"])
    sp = case["sp"]
    if sp in ("rest-single", "rest-pairs", "rest-flags", "rest-decor"):
        allev = G.rest_events(frame) + G.note_events(frame)
    else:
        allev = G.note_events(frame)
    events = case["ev"]
    deco = case.get("deco") or G.default_deco(events, allev)
    spec = G.build_spec(frame, events, deco)
    ctx = "frame=%s ev=%s" % (case["frame"], events)
    ok, part = call(res, "part-built", lambda: ir.build_part(spec), ctx)
    if not ok:
        res.outcome = "build-failed"
        return res
    ref = R.PartRef(spec, musical=case.get("mus"))
    if sp == "part-musical":
        # musical beats in force: beat columns follow the musical beat map (metrical position is not
        # requested: its pickup detection under musical beats belongs to the measure maps)
        ok, _ = call(res, "part-built", lambda: part.use_musical_beat(dict(case["mus"])), ctx)
        if not ok:
            return res
        fl_all = [f for f in G.NOTE_FLAGS if f != "include_metrical_position" and (len(ref.divs) == 1 or f != "include_divs_per_quarter")]
        ctx += " musical=%s" % (case["mus"],)
        eval_part_arrays(res, part, ref, frame, [[], fl_all, ["include_time_signature"]], ctx, via="method")
    elif sp in ("part-single", "part-pairs", "part-decor", "part-triples"):
        basic = G.basic_configs(G.NOTE_FLAGS)
        if sp in ("part-pairs", "part-triples"):
            # every single option is exercised on every frame and event by part-single; interactions of
            # several rows (order, chains, voices) get: no option, all options, one rotating option
            basic = basic[:2] + [basic[2 + sum(e[1] + 2 * e[2] for e in events) % len(G.NOTE_FLAGS)]]
        cfgs = part_configs(frame, basic, G.NOTE_FLAGS)
        if len(ref.divs) > 1:
            cfgs.append([f for f in G.NOTE_FLAGS if f != "include_divs_per_quarter" and
                         (frame["has_measures"] or f != "include_metrical_position")])
        eval_part_arrays(res, part, ref, frame, cfgs, ctx, via="method")
        # dispatch through ensure_notearray / note_array_from_part on one configuration each
        eval_part_arrays(res, part, ref, frame, part_configs(frame, [["include_staff", "include_time_signature"]], None), ctx, via="ensure")
        eval_part_arrays(res, part, ref, frame, part_configs(frame, [["include_metrical_position", "include_key_signature"]], None), ctx, via="function")
    elif sp == "part-flags":
        cfgs = part_configs(frame, [case["flags"]], G.NOTE_FLAGS)
        eval_part_arrays(res, part, ref, frame, cfgs, ctx, via="method")
        eval_part_arrays(res, part, ref, frame, cfgs, ctx, via="ensure")
    elif sp in ("rest-single", "rest-pairs", "rest-decor"):
        cfgs = part_configs(frame, G.basic_configs(G.REST_FLAGS), G.REST_FLAGS)
        eval_rest_arrays(res, part, ref, frame, cfgs, ctx, via="method")
        eval_rest_arrays(res, part, ref, frame, part_configs(frame, [["include_staff", "include_key_signature"]], None), ctx, via="ensure")
        # the notes of the same part, all columns (rests must not leak into the note array)
        eval_part_arrays(res, part, ref, frame, part_configs(frame, [[f for f in G.NOTE_FLAGS if len(ref.divs) == 1 or f != "include_divs_per_quarter"]], None), ctx)
    elif sp == "rest-flags":
        cfgs = part_configs(frame, [case["flags"]], G.REST_FLAGS)
        eval_rest_arrays(res, part, ref, frame, cfgs, ctx, via="method")
        eval_rest_arrays(res, part, ref, frame, cfgs, ctx, via="ensure")
    else:
        raise ValueError(sp)
    res.outcome = describe(spec, ref)
    res.nontrivial = bool(ref.notes or ref.rests)
    return res


def eval_magnitude(case):
    """a small part at large tick values: times x factor, the events marked late moved into the late section"""
    from mc import ir

    res = CaseResult(states=1, transitions=0, traces=1)
    frame = G.get_frame(case["frame"])
    events = case["ev"]
    allev = G.rest_events(frame) + G.note_events(frame)
    factor, bound = case["mag"]
    offset = G.mag_offset(frame, factor, bound)
    late = [k for k, x in enumerate(case["late"]) if x]
    spec = G.magnify_spec(G.build_spec(frame, events, G.default_deco(events, allev)), factor, offset, late)
    ctx = "frame=%s ev=%s factor=%d late section=%s (offset %d) late=%s" % (case["frame"], events, factor, bound, offset, case["late"])
    ok, part = call(res, "part-built", lambda: ir.build_part(spec), ctx)
    if not ok:
        res.outcome = "build-failed"
        return res
    ref = R.PartRef(spec)
    single = len(ref.divs) == 1

    def usable(f):
        return not (f == "include_metrical_position" and not frame["has_measures"]) and not (
            f == "include_divs_per_quarter" and not single)

    rot = sum(e[1] + 2 * e[2] for e in events) + len(str(factor)) + sum(case["late"])
    one = G.NOTE_FLAGS[rot % len(G.NOTE_FLAGS)]
    if not usable(one):
        one = "include_time_signature"
    if any(e[0] != "r" for e in events):
        eval_part_arrays(res, part, ref, frame, [[], [f for f in G.NOTE_FLAGS if usable(f)]], ctx, via="method")
        eval_part_arrays(res, part, ref, frame, [[one]], ctx, via=("ensure", "function", "method")[rot % 3])
    if any(e[0] == "r" for e in events):
        eval_rest_arrays(res, part, ref, frame, [[], [f for f in G.REST_FLAGS if usable(f)]], ctx, via="method")
        eval_rest_arrays(res, part, ref, frame, [[one if one in G.REST_FLAGS else "include_staff"]], ctx,
                         via=("ensure", "method")[rot % 2])
    top = max(o[x] for o in spec["objs"] for x in ("s", "e") if o.get(x) is not None)
    res.outcome = "mag factor=%d late=%s/%s top=2^%d %s" % (factor, bound, "".join(str(x) for x in case["late"]),
                                                         top.bit_length() - 1, describe(spec, ref))
    res.nontrivial = bool(ref.notes or ref.rests)
    return res


# ---------------------------------------------------------------------------------------------
# score level


def eval_score_arrays(res, sc, items, st, configs, ctx, group=None):
    """note arrays of the score / group / list `sc` built from `items`, for every (unique ids, flags) in
    `configs`, compared with the union of the part tables; returns (rows, lcm).  st == "partgroup": the group is
    the first element of the score, or `group` = (PartGroup object, specs of its children)"""
    import partitura.utils.music as M

    cfg_all = list(G.NOTE_FLAGS)
    L = 1
    nrows = 0
    for unique, fl in configs:
        kw = kwargs_of(fl)
        c2 = "%s unique=%s flags=%s" % (ctx, unique, [f.replace("include_", "") for f in fl])
        if st.startswith("score"):
            flat_items = R.flat_parts(items)  # Score.parts is the flat list of parts
            rows, L = R.list_rows(flat_items, unique)
            entries = [("Score.note_array", lambda: sc.note_array(unique_id_per_part=unique, **kw)),
                       ("ensure_notearray(Score)", lambda: M.ensure_notearray(sc, unique_id_per_part=unique, **kw))]
            if not (unique and fl == cfg_all):
                entries = entries[:1]
        elif st == "partgroup":
            pg, children = group if group is not None else (sc.part_structure[0], items[0]["children"])
            rows, L = R.list_rows(children, unique)
            entries = [("PartGroup.note_array", lambda: pg.note_array(unique_id_per_part=unique, **kw)),
                       ("ensure_notearray(PartGroup)", lambda: M.ensure_notearray(pg, unique_id_per_part=unique, **kw))]
            if not (unique and fl == cfg_all):
                entries = entries[:1]
        else:
            lst = list(sc.part_structure)
            rows, L = R.list_rows(items, unique)
            entries = [("note_array_from_part_list", lambda: M.note_array_from_part_list(lst, unique_id_per_part=unique, **kw))]
            if all("group" not in x for x in items) and not unique and fl == cfg_all:
                entries.append(("ensure_notearray(list)", lambda: M.ensure_notearray(lst, unique_id_per_part=unique, **kw)))
        nrows = len(rows)
        for where, fn in entries:
            res.transitions += 1
            if nrows == 0:
                # no part has a note: the union is empty; an empty array (or the documented failure of
                # concatenating nothing) says nothing about the statement beyond the row count
                try:
                    arr = fn()
                except Exception:
                    continue
                if len(arr) != 0:
                    res.fail("row-set", expected="0 rows", observed="%d rows" % len(arr), where=where, detail=c2)
                continue
            ok, arr = call(res, "array-built", fn, c2)
            if not ok:
                continue
            check_list_array(res, arr, rows, fl, "note", where, c2)
    return nrows, L


def eval_score(case):
    from mc import ir
    import partitura.score as S
    import partitura.utils.music as M

    res = CaseResult(states=1, transitions=0, traces=1)
    items = G.score_items(case)
    ctx = "q=%s contents=%s meter=%s struct=%s" % (case["q"], case["c"], case["meter"], case["struct"])
    st = case["struct"]

    def build():
        sc = ir.build_score({"parts": items})
        return sc

    ok, sc = call(res, "score-built", build, ctx)
    if not ok:
        res.outcome = "build-failed"
        return res
    cfg_all = list(G.NOTE_FLAGS)
    # all 2^7 option subsets are enumerated on the representative scores of `score-flags`; every other
    # score gets: all options with and without unique ids, no option, and one rotating single option
    rot = G.NOTE_FLAGS[(sum(case["q"]) + sum((i + 1) * c for i, c in enumerate(case["c"]))) % len(G.NOTE_FLAGS)]
    configs = [(True, cfg_all), (False, cfg_all), (True, []), (False, [rot])]
    if case.get("flags") is not None:
        configs = [(case["unique"], case["flags"])]
    nrows, L = eval_score_arrays(res, sc, items, st, configs, ctx)
    res.outcome = "parts=%d rows=%d lcm=%d" % (len(case["q"]), nrows, L)
    res.nontrivial = nrows > 0
    return res


def eval_nest(case):
    """parts distributed over a list with nested groups: the array of the list, of the Score made of it and of every
    group inside it (at any level) is the union of the tables of the parts below it"""
    from mc import ir

    res = CaseResult(states=1, transitions=0, traces=1)
    items = G.nest_items(case)
    shape = case["shape"]
    ctx = "q=%s contents=%s meter=%s shape=%s" % (case["q"], case["c"], case["meter"], shape)
    ok, sc = call(res, "score-built", lambda: ir.build_score({"parts": items}), ctx)
    if not ok:
        res.outcome = "build-failed"
        return res
    cfg_all = list(G.NOTE_FLAGS)
    rot = G.NOTE_FLAGS[(sum(case["q"]) + sum((i + 1) * c for i, c in enumerate(case["c"])) + len(str(shape))) % len(G.NOTE_FLAGS)]
    nrows, L = eval_score_arrays(res, sc, items, "list", [(True, cfg_all), (False, cfg_all), (True, []), (False, [rot])],
                                 ctx + " of=list")
    eval_score_arrays(res, sc, items, "score", [(True, cfg_all)], ctx + " of=score")
    ngroups = [0]

    def walk(specs, objs, path):
        for i, (x, o) in enumerate(zip(specs, objs)):
            if "group" in x:
                ngroups[0] += 1
                res.states += 1
                here = path + [i]
                eval_score_arrays(res, sc, items, "partgroup", [(True, cfg_all), (False, [rot])],
                                  ctx + " of=group%s" % (here,), group=(o, x["children"]))
                walk(x["children"], o.children, here)

    walk(items, list(sc.part_structure), [])
    res.outcome = "nest parts=%d groups=%d depth=%d top=%d rows=%d lcm=%d" % (
        len(case["q"]), ngroups[0], G.nest_depth(shape), len(shape), nrows, L)
    res.nontrivial = nrows > 0
    return res


def eval_restlist(case):
    """rest arrays of lists / groups of parts with equal divisions: union of the part rest arrays"""
    from mc import ir
    import partitura.utils.music as M

    res = CaseResult(states=1, transitions=0, traces=1)
    items = G.score_items(case)
    ctx = "rest-list q=%s contents=%s meter=%s struct=%s" % (case["q"], case["c"], case["meter"], case["struct"])
    ok, sc = call(res, "score-built", lambda: ir.build_score({"parts": items}), ctx)
    if not ok:
        return res
    nrows = 0
    for unique in (True, False):
        for fl in ([], ["include_key_signature", "include_time_signature", "include_staff", "include_grace_notes"]):
            kw = kwargs_of(fl)
            c2 = "%s unique=%s flags=%s" % (ctx, unique, [f.replace("include_", "") for f in fl])
            if case["struct"] == "partgroup":
                pg = sc.part_structure[0]
                rows, L = R.list_rows(items[0]["children"], unique, kind="rest")
                where, fn = "PartGroup.rest_array", (lambda: pg.rest_array(unique_id_per_part=unique, **kw))
            else:
                lst = list(sc.part_structure)
                rows, L = R.list_rows(items, unique, kind="rest")
                where, fn = "ensure_rest_array(list)", (lambda: M.ensure_rest_array(lst, unique_id_per_part=unique, **kw))
            # a one-element list: prefixed or not (the note version does not prefix, the rest version does)
            extra = [lambda r: "P%02d_%s" % (r["part"], r["id"])] if unique else []
            nrows = len(rows)
            res.transitions += 1
            if nrows == 0:
                try:
                    arr = fn()
                except Exception:
                    continue
                if len(arr) != 0:
                    res.fail("row-set", expected="0 rows", observed="%d rows" % len(arr), where=where, detail=c2)
                continue
            ok, arr = call(res, "rest-array-built", fn, c2)
            if ok:
                check_list_array(res, arr, rows, fl, "rest", where, c2, extra)
    res.outcome = "restlist parts=%d rows=%d" % (len(case["q"]), nrows)
    res.nontrivial = nrows > 0
    return res


# ---------------------------------------------------------------------------------------------
# edit-then-query-again: the arrays state what the score says *now*


def query_part(res, part, spec, step, rot, ctx):
    """the note and rest arrays of `part` (all options, plus one rotating single option through one of the
    function routes), compared with the table of `spec`; the same requests are made at every step"""
    ref = R.PartRef(spec)
    has_measures = bool(ref.measures)
    single = len(ref.divs) == 1

    def usable(f):
        return not (f == "include_metrical_position" and not has_measures) and not (
            f == "include_divs_per_quarter" and not single)

    c2 = "%s step=%d" % (ctx, step)
    eval_part_arrays(res, part, ref, None, [[f for f in G.NOTE_FLAGS if usable(f)]], c2, via="method")
    eval_rest_arrays(res, part, ref, None, [[f for f in G.REST_FLAGS if usable(f)]], c2, via="method")
    one = G.NOTE_FLAGS[rot % len(G.NOTE_FLAGS)]
    if one == "include_divs_per_quarter" or not usable(one):
        one = "include_key_signature"
    if rot % 3 == 2:
        eval_rest_arrays(res, part, ref, None, [[one]], c2, via="ensure")
    else:
        eval_part_arrays(res, part, ref, None, [[one]], c2, via="function" if rot % 3 else "ensure")
    return ref


def eval_edit(case):
    from mc import ir

    res = CaseResult(states=1, transitions=0, traces=1)
    frame = G.get_frame(case["frame"])
    events = E.content_events(frame, case["content"])
    allev = G.rest_events(frame) + G.note_events(frame)
    spec = G.build_spec(frame, events, E.content_deco(frame, case["content"], events) or G.default_deco(events, allev))
    edits = case["edits"]
    ctx = "frame=%s content=%s edits=%s" % (case["frame"], case["content"], edits)
    ok, part = call(res, "part-built", lambda: ir.build_part(spec), ctx)
    if not ok:
        res.outcome = "build-failed"
        return res
    rot = sum(len(str(e)) for e in edits) + len(frame["grid"])
    ref = query_part(res, part, spec, 0, rot, ctx)
    for k, e in enumerate(edits):
        ok, n = call(res, "part-built", lambda: E.apply_edit_real(part, e), ctx + " (edit %d)" % k)
        if not ok:
            res.outcome = "edit-failed"
            return res
        res.transitions += n
        spec = E.apply_edit_spec(spec, e)
        res.states += 1
        ref = query_part(res, part, spec, k + 1, rot, ctx)
    res.outcome = "edits=%s %s" % ("".join(e[0] for e in edits), describe(spec, ref))
    res.nontrivial = bool(ref.notes or ref.rests)
    return res


def eval_score_edit(case):
    from mc import ir

    res = CaseResult(states=1, transitions=0, traces=1)
    items = G.score_items(case)
    st = case["struct"]
    edits = case["edits"]
    ctx = "q=%s contents=%s meter=%s struct=%s part=%d edits=%s" % (case["q"], case["c"], case["meter"], st, case["p"], edits)
    ok, sc = call(res, "score-built", lambda: ir.build_score({"parts": items}), ctx)
    if not ok:
        res.outcome = "build-failed"
        return res
    cfg_all = list(G.NOTE_FLAGS)
    configs = [(True, cfg_all), (False, ["include_key_signature", "include_time_signature", "include_metrical_position"])]
    nrows, L = eval_score_arrays(res, sc, items, st, configs, ctx + " step=0")
    target = R.flat_parts(items)[case["p"]]
    part = sc.parts[case["p"]]
    for k, e in enumerate(edits):
        ok, n = call(res, "score-built", lambda: E.apply_edit_real(part, e), ctx + " (edit %d)" % k)
        if not ok:
            res.outcome = "edit-failed"
            return res
        res.transitions += n
        new = E.apply_edit_spec(target, e)
        target["divs"], target["objs"] = new["divs"], new["objs"]
        res.states += 1
        nrows, L = eval_score_arrays(res, sc, items, st, configs, ctx + " step=%d" % (k + 1))
    res.outcome = "score-edit %s rows=%d lcm=%d" % ("".join(e[0] for e in edits), nrows, L)
    res.nontrivial = nrows > 0
    return res


# ---------------------------------------------------------------------------------------------
# parts made by the library out of other parts


def eval_merged(case):
    """the note array of the Part returned by merge_parts: its notes are the note objects of the input parts (whose
    note arrays merge_parts takes before it moves them), re-added at times rescaled to the lcm of the divisions"""
    from mc import ir
    import partitura.score as S

    res = CaseResult(states=1, transitions=0, traces=1)
    items = G.score_items(dict(case, struct="list"))
    ctx = "merged q=%s contents=%s meter=%s reassign=%s pre=%s" % (case["q"], case["c"], case["meter"], case["reassign"], case["pre"])
    ok, sc = call(res, "score-built", lambda: ir.build_score({"parts": items}), ctx)
    if not ok:
        res.outcome = "build-failed"
        return res
    parts = list(sc.parts)
    L = 1
    for q in case["q"]:
        L = R.lcm(L, q)
    rows = []
    for p, q in zip(items, case["q"]):
        m = L // q
        for r in R.PartRef(p).note_rows():
            r = dict(r, voice=None, staff=None, divs_pq=L, single_divs=True)  # voices / staves are renumbered
            r["onset_div"] *= m
            r["duration_div"] *= m
            if r["metrical"] is not None:
                r["metrical"] = [(d, rel * m, tot * m) for d, rel, tot in r["metrical"]]
            rows.append(r)
    if case["pre"]:
        # the parts were in use before they are merged
        for p in parts:
            res.transitions += 1
            call(res, "array-built", lambda: p.note_array(include_grace_notes=True), ctx + " (before merging)")
    res.transitions += 1
    ok, merged = call(res, "part-built", lambda: S.merge_parts(parts, reassign=case["reassign"]), ctx)
    if not ok:
        res.outcome = "merge-failed"
        return res
    for fl in (list(G.NOTE_FLAGS), []):
        c2 = "%s flags=%s" % (ctx, [f.replace("include_", "") for f in fl])
        res.transitions += 1
        if not rows:
            try:
                arr = merged.note_array(**kwargs_of(fl))
            except Exception:
                continue
            if len(arr) != 0:
                res.fail("row-set", expected="0 rows", observed="%d rows" % len(arr), where="Part.note_array", detail=c2)
            continue
        ok, arr = call(res, "array-built", lambda: merged.note_array(**kwargs_of(fl)), c2)
        if ok:
            check_array(res, arr, rows, fl, "part", "note", "Part.note_array", c2)
    res.outcome = "merged parts=%d rows=%d lcm=%d ties=%d" % (len(parts), len(rows), L, sum(1 for c in case["c"] if c == 2))
    res.nontrivial = bool(rows)
    return res


# ---------------------------------------------------------------------------------------------
# inverse direction


def eval_inverse(case):
    import numpy as np
    from partitura.musicanalysis.note_array_to_score import note_array_to_score

    res = CaseResult(states=1, transitions=0, traces=1)
    kind = case["kind"]
    divs = case["divs"]
    shift = frac(case["shift"])
    rows = [(frac(o) + shift, frac(d), p) for o, d, p in case["rows"]]
    mn = min(r[0] for r in rows)
    base = mn if mn < 0 else F(0)
    ft = case.get("ftype", "f4")
    cols = []
    if kind in ("beat", "both"):
        cols += [("onset_beat", ft), ("duration_beat", ft)]
    if kind in ("div", "both"):
        cols += [("onset_div", "i4"), ("duration_div", "i4")]
    cols += [("pitch", "i4")]
    if case["voice"]:
        cols += [("voice", "i4")]
    data = []
    for k, (o, d, p) in enumerate(rows):
        t = ()
        if kind in ("beat", "both"):
            t += (float(o), float(d))
        if kind in ("div", "both"):
            od, dd = (o - base) * divs, d * divs
            assert od.denominator == 1 and dd.denominator == 1
            t += (int(od), int(dd))
        t += (p,)
        if case["voice"]:
            t += (1 + k % 2,)
        data.append(t)
    arr = np.array(data, dtype=cols)
    ctx = "kind=%s divs=%s rows=%s voice=%s" % (kind, divs, case["rows"], case["voice"])
    kw = {}
    if kind == "div":
        kw["divs"] = divs
    res.transitions += 2
    ok, sc = call(res, "score-built-from-array", lambda: note_array_to_score(arr.copy(), **kw), ctx)
    if not ok:
        res.outcome = "inverse-exception"
        return res
    ok, na = call(res, "array-of-rebuilt-score", lambda: sc.note_array(), ctx)
    if not ok:
        res.outcome = "inverse-exception"
        return res
    if len(na) != len(rows):
        res.fail("inverse-row-set", expected=len(rows), observed=len(na), where="note_array_to_score", detail=ctx)
        res.outcome = "inverse-rows"
        return res

    def srt(lst):
        return sorted(lst, key=lambda x: (round(x[0], 4), x[2], round(x[1], 4)))

    if kind in ("beat", "both"):
        exp = srt([(float(o - base), float(d), p) for o, d, p in rows])
        ob = [(float(r["onset_beat"]), float(r["duration_beat"]), int(r["pitch"])) for r in na]
        if base != 0:
            m0 = min(x[0] for x in ob)
            ob = [(a - m0, b, c) for a, b, c in ob]
        ob = srt(ob)
        if any(abs(a[0] - b[0]) > 1e-5 or abs(a[1] - b[1]) > 1e-5 or a[2] != b[2] for a, b in zip(exp, ob)):
            res.fail("inverse-beat", expected=exp, observed=ob, where="note_array_to_score", detail=ctx)
    if kind in ("div", "both"):
        exp = sorted((int((o - base) * divs), int(d * divs), p) for o, d, p in rows)
        ob = sorted((int(r["onset_div"]), int(r["duration_div"]), int(r["pitch"])) for r in na)
        if exp != ob:
            res.fail("inverse-div", expected=exp, observed=ob, where="note_array_to_score", detail=ctx)
    res.outcome = "inverse kind=%s rows=%d graces=%d" % (kind, len(rows), sum(1 for r in rows if r[1] == 0))
    return res


def eval_inverse_measures(case):
    """note array + time signature (columns, time_sigs argument or estimate_time) -> score with measures -> note
    array: the same onsets, durations and pitches.  Division 0 of the array is the start of the pickup measure of
    case['pickup'] beats (0: of the first measure); the beat onsets of the rows are stated from the end of it."""
    import numpy as np
    from partitura.musicanalysis.note_array_to_score import note_array_to_score

    res = CaseResult(states=1, transitions=0, traces=1)
    kind, divs, src, vm = case["kind"], case["divs"], case["src"], case["voice"]
    nb, bt = case["ts"]
    q = F(4, bt)  # quarters per beat
    P = frac(case["pickup"])
    rows = [(frac(o), frac(d), p) for o, d, p in case["rows"]]
    ft = case.get("ftype", "f4")
    cols = []
    if kind in ("beat", "both"):
        cols += [("onset_beat", ft), ("duration_beat", ft)]
    if kind in ("div", "both"):
        cols += [("onset_div", "i4"), ("duration_div", "i4")]
    cols += [("pitch", "i4")]
    if vm:
        cols += [("voice", "i4")]
    if src == "cols":
        cols += [("ts_beats", "i4"), ("ts_beat_type", "i4")]
    data = []
    exp_div = []
    for k, (o, d, p) in enumerate(rows):
        od, dd = (o + P) * q * divs, d * q * divs
        t = ()
        if kind in ("beat", "both"):
            t += (float(o), float(d))
        if kind in ("div", "both"):
            assert od.denominator == 1 and dd.denominator == 1 and od >= 0
            t += (int(od), int(dd))
            exp_div.append((int(od), int(dd), p))
        t += (p,)
        if vm:
            t += (G.invm_voice(vm, k),)
        if src == "cols":
            t += (nb, bt)
        data.append(t)
    arr = np.array(data, dtype=cols)
    ctx = "kind=%s ts=%d/%d by %s pickup=%s divs=%s rows=%s voice=%s" % (kind, nb, bt, src, case["pickup"], divs, case["rows"], vm)
    kw = {}
    if kind == "div":
        kw["divs"] = divs
    if src == "arg":
        kw["time_sigs"] = [(0, nb, bt)]
    elif src == "est":
        kw["estimate_time"] = True
    res.transitions += 2
    ok, sc = call(res, "score-built-from-array", lambda: note_array_to_score(arr.copy(), **kw), ctx)
    if not ok:
        res.outcome = "inverse-exception"
        return res
    ok, na = call(res, "array-of-rebuilt-score", lambda: sc.note_array(), ctx)
    if not ok:
        res.outcome = "inverse-exception"
        return res
    if len(na) != len(rows):
        res.fail("inverse-row-set", expected=len(rows), observed=len(na), where="note_array_to_score", detail=ctx)
        res.outcome = "inverse-rows"
        return res

    def srt(lst):
        return sorted(lst, key=lambda x: (round(x[0], 4), x[2], round(x[1], 4)))

    # an array without a pickup that ends before its first barline: the rebuilt part has a single, incomplete
    # measure, which partitura reads as a pickup measure (see ASSUMPTIONS): compared up to a common shift
    short = P == 0 and max(o + d for o, d, _p in rows) < nb
    if kind in ("beat", "both"):
        exp = srt([(float(o), float(d), p) for o, d, p in rows])
        ob = [(float(r["onset_beat"]), float(r["duration_beat"]), int(r["pitch"])) for r in na]
        if short:
            m0 = min(x[0] for x in ob) - exp[0][0]
            ob = [(a - m0, b, c) for a, b, c in ob]
        ob = srt(ob)
        if any(abs(a[0] - b[0]) > 1e-5 or abs(a[1] - b[1]) > 1e-5 or a[2] != b[2] for a, b in zip(exp, ob)):
            res.fail("inverse-beat", expected=exp, observed=ob, where="note_array_to_score", detail=ctx)
    if kind in ("div", "both"):
        exp = sorted(exp_div)
        ob = sorted((int(r["onset_div"]), int(r["duration_div"]), int(r["pitch"])) for r in na)
        if exp != ob:
            res.fail("inverse-div", expected=exp, observed=ob, where="note_array_to_score", detail=ctx)
    first = min(o for o, _d, _p in rows)
    bars = [k * nb for k in range(0 if P else 1, 8)]
    res.outcome = "inverse-m kind=%s by=%s rows=%d graces=%d pickup=%d lead-rest=%d short=%d over-barline=%d" % (
        kind, src, len(rows), sum(1 for r in rows if r[1] == 0), 1 if P else 0, 1 if first + P > 0 else 0, 1 if short else 0,
        sum(1 for o, d, _p in rows if any(o < b < o + d for b in bars)))
    return res


def invts_table(case):
    """rows (onset, duration in quarters from division 0, (beats, beat_type) at the onset, pitch), the starts of the
    stretches in quarters and the length of the pickup in quarters, from the case description"""
    seq = case["seq"]
    rows = []
    t = F(0)
    if case["pickup"]:
        nb, bt = seq[0][0], seq[0][1]
        rows.append((t, F(4, bt), (nb, bt)))
        t += F(4, bt)
    P = t
    starts = []
    for nb, bt, m, pat in seq:
        u = F(4, bt)
        starts.append((t, nb, bt))
        if pat == "beats":
            for b in range(nb * m):
                rows.append((t + b * u, u, (nb, bt)))
        elif pat == "first":
            rows.append((t, u, (nb, bt)))
        elif pat == "bar":
            rows.append((t, u * nb * m, (nb, bt)))
        elif pat == "cross":
            rows.append((t, u, (nb, bt)))
            rows.append((t + (nb * m - 1) * u, 2 * u, (nb, bt)))
        else:
            raise ValueError(pat)
        t += nb * m * u
    rows = [(o, d, ts, 60 + (5 * k) % 12) for k, (o, d, ts) in enumerate(rows)]
    return rows, starts, P


def invts_beat(tq, starts, P):
    """beats from the end of the pickup measure to the time tq (quarters from division 0): exact sum over the stretches"""
    if tq < P:
        return (tq - P) / F(4, starts[0][2])
    b = F(0)
    for i, (s, _nb, bt) in enumerate(starts):
        e = starts[i + 1][0] if i + 1 < len(starts) else None
        if e is None or tq < e:
            return b + (tq - s) / F(4, bt)
        b += (e - s) / F(4, bt)
    raise AssertionError


def eval_inverse_ts(case):
    """note array whose ts_beats / ts_beat_type columns change along the array (the table of a part with 2-3 time
    signatures, a signature may come back) -> note_array_to_score -> note array: the same onsets, durations, pitches"""
    import numpy as np
    from partitura.musicanalysis.note_array_to_score import note_array_to_score

    res = CaseResult(states=1, transitions=0, traces=1)
    kind, divs, vm = case["kind"], case["divs"], case["voice"]
    rows, starts, P = invts_table(case)
    cols = []
    if kind in ("beat", "both"):
        cols += [("onset_beat", "f4"), ("duration_beat", "f4")]
    if kind in ("div", "both"):
        cols += [("onset_div", "i4"), ("duration_div", "i4")]
    cols += [("pitch", "i4")]
    if vm:
        cols += [("voice", "i4")]
    cols += [("ts_beats", "i4"), ("ts_beat_type", "i4")]
    data, exp_beat, exp_div = [], [], []
    for k, (o, d, ts, p) in enumerate(rows):
        ob = invts_beat(o, starts, P)
        db = invts_beat(o + d, starts, P) - ob
        od, dd = o * divs, d * divs
        assert od.denominator == 1 and dd.denominator == 1
        t = ()
        if kind in ("beat", "both"):
            t += (float(ob), float(db))
            exp_beat.append((float(ob), float(db), p))
        if kind in ("div", "both"):
            t += (int(od), int(dd))
            exp_div.append((int(od), int(dd), p))
        t += (p,)
        if vm:
            t += (G.invm_voice(vm, k),)
        t += ts
        data.append(t)
    arr = np.array(data, dtype=cols)
    ctx = "kind=%s time signatures (beats, beat type, measures, content)=%s pickup=%d divs=%d voice=%s rows=%s" % (
        kind, case["seq"], case["pickup"], divs, vm, [tuple(x) for x in arr.tolist()])
    kw = {"divs": divs} if kind == "div" else {}
    res.transitions += 2
    ok, sc = call(res, "score-built-from-array", lambda: note_array_to_score(arr.copy(), **kw), ctx)
    if not ok:
        res.outcome = "inverse-exception"
        return res
    ok, na = call(res, "array-of-rebuilt-score", lambda: sc.note_array(), ctx)
    if not ok:
        res.outcome = "inverse-exception"
        return res
    if len(na) != len(rows):
        res.fail("inverse-row-set", expected=len(rows), observed=len(na), where="note_array_to_score", detail=ctx)
        res.outcome = "inverse-rows"
        return res

    def srt(lst):
        return sorted(lst, key=lambda x: (round(x[0], 4), x[2], round(x[1], 4)))

    if kind in ("beat", "both"):
        exp = srt(exp_beat)
        ob = srt([(float(r["onset_beat"]), float(r["duration_beat"]), int(r["pitch"])) for r in na])
        if any(abs(a[0] - b[0]) > 1e-5 or abs(a[1] - b[1]) > 1e-5 or a[2] != b[2] for a, b in zip(exp, ob)):
            res.fail("inverse-beat", expected=exp, observed=ob, where="note_array_to_score", detail=ctx)
    if kind in ("div", "both"):
        exp = sorted(exp_div)
        ob = sorted((int(r["onset_div"]), int(r["duration_div"]), int(r["pitch"])) for r in na)
        if exp != ob:
            res.fail("inverse-div", expected=exp, observed=ob, where="note_array_to_score", detail=ctx)
    sigs = [(nb, bt) for nb, bt, _m, _p in case["seq"]]
    res.outcome = "inverse-ts kind=%s sigs=%d recurs=%d units=%d pickup=%d rows=%d over-change=%d" % (
        kind, len(sigs), 1 if len(set(sigs)) < len(sigs) else 0, len(set(bt for _nb, bt in sigs)), case["pickup"], len(rows),
        sum(1 for o, d, _ts, _p in rows if any(o < s < o + d for s, _nb, _bt in starts)))
    return res


def eval_case(case):
    sp = case["sp"]
    if sp.startswith("inverse-ts"):
        return eval_inverse_ts(case)
    if sp == "score-edit":
        return eval_score_edit(case)
    if sp.startswith("part-edit"):
        return eval_edit(case)
    if sp == "score-nest":
        return eval_nest(case)
    if sp == "part-merged":
        return eval_merged(case)
    if sp == "part-magnitude":
        return eval_magnitude(case)
    if sp.startswith("score"):
        return eval_score(case)
    if sp == "rest-list":
        return eval_restlist(case)
    if sp.startswith("inverse-m"):
        return eval_inverse_measures(case)
    if sp.startswith("inverse"):
        return eval_inverse(case)
    return eval_part(case)


# ---------------------------------------------------------------------------------------------
# spaces

B_PAIRS = 12
B_REST = 6
B_SCORE3 = 8
B_INV = 6

DECOR_FRAME = ["34pk", ["c", 2], "chg"]
FLAG_FRAMES = [["34pk", ["c", 2], "chg"], ["24-68", ["c", 2], "one"], ["68pk", ["c", 4], "chg"],
               ["34-24", ["b", 2, 3], "chg"], ["22", ["c", 1], "none"], ["nots", ["c", 2], "late"],
               ["44one", ["c", 3], "one"], ["nomeas", ["m", 4, 2], "late"]]


def flag_contents(frame):
    n = len(frame["grid"])
    a = [["t", 0, min(3, n - 1)], ["g", 1, 1], ["n", 1, 2]]
    b = [["n", n - 2, n - 1], ["n", 0, 1], ["g", 0, 0], ["n", 0, 2]]
    return [a, b]


def gen_part_single():
    for fk in G.frame_keys():
        fr = G.get_frame(fk)
        for e in G.note_events(fr):
            yield dict(sp="part-single", frame=fk, ev=[e])


def gen_part_pairs(block=None):
    for fk in G.frame_keys():
        fr = G.get_frame(fk)
        evs = G.note_events(fr)
        for a in evs:
            for b in evs:
                c = dict(sp="part-pairs", frame=fk, ev=[a, b])
                if block is None or block_of(c, B_PAIRS) == block:
                    yield c


def gen_part_triples(block=None, nblocks=1):
    # three events on three frames: same-onset triples (chords with graces and chains)
    for fk in (["34pk", ["c", 2], "chg"], ["24-68", ["b", 2, 3], "one"], ["68pk", ["c", 2], "late"]):
        fr = G.get_frame(fk)
        evs = G.note_events(fr)
        for a, b, c3 in product(evs, repeat=3):
            if not (a[1] == b[1] or b[1] == c3[1] or a[1] == c3[1]):
                continue
            c = dict(sp="part-triples", frame=fk, ev=[a, b, c3])
            if block is None or block_of(c, nblocks) == block:
                yield c


def gen_part_decor():
    fk = DECOR_FRAME
    skels = [
        [["n", 2, 3], ["n", 2, 3], ["n", 2, 3]],  # chord
        [["g", 2, 2], ["n", 2, 4], ["n", 3, 4]],  # grace + main + later
        [["t", 0, 2], ["n", 1, 3], ["g", 1, 1]],  # chain over the pickup barline + overlapping
    ]
    spell = [["C", 4, None], ["C", 4, 0], ["C", 4, 1], ["D", 4, -1], ["B", 3, 2], ["D", 4, -2]]
    voices = [0, 1, 2, None, 5]
    staves = [0, 1, 2, None]
    for sk in skels:
        for vs in product(voices, repeat=3):
            yield dict(sp="part-decor", frame=fk, ev=sk, deco=[dict(p=k, v=v, st=1, gt="grace") for k, v in enumerate(vs)])
        for ss in product(staves, repeat=3):
            yield dict(sp="part-decor", frame=fk, ev=sk, deco=[dict(p=2 - k, v=1, st=s, gt="acciaccatura") for k, s in enumerate(ss)])
        for ps in product(spell, repeat=3):
            yield dict(sp="part-decor", frame=fk, ev=sk, deco=[dict(p=list(p), v=None if k == 1 else 1, st=None, gt="appoggiatura") for k, p in enumerate(ps)])


def gen_rest_decor():
    """voice and staff numbers of rests (and of a note beside them), zero included"""
    fk = DECOR_FRAME
    skels = [
        [["r", 2, 3], ["r", 2, 4], ["n", 2, 3]],  # two rests and a note at one time
        [["r", 0, 1], ["r", 3, 4], ["r", 1, 3]],  # rests in a row, not in time order
    ]
    vals = [0, 1, 2, None]
    for sk in skels:
        for vs in product(vals, repeat=3):
            yield dict(sp="rest-decor", frame=fk, ev=sk, deco=[dict(p=k, v=v, st=1) for k, v in enumerate(vs)])
        for ss in product(vals, repeat=3):
            yield dict(sp="rest-decor", frame=fk, ev=sk, deco=[dict(p=k, v=2 if k else None, st=x) for k, x in enumerate(ss)])


B_MAG = 16


def gen_part_magnitude(block=None):
    """single events complete; ordered pairs (note-like x note-like, rest x rest) in the hash block `block` (None: all)"""
    for fk in G.MAG_FRAMES:
        fr = G.get_frame(fk)
        notes, rests = G.mag_events(fr)
        levels = G.mag_levels(fr)
        for mag in levels:
            for e in notes + rests:
                yield dict(sp="part-magnitude", frame=fk, ev=[e], late=[1 if mag[1] else 0], mag=mag)
        for group in (notes, rests):
            for a in group:
                for b in group:
                    for mag in levels:
                        for late in ([[0, 1], [1, 1]] if mag[1] else [[0, 0]]):
                            c = dict(sp="part-magnitude", frame=fk, ev=[a, b], late=late, mag=mag)
                            if block is None or block_of(c, B_MAG) == block:
                                yield c


def gen_part_musical():
    for fk in G.frame_keys():
        if fk[0] not in ("68pk", "24-68", "34") or fk[2] != "one":
            continue
        fr = G.get_frame(fk)
        evs = G.note_events(fr)
        for mus in ({}, {"6/8": 3}, {"3/4": 1, "2/4": 1}):
            if mus and not any(k.split("/")[0] in ("%d" % o["beats"]) and int(k.split("/")[1]) == o["beat_type"] for k in mus for o in fr["objs"] if o["k"] == "ts"):
                continue
            for e in evs:
                yield dict(sp="part-musical", frame=fk, ev=[e], mus=mus)
            yield dict(sp="part-musical", frame=fk, ev=[evs[0], evs[-1], evs[len(evs) // 2]], mus=mus)


def gen_part_flags():
    for fk in FLAG_FRAMES:
        fr = G.get_frame(fk)
        for ev in flag_contents(fr):
            for fl in G.all_subsets(G.NOTE_FLAGS):
                yield dict(sp="part-flags", frame=fk, ev=ev, flags=fl)


def rest_frames():
    return [fk for fk in G.frame_keys() if fk[2] in ("one", "chg")]


def gen_rest_single():
    for fk in rest_frames():
        fr = G.get_frame(fk)
        for e in G.rest_events(fr):
            yield dict(sp="rest-single", frame=fk, ev=[e])


def gen_rest_pairs(block=None):
    for fk in rest_frames():
        fr = G.get_frame(fk)
        rv = G.rest_events(fr)
        nv = [e for e in G.note_events(fr) if e[0] == "n" and e[2] - e[1] == 1]
        for a in rv:
            for b in rv + nv:
                for order in (0, 1):
                    if order == 1 and b[0] == "r":
                        continue  # both orders of two rests are already enumerated
                    c = dict(sp="rest-pairs", frame=fk, ev=[a, b] if order == 0 else [b, a])
                    if block is None or block_of(c, B_REST) == block:
                        yield c


def gen_rest_flags():
    for fk in FLAG_FRAMES[:5]:
        fr = G.get_frame(fk)
        n = len(fr["grid"])
        ev = [["r", 1, 2], ["r", 0, 1], ["n", 0, 1], ["r", n - 2, n - 1]]
        for fl in G.all_subsets(G.REST_FLAGS):
            yield dict(sp="rest-flags", frame=fk, ev=ev, flags=fl)


EDIT_CORE_DIVPLANS = [["c", 2], ["b", 2, 3], ["m", 4, 2]]
EDIT_CONTENTS = ["dense", "sparse"]
B_EDIT1 = 12
B_EDIT2 = 96
B_SCORE_EDIT = 8


def _edit_base(fk, content):
    fr = G.get_frame(fk)
    ev = E.content_events(fr, content)
    return fr, G.build_spec(fr, ev, E.content_deco(fr, content, ev) or G.default_deco(ev, G.rest_events(fr) + G.note_events(fr)))


TIES_KEYPLAN = "chg"
B_TIES2 = 16


def gen_part_edit_ties1(tier):
    """one edit of the tie alphabet on the content `ties`; quick: every frame with the key plan TIES_KEYPLAN
    (key signatures play no part in these edits), thorough: every frame"""
    for fk in G.frame_keys():
        if tier == "quick" and fk[2] != TIES_KEYPLAN:
            continue
        fr, spec = _edit_base(fk, "ties")
        for e in E.enumerate_tie_edits(spec, fr["grid"], 0):
            yield dict(sp="part-edit-ties1", frame=fk, content="ties", edits=[e])


def gen_part_edit_ties2(block=None):
    """two edits of the tie alphabet in sequence on the frames of the core division plans with the key plan
    TIES_KEYPLAN; the block is taken over (frame, first edit): every second edit follows a selected first edit"""
    for fk in G.frame_keys():
        if fk[1] not in EDIT_CORE_DIVPLANS or fk[2] != TIES_KEYPLAN:
            continue
        fr, spec = _edit_base(fk, "ties")
        for e1 in E.enumerate_tie_edits(spec, fr["grid"], 0):
            if block is not None and block_of(dict(frame=fk, first=e1), B_TIES2) != block:
                continue
            spec1 = E.apply_edit_spec(spec, e1)
            for e2 in E.enumerate_tie_edits(spec1, E.grid_after(fr["grid"], e1), 1):
                yield dict(sp="part-edit-ties2", frame=fk, content="ties", edits=[e1, e2])


def gen_part_edit1(block=None):
    """one edit; block=None: every frame; else the frames of the core division plans completely plus the
    hash block `block` of the other frames"""
    for fk in G.frame_keys():
        core = fk[1] in EDIT_CORE_DIVPLANS
        for content in EDIT_CONTENTS:
            fr, spec = _edit_base(fk, content)
            for e in E.enumerate_edits(spec, fr["grid"], 0):
                c = dict(sp="part-edit1", frame=fk, content=content, edits=[e])
                if block is None or core or block_of(c, B_EDIT1) == block:
                    yield c


def gen_part_edit2(block=None):
    """two edits on the frames of the core division plans; the block is taken over (frame, content, first
    edit): every second edit follows a selected first edit"""
    for fk in G.frame_keys():
        if fk[1] not in EDIT_CORE_DIVPLANS:
            continue
        for content in EDIT_CONTENTS:
            fr, spec = _edit_base(fk, content)
            for e1 in E.enumerate_edits(spec, fr["grid"], 0):
                if block is not None and block_of(dict(frame=fk, content=content, first=e1), B_EDIT2) != block:
                    continue
                spec1 = E.apply_edit_spec(spec, e1)
                for e2 in E.enumerate_edits(spec1, fr["grid"], 1):
                    yield dict(sp="part-edit2", frame=fk, content=content, edits=[e1, e2])


def gen_score_edit(block=None):
    for q in ([2, 3], [4, 6], [2, 2]):
        for c in product((2, 3, 4), repeat=2):
            for meter in ("34", "34pk"):
                pk = 1 if meter == "34pk" else 0
                for st in ("score", "list", "partgroup"):
                    base = dict(q=q, c=list(c), meter=meter, struct=st)
                    flat = R.flat_parts(G.score_items(base))
                    for p in (0, 1):
                        grid = [b * q[p] for b in [0] + ([1] if pk else []) + [pk + 3, pk + 6]]
                        for e in E.enumerate_edits(flat[p], grid, 0):
                            cs = dict(base, sp="score-edit", p=p, edits=[e])
                            if block is None or block_of(cs, B_SCORE_EDIT) == block:
                                yield cs


def merge_contents():
    """contents in which every note and rest states its voice and staff (merge_parts renumbers them)"""
    return [i for i, c in enumerate(G.CONTENTS) if all(e[4] is not None and e[5] is not None for e in c["ev"])]


def gen_part_merged():
    """thorough tier only: one merge_parts call costs as much as ~100 note arrays (it iterates over every class of the
    interpreter) and the cases of a space are handed out in chunks of CHUNK; what merge_parts does to the notes
    (query, remove, re-add at rescaled times) is the edit x* of the tie alphabet, which the quick tier enumerates"""
    for q in G.DIVS2:
        for c in product(merge_contents(), repeat=2):
            if any(qq % G.CONTENTS[cc]["need"] for qq, cc in zip(q, c)):
                continue
            for meter in ("34", "34pk"):
                for reassign in ("voice", "staff"):
                    yield dict(sp="part-merged", q=list(q), c=list(c), meter=meter, reassign=reassign,
                               pre=(q[0] + c[0] + c[1] + len(meter)) % 2)
    for q in NEST_DIVS3:
        for c in product([0, 1, 2], repeat=3):
            yield dict(sp="part-merged", q=list(q), c=list(c), meter="34pk", reassign="voice", pre=sum(c) % 2)


def gen_score1():
    # one part: the most common use (ids are never prefixed)
    for q in (1, 2, 3, 4, 6):
        for c in range(len(G.CONTENTS)):
            if q % G.CONTENTS[c]["need"]:
                continue
            for meter in ("34", "34pk"):
                for st in G.STRUCTS2:
                    yield dict(sp="score1", q=[q], c=[c], meter=meter, struct=st)


def gen_score2():
    for c in G.score_cases(2):
        yield dict(c, sp="score2")


def gen_score3(block=None):
    for c in G.score_cases(3):
        c = dict(c, sp="score3")
        if block is None or block_of(c, B_SCORE3) == block:
            yield c


def gen_score3_tacet():
    # fixed core: every triple of contents with at least one part that has no note (its array is empty)
    for c in G.score_cases(3):
        if c["meter"] == "34" and c["struct"] == "score" and any(not any(e[0] != "rest" for e in G.CONTENTS[x]["ev"]) for x in c["c"]):
            yield dict(c, sp="score3-tacet")


NEST_CONTENTS = [0, 2, 3]  # no note; note + tie chain in two voices; chord with a missing voice + grace note
NEST_DIVS2 = [(2, 3), (4, 6), (2, 2)]
NEST_DIVS3 = [(1, 2, 3), (6, 4, 3), (2, 2, 2)]
B_NEST3 = 12


def gen_score_nest(tier, block=None):
    """1-2 parts: complete in both tiers (thorough: one more level of groups, every contents); 3 parts: hash block"""
    deep = 3 if tier == "thorough" else 2
    cont2 = list(range(len(G.CONTENTS))) if tier == "thorough" else NEST_CONTENTS
    for shape in G.nest_shapes(1, deep):
        for q in (1, 2, 3):
            for c in range(len(G.CONTENTS)):
                if q % G.CONTENTS[c]["need"]:
                    continue
                for meter in ("34", "34pk"):
                    yield dict(sp="score-nest", q=[q], c=[c], meter=meter, shape=shape)
    for shape in G.nest_shapes(2, deep):
        for q in NEST_DIVS2:
            for c in product(cont2, repeat=2):
                if any(qq % G.CONTENTS[cc]["need"] for qq, cc in zip(q, c)):
                    continue
                for meter in ("34", "34pk"):
                    yield dict(sp="score-nest", q=list(q), c=list(c), meter=meter, shape=shape)
    for shape in G.nest_shapes(3, 2):
        for q in NEST_DIVS3:
            for c in product(NEST_CONTENTS, repeat=3):
                cs = dict(sp="score-nest", q=list(q), c=list(c), meter="34pk", shape=shape)
                if block is None or block_of(cs, B_NEST3) == block:
                    yield cs


def gen_score_flags():
    reps = [dict(q=[2, 3], c=[2, 3], meter="34pk", struct="score"), dict(q=[4, 6], c=[3, 6], meter="34", struct="list"),
            dict(q=[6, 4, 3], c=[1, 2, 3], meter="34", struct="score-group-first")]
    for r in reps:
        for u in (True, False):
            for fl in G.all_subsets(G.NOTE_FLAGS):
                yield dict(r, sp="score-flags", unique=u, flags=fl)


def gen_restlist():
    for q in [(2, 2), (3, 3), (1, 1)]:
        for c in product(range(len(G.CONTENTS)), repeat=2):
            if any(qq % G.CONTENTS[cc]["need"] for qq, cc in zip(q, c)):
                continue
            for meter in ("34", "34pk"):
                for st in ("list", "partgroup"):
                    yield dict(sp="rest-list", q=list(q), c=list(c), meter=meter, struct=st)
    for q in [(2,), (3,)]:
        for c in range(len(G.CONTENTS)):
            if q[0] % G.CONTENTS[c]["need"]:
                continue
            yield dict(sp="rest-list", q=list(q), c=[c], meter="34pk", struct="list")


def gen_inverse(tier, n, block=None, nblocks=B_INV):
    on, du = (G.INV_ON_T, G.INV_DU_T) if tier == "thorough" else (G.INV_ON_Q, G.INV_DU_Q)
    if n == 3:
        on, du = G.INV_ON_Q[:3], G.INV_DU_Q[:4]
    for c in G.inverse_cases(on, du, n):
        c = dict(c, sp="inverse%d" % n)
        if block is None or block_of(c, nblocks) == block:
            yield c


def gen_inverse_neg():
    # pickup-like arrays: negative beat onsets
    for c in G.inverse_cases([F(0), F(1, 2), F(1)], [F(1, 2), F(1)], 2, kinds=("beat", "both"), shift=F(-1)):
        yield dict(c, sp="inverse-neg")
    for c in G.inverse_cases([F(0), F(1, 2), F(1)], [F(1, 2), F(1)], 2, kinds=("beat", "both"), voices=(True,), mults=(1,), shift=F(-1, 2)):
        yield dict(c, sp="inverse-neg")


def gen_inverse_f8():
    for c in G.inverse_cases(G.INV_ON_Q, G.INV_DU_Q, 2, kinds=("beat", "both"), voices=(True,)):
        yield dict(c, sp="inverse-f8", ftype="f8")


B_INVM2 = 24
B_INVM3 = 16
B_INVMT = 12


def gen_inverse_m1():
    for c in G.inverse_measure_cases(G.INVM_TS, G.INVM_PICKUP, G.INVM_START, G.INVM_DUR, 1, voices=(0, 1), mults=(1, 2)):
        yield dict(c, sp="inverse-m1")
    for c in G.inverse_measure_cases(G.INVM_TS, G.INVM_PICKUP, G.INVM_START, G.INVM_DUR, 1, kinds=("both", "beat"), voices=(1,)):
        yield dict(c, sp="inverse-m1", ftype="f8")


def gen_inverse_m2(block=None):
    for c in G.inverse_measure_cases(G.INVM_TS, G.INVM_PICKUP, G.INVM_START, G.INVM_DUR, 2):
        c = dict(c, sp="inverse-m2")
        if block is None or block_of(c, B_INVM2) == block:
            yield c


def gen_inverse_m3(block=None):
    for c in G.inverse_measure_cases(G.INVM_TS, G.INVM_PICKUP, G.INVM_START3, G.INVM_DUR3, 3, kinds=("both", "beat"), voices=(0, 1)):
        c = dict(c, sp="inverse-m3")
        if block is None or block_of(c, B_INVM3) == block:
            yield c


def gen_inverse_mtrip(block=None):
    for n in (1, 2):
        for c in G.inverse_measure_cases(G.INVM_TS_TRIP, G.INVM_PICKUP_TRIP, G.INVM_START_TRIP, G.INVM_DUR_TRIP, n,
                                         voices=(0, 1)):
            c = dict(c, sp="inverse-mtrip")
            if block is None or n == 1 or block_of(c, B_INVMT) == block:
                yield c


B_INVTS = 192


def gen_inverse_ts(tier, block=None):
    """the same content pattern in every stretch: complete (quick: arrays without a voice column or without beat columns
    in a hash block of 4 only); mixed patterns: complete in the thorough tier, hash block `block` of B_INVTS in the quick tier"""
    for c in G.inverse_ts_cases(False):
        c = dict(c, sp="inverse-ts")
        if block is None or (c["voice"] and c["kind"] != "div") or block_of(c, 4) == block % 4:
            yield c
    for c in G.inverse_ts_cases(True):
        c = dict(c, sp="inverse-ts")
        if block is None or block_of(c, B_INVTS) == block:
            yield c


def spaces(tier, seed):
    nf = len(G.frame_keys())
    fb = "frames: %d valid of meters %s x division plans %s x key plans %s" % (nf, G.METER_NAMES, G.DIVPLANS, G.KEYPLANS)
    out = []
    out.append(Space("part-single", gen_part_single, True,
                     fb + "; every single event (note over <=3 grid cells, tie chain linked at every grid point, grace) on every frame; "
                     "9 option sets (none, all, each flag) + 2 dispatch routes per part"))
    if tier == "quick":
        b = seed % B_PAIRS
        out.append(Space("part-pairs", lambda b=b: gen_part_pairs(b), True,
                         "all ordered pairs of events on every frame: block %d of %d (hash of the case)" % (b, B_PAIRS)))
        out.append(Space("part-triples", lambda: gen_part_triples(seed % 16, 16), True,
                         "ordered triples with a shared onset on 3 frames: block %d of 16" % (seed % 16)))
    else:
        out.append(Space("part-pairs", lambda: gen_part_pairs(None), True, "all ordered pairs of events on every frame"))
        out.append(Space("part-triples", lambda: gen_part_triples(None), True, "all ordered triples with a shared onset on 3 frames"))
    out.append(Space("part-decor", gen_part_decor, True,
                     "3 skeletons (chord, grace+main+later, chain over the pickup barline + overlap) x all voice^3 (5 values), "
                     "staff^3 (4 values), spelling^3 (6 spellings) assignments; voices {0, 1, 2, none, 5}, staves {0, 1, 2, none}: "
                     "a number 0 is a stated value"))
    out.append(Space("part-musical", gen_part_musical, True,
                     "musical beats enabled (defaults, 6/8 in 3, 3/4 and 2/4 in 1) on the 3/4, 2/4-6/8 and 6/8-pickup frames with one key "
                     "signature x every division plan x every single event (+ one triple)"))
    out.append(Space("part-flags", gen_part_flags, True,
                     "all 2^7 subsets of the include_* options on %d representative parts, through Part.note_array and ensure_notearray" % (2 * len(FLAG_FRAMES))))
    out.append(Space("rest-single", gen_rest_single, True, "every single rest (<=2 grid cells) on every frame with a key signature at 0; 8 option sets"))
    if tier == "quick":
        b = seed % B_REST
        out.append(Space("rest-pairs", lambda b=b: gen_rest_pairs(b), True, "ordered pairs rest x (rest | one-cell note) on those frames: block %d of %d" % (b, B_REST)))
    else:
        out.append(Space("rest-pairs", lambda: gen_rest_pairs(None), True, "ordered pairs rest x (rest | one-cell note) on those frames"))
    out.append(Space("rest-flags", gen_rest_flags, True, "all 2^6 subsets of the rest options on 5 representative parts"))
    out.append(Space("rest-decor", gen_rest_decor, True,
                     "2 skeletons (two rests and a note at one time; three rests in a row, not added in time order) x all voice^3 and "
                     "staff^3 assignments over {0, 1, 2, none}: a number 0 is a stated value; rest array with 8 option sets + the "
                     "note array of the same part"))
    mgb = ("the small parts at large tick values: %d frames %s; every time and quarter duration of the frame x factor; a late "
           "section = the frame's grid moved a whole number of quarters later, placed so that 2^24 / 2^30 lies within a quarter "
           "after its middle (grid points on either side) or so that it ends within a quarter before 2^31 - 1; levels (factor, "
           "late section): {480, 10080, 302400} x none, and %s x {2^24, 2^30, max} wherever the late section starts at most %d "
           "quarters after time 0 and not before the end of the frame (6-7 of the 12 per frame); events: one-cell note on every "
           "cell, two-cell tie chain from every grid point, grace note on every grid point but the last, one note over the whole "
           "grid, one-cell rest on every cell; single events (in the late section when there is one) and ordered pairs "
           "note-like x note-like, rest x rest with {second, both} events late (none without late section); note arrays: no "
           "option, all options, one rotating option through a rotating route; rest arrays likewise" % (
               len(G.MAG_FRAMES), G.MAG_FRAMES, G.MAG_FACTORS, G.MAG_MAX_QUARTERS))
    if tier == "quick":
        b = seed % B_MAG
        out.append(Space("part-magnitude", lambda b=b: gen_part_magnitude(b), True,
                         mgb + "; single events complete, pairs: block %d of %d (hash of the case)" % (b, B_MAG)))
    else:
        out.append(Space("part-magnitude", lambda: gen_part_magnitude(None), True, mgb + "; complete"))
    eb = ("on one Part object: query (note and rest array with all options + one rotating single option through "
          "note_array_from_part / ensure_notearray / ensure_rest_array), edit, same queries again, each compared with the "
          "table of the score as it is then; contents {dense: a one-cell note and rest on every grid cell, sparse: tie chain + "
          "grace + rest + note}; edits: add / remove / replace a key signature at every grid point, a time signature at every "
          "measure start (every grid point without measures), split a measure at every inner grid point, merge adjacent "
          "measures, add a note on the first and the last cell / a rest / a grace note, remove the first and the last untied note "
          "and rest, replace a constant "
          "quarter duration by 2x and 3x (edits leaving the generator preconditions are skipped)")
    core = "division plans %s" % (EDIT_CORE_DIVPLANS,)
    if tier == "quick":
        b = seed % B_EDIT1
        out.append(Space("part-edit1", lambda b=b: gen_part_edit1(b), True,
                         eb + "; every single edit on every frame of " + core + " + block %d of %d of the other frames" % (b, B_EDIT1)))
        b = seed % B_EDIT2
        out.append(Space("part-edit2", lambda b=b: gen_part_edit2(b), True,
                         "two edits in sequence (three query rounds), frames of " + core + ": every second edit after the first edits "
                         "of block %d of %d (hash of frame, content, first edit)" % (b, B_EDIT2)))
        b = seed % B_SCORE_EDIT
        out.append(Space("score-edit", lambda b=b: gen_score_edit(b), True,
                         "Score / list / PartGroup of 2 parts (divisions (2,3), (4,6), (2,2) x contents {2,3,4}^2 x pickup): query, one edit "
                         "of the same alphabet (grid = barlines) in either part, query again: block %d of %d" % (b, B_SCORE_EDIT)))
    else:
        out.append(Space("part-edit1", lambda: gen_part_edit1(None), True, eb + "; every single edit on every frame"))
        out.append(Space("part-edit2", lambda: gen_part_edit2(None), True,
                         "every sequence of two edits (three query rounds) on the frames of " + core))
        out.append(Space("score-edit", lambda: gen_score_edit(None), True,
                         "Score / list / PartGroup of 2 parts (divisions (2,3), (4,6), (2,2) x contents {2,3,4}^2 x pickup): query, one edit "
                         "of the same alphabet (grid = barlines) in either part, query again"))
    tb = ("tie chains that were queried before they change, on one Part object (same query rounds as part-edit1); content: a "
          "chain of 2-3 notes from the start (over barlines / division changes of the frame), a note of its pitch right after "
          "it, two adjacent untied notes of one pitch, a chain that ends with the part, a rest, a grace note; edits (tie links "
          "set as the importers do, chains stay without gaps): move the end of the last note of every chain to every grid "
          "point and by one division either way, move the boundary between every two adjacent members likewise, remove the "
          "last note of a chain, untie at every link, tie a new note onto every chain and the first untied note (to the next "
          "grid point / the end of the part), tie every two notes of one pitch that meet, rescale the part in place (remove "
          "every object, quarter duration x2 / x3, add the same objects at x2 / x3 their times), quarter duration x2 / x3")
    if tier == "quick":
        out.append(Space("part-edit-ties1", lambda: gen_part_edit_ties1("quick"), True,
                         tb + "; every single edit on every frame with the key plan '%s'" % TIES_KEYPLAN))
        b = seed % B_TIES2
        out.append(Space("part-edit-ties2", lambda b=b: gen_part_edit_ties2(b), True,
                         "two edits of the tie alphabet in sequence (three query rounds), frames of " + core + " with the key plan '%s': "
                         "every second edit after the first edits of block %d of %d (hash of frame, first edit)" % (TIES_KEYPLAN, b, B_TIES2)))
    else:
        out.append(Space("part-edit-ties1", lambda: gen_part_edit_ties1("thorough"), True, tb + "; every single edit on every frame"))
        out.append(Space("part-edit-ties2", lambda: gen_part_edit_ties2(None), True,
                         "every sequence of two edits of the tie alphabet (three query rounds) on the frames of " + core +
                         " with the key plan '%s'" % TIES_KEYPLAN))
    if tier != "quick":
        out.append(Space("part-merged", gen_part_merged, True,
                         "the Part returned by merge_parts (its notes are the note objects of the inputs, whose note arrays "
                         "merge_parts takes before it re-adds them at times rescaled to the lcm of the divisions): note array with "
                         "all options and with none against the tables of the input parts rescaled to the lcm; every note states "
                         "voice and staff; half of the cases take the note arrays of the inputs first; 2 parts: divisions %s x "
                         "contents %s^2 x pickup x reassign voice / staff; 3 parts: divisions %s x contents {0,1,2}^3, pickup "
                         "(thorough tier only: a merge_parts call costs ~0.2 s)" % (G.DIVS2, merge_contents(), NEST_DIVS3)))
    out.append(Space("score1", gen_score1, True, "1 part as Score / list / Score of a group / PartGroup: divisions {1,2,3,4,6} x contents x pickup"))
    out.append(Space("score2", gen_score2, True,
                     "2 parts: divisions %s x contents^2 (%d contents) x {no pickup, pickup} x structures %s; "
                     "unique ids on/off x {no, all} options + each option" % (G.DIVS2, len(G.CONTENTS), G.STRUCTS2)))
    if tier == "quick":
        b = seed % B_SCORE3
        out.append(Space("score3", lambda b=b: gen_score3(b), True, "3 parts: divisions %s x contents^3 x pickup x structures %s: block %d of %d" % (G.DIVS3, G.STRUCTS3, b, B_SCORE3)))
    else:
        out.append(Space("score3", lambda: gen_score3(None), True, "3 parts: divisions %s x contents^3 x pickup x structures %s" % (G.DIVS3, G.STRUCTS3)))
    out.append(Space("score3-tacet", gen_score3_tacet, True, "3 parts as a Score, no pickup: every contents triple with at least one part without notes x divisions %s" % (G.DIVS3,)))
    nb = ("nesting shapes: 1-3 parts distributed in every way over a part list whose elements are parts or PartGroups "
          "nested at most %d deep, groups of a single element included (%s shapes for 1, 2, 3 parts); on every shape the note "
          "array of the list (note_array_from_part_list: unique ids on/off x all options, none, one rotating option), of the "
          "Score made of it (Score.note_array, ensure_notearray) and of EVERY group inside it at any level "
          "(PartGroup.note_array, ensure_notearray) against the union of the tables of the parts below it: lcm rescaling, "
          "part-prefixed ids on request (prefix of every enclosing level with more than one element, or index in the flat "
          "list of parts); 1 part: divisions {1,2,3} x every contents x pickup; 2 parts: divisions %s x contents %s^2 x "
          "pickup; 3 parts (2 levels): divisions %s x contents %s^3, pickup")
    if tier == "quick":
        b = seed % B_NEST3
        out.append(Space("score-nest", lambda b=b: gen_score_nest("quick", b), True,
                         nb % (2, "3, 14, 70", NEST_DIVS2, NEST_CONTENTS, NEST_DIVS3, NEST_CONTENTS) +
                         ": 1 and 2 parts complete, 3 parts block %d of %d" % (b, B_NEST3)))
    else:
        out.append(Space("score-nest", lambda: gen_score_nest("thorough"), True,
                         nb % (3, "4, 30, 70", NEST_DIVS2, "{all %d}" % len(G.CONTENTS), NEST_DIVS3, NEST_CONTENTS) +
                         ": complete (3 levels of groups for 1 and 2 parts)"))
    out.append(Space("score-flags", gen_score_flags, True, "all 2^7 option subsets x unique ids on/off on 3 representative scores"))
    out.append(Space("rest-list", gen_restlist, True, "rest arrays of lists / groups of 1-2 parts with equal divisions, ids prefixed on request"))
    out.append(Space("inverse1", lambda: gen_inverse(tier, 1), True, "note arrays of 1 row: onset x duration alphabets x pitch x {beat, div, both} x voice column x divs multiplier"))
    if tier == "quick":
        b = seed % B_INV
        out.append(Space("inverse2", lambda b=b: gen_inverse(tier, 2, b), True, "note arrays of 2 rows (ordered): block %d of %d" % (b, B_INV)))
        out.append(Space("inverse3", lambda: gen_inverse(tier, 3, seed % 24, 24), True, "note arrays of 3 rows (sorted row order): block %d of 24" % (seed % 24)))
    else:
        out.append(Space("inverse2", lambda: gen_inverse(tier, 2), True, "note arrays of 2 rows (ordered), larger alphabets"))
        out.append(Space("inverse3", lambda: gen_inverse(tier, 3), True, "note arrays of 3 rows (sorted row order)"))
    out.append(Space("inverse-neg", gen_inverse_neg, True, "2-row arrays with negative beat onsets (pickup-like)"))
    out.append(Space("inverse-f8", gen_inverse_f8, True, "2-row arrays with float64 beat columns"))
    mb = ("note arrays with a time signature, so that note_array_to_score builds measures, a pickup measure and ties over "
          "barlines: time signature given by ts_beats / ts_beat_type columns (3/4, 2/4, 6/8, 2/2), the time_sigs argument "
          "(3/4, 4/4) or estimate_time (4/4) x pickup measure of {0, 1/2, 1, 3/2} beats whose start is division 0 (onset_beat "
          "= position - pickup, at least one row starts inside a pickup) x rows (sorted) at positions %s beats after division "
          "0 (a position > 0 of the first row = the array opens with a rest / is a later excerpt) x durations %s beats "
          "(over one or more barlines; 0 = grace note with its main note at the same onset in the same voice) x {beat + "
          "division columns, beat columns (beat type 4), division columns (no pickup)} x voice column {none, voices "
          "alternating, one voice}; beat onsets are compared as they are (no common shift) unless the array has no pickup "
          "and ends before its first barline" % ([str(x) for x in G.INVM_START], [str(x) for x in G.INVM_DUR]))
    out.append(Space("inverse-m1", gen_inverse_m1, True,
                     mb + "; arrays of 1 row: voice column {none, present} x divisions x {1, 2}, float32 and (with a voice column) float64 beat columns"))
    tb3 = "3 rows (sorted): positions %s x durations %s, kinds {both, beat}, voice column {none, alternating}" % (
        [str(x) for x in G.INVM_START3], [str(x) for x in G.INVM_DUR3])
    tbt = ("triplet grid, 1-2 rows: time signatures %s x pickup %s x positions %s x durations %s (thirds, and a pickup of 3/2 beats: negative "
           "onsets of a half plus a third of a beat, -7/6 and -5/6), "
           "every kind, voice column {none, alternating}" % (
               G.INVM_TS_TRIP, [str(x) for x in G.INVM_PICKUP_TRIP], [str(x) for x in G.INVM_START_TRIP], [str(x) for x in G.INVM_DUR_TRIP]))
    if tier == "quick":
        b = seed % B_INVM2
        out.append(Space("inverse-m2", lambda b=b: gen_inverse_m2(b), True, "as inverse-m1 with 2 rows (sorted; pitches (60,64) and (61,61)): block %d of %d" % (b, B_INVM2)))
        b = seed % B_INVM3
        out.append(Space("inverse-m3", lambda b=b: gen_inverse_m3(b), True, "as inverse-m1 with " + tb3 + ": block %d of %d" % (b, B_INVM3)))
        b = seed % B_INVMT
        out.append(Space("inverse-mtrip", lambda b=b: gen_inverse_mtrip(b), True, "as inverse-m1 on a " + tbt + ": 1 row complete, 2 rows block %d of %d" % (b, B_INVMT)))
    else:
        out.append(Space("inverse-m2", lambda: gen_inverse_m2(None), True, "as inverse-m1 with 2 rows (sorted; pitches (60,64) and (61,61))"))
        out.append(Space("inverse-m3", lambda: gen_inverse_m3(None), True, "as inverse-m1 with " + tb3))
        out.append(Space("inverse-mtrip", lambda: gen_inverse_mtrip(None), True, "as inverse-m1 on a " + tbt))
    sb = ("note arrays whose ts_beats / ts_beat_type columns change along the array (tables of a part with several time "
          "signatures): every sequence of 2 or 3 time signatures of %s in which neighbours differ (a signature may come back after "
          "another one, A B A; equal and different beat units) x %s measures per signature x content of every stretch of one "
          "signature {a note on every beat, one note of a beat at its start, one note from its start to its end (over its "
          "barlines), a note at its start + a note of two beats on its last beat that sounds on under the next signature} x "
          "{no pickup, pickup measure of one beat with one note, its start is division 0} x {beat + division columns, beat "
          "columns (beat type 4 only), division columns with divs given (no pickup)} x voice column {alternating voices, none}; "
          "%d divisions per quarter; every stretch starts with a row (the array states a signature at row onsets only); the beat "
          "columns of the array are the exact beat map of that signature sequence (a beat = the beat unit in force), compared "
          "as they are with the array of the rebuilt score, with the division columns and pitches" % (
              G.INVTS_TS, G.INVTS_MEASURES, G.INVTS_DIVS))
    if tier == "quick":
        b = seed % B_INVTS
        out.append(Space("inverse-ts", lambda b=b: gen_inverse_ts("quick", b), True,
                         sb + "; the same content in every stretch: complete with a voice column and beat columns, block %d of 4 of the others; "
                         "different contents: block %d of %d (hash of the case)" % (b % 4, b, B_INVTS)))
    else:
        out.append(Space("inverse-ts", lambda: gen_inverse_ts("thorough"), True, sb + "; complete (every assignment of contents to stretches)"))
    return out


def _grace_group_without_voice_column(case, v):
    """inverse direction, no voice column (voices are estimated), and at least two zero-duration rows
    share an onset at which no row has a positive duration: the voice estimator makes each of them the
    main note of the other and recurses without end"""
    if not str(case.get("sp", "")).startswith("inverse") or case.get("voice"):
        return False
    by = {}
    for o, d, _p in case["rows"]:
        by.setdefault(frac(o), []).append(frac(d))
    return any(sum(1 for d in ds if d == 0) >= 2 and not any(d > 0 for d in ds) for ds in by.values())


TRIGGERS = {"grace_group_without_voice_column": _grace_group_without_voice_column}


if __name__ == "__main__":
    import checks.c05 as _m

    run_check(_m)
