"""C10 - signature, clef and measure maps return what is in force at the queried time.

Bounded-exhaustive comparison of the six map properties of `partitura.score.Part`
(`time_signature_map`, `key_signature_map`, `clef_map`, `measure_map`, `measure_number_map`,
`metrical_position_map`) with a reference written from the statement (mc/c10_model.py).

A case is a small part given as a sequence of construction operations in one or more phases;
after every phase every compared map is fetched afresh from the part and queried at **every
integer position of the timeline** (first .. last time point) in these forms: Python int,
numpy integer scalar, one numpy array of all positions, the same positions as a list, a permuted
array with repetitions, a one-element array and an empty array.

Space `inplace-then-query`: between two rounds of queries the elements are changed WITHOUT
Part.add / Part.remove - Part.use_musical_beat(dict) / use_notated_beat / set_musical_beat_per_ts
(they rewrite TimeSignature.musical_beats in place) and plain attribute assignment on time
signatures, key signatures, clefs and measures - so a map (or a note-array column) that still
reports what was in force at an earlier query is seen (tables must be gathered on each access).

Clauses (names as they appear in violation records)
  time-signature-in-force / key-signature-in-force / clef-in-force
        value of the latest element starting at or before t; of the first element for positions
        before it; documented defaults (4/4 with 4 musical beats, 0 fifths major, one
        (staff, "none", 0, 0) row per staff without clef) when there is none
  measure-extent / measure-number / metrical-position
        extent and number of the measure containing t, distance from its start and its length; a
        short first measure counts from `end - full bar`
  scalar-array-agree   row i of an array query == the scalar query at position i (also for the
        permuted array with repetitions, the one-element array; the empty array gives no rows)
  scalar-forms-agree   numpy integer scalar == Python int
  list-argument        a list of positions gives the same rows as the array
  note-array-columns   ks_fifths, ks_mode, ts_beats, ts_beat_type, ts_mus_beats, is_downbeat,
        rel_onset_div, tot_measure_div of Part.note_array equal the reference at the note's onset; for a note starting in
        no measure (where the statement fixes no extent) the last three equal what Part.metrical_position_map itself
        returns for that onset: distance and length as they are, is_downbeat = 1 exactly when the distance is 0
  rest-array-columns   the same for the rows of Part.rest_array (parts with rests: spaces onsets-outside-measures and
        array-option-combinations; the latter also for the arrays of part lists, groups and scores)
  map-total            building or calling a map raised
  requery-after-write  (space write-into-result-then-query) a map object held by the caller still returns the values in
        force after the caller has overwritten, in place, an array it got back from an earlier query of that map
        (every query form is the victim once; then every position is queried again as scalar and as array, on the
        same map object and on a map fetched afterwards)

Space `timeline-beyond-measures`: the measures do not span the whole timeline - it goes on after the final barline
(a note sounding over it / starting at or after it, a key signature, clef or time signature after it) and/or begins
before the first barline; positions inside a measure must still get that measure's extent, number and length
(also in the note-array columns), positions in no measure are only checked for scalar/array agreement.

Space `array-option-combinations`: the ks_* / ts_* / metrical columns of note arrays and rest arrays are requested under
EVERY subset of the boolean options of the call (so also key AND time signature together, with and without pitch
spelling / grace / staff / divs columns before and after them, collapse=True for rests), through every public way of
getting such an array (Part methods, the *_from_part functions, the part-list functions, PartGroup and Score with two
parts that have different signatures); each requested column must hold the reference value of the row's own part.

Space `large-magnitudes`: the small families with a MAGNITUDE dimension - every time multiplied by f in {1, 480, 10080,
302400} and shifted by off in {0, 2**16+1, 2**24+1, 2**31+1} (quarter duration multiplied by f) - and long regular parts of
30 .. 2600 measures with changing signatures and clefs. Such timelines are too long to ask every integer position:
the maps are queried at every position within 3 (long parts: 1) divisions of a time point of the part and at the midpoints
between neighbouring time points; notes of one division end at every boundary, so the note-array columns are looked at
one division before every change as well.

Space `onsets-outside-measures`: a note and/or a rest STARTS at every position before the first barline and at or after
the final barline (so also exactly 1, 2, .. bar lengths from the start of the last / first measure); the metrical columns
of the note array and of the rest array must agree with the metrical-position map at those onsets too.
"""
import itertools

import numpy as np

from mc.core import CaseResult, Space, run_check, innermost_partitura_frame, exc_text, Hang
from mc import c10_model as M

PID = "C10"
RULE = (
    "a case is one part built by a sequence of Part.add (time/key signatures, clefs, measures, notes, rests) / remove / "
    "set_quarter_duration operations (space inplace-then-query: "
    "also use_musical_beat / use_notated_beat / set_musical_beat_per_ts and attribute assignments on the elements) in 1-4 phases; "
    "after each phase all compared maps are queried at every integer timeline position (space large-magnitudes: at every "
    "position within 3 / 1 divisions of a time point and the midpoints between time points) in 9 argument forms (space "
    "write-into-result-then-query: and again on the same map object after the caller overwrote each returned array; space "
    "array-option-combinations: and the note / rest array is built through one entry point under every subset of its "
    "boolean options - each array with a requested signature / metrical column counts as one more state); each "
    "(part after a phase) is one state; non-trivial = at least one compared kind has an element or a default is exercised "
    "on a part with >= 2 positions"
)
ASSUMPTIONS = [
    "at most one time signature / key signature per position and one clef per position and staff (the statement does not say which wins a tie)",
    "clef signs are compared through partitura's own sign<->integer table after checking that the table is a bijection; "
    "key modes are compared as 1 (major, missing mode, 'none') / -1 (minor) as documented in key_mode_to_int",
    "musical beats are the documented 2/3/4 for 6/9/12 beats and `beats` otherwise",
    "musical beats are an attribute of the time signature element: set_musical_beat_per_ts(dict) / use_musical_beat(non-empty dict) "
    "give every signature the dict's value for its 'beats/beat_type' string and the default otherwise, use_notated_beat() "
    "resets all to the default, use_musical_beat() alone changes no value (all as documented); sequences where the "
    "documentation is silent are not generated (see the bounds of inplace-then-query)",
    "in-place assignment of an attribute of an element that stays in the timeline changes what is 'in force' from then on "
    "(the anchors say the tables are gathered from the timeline on each property access)",
    "while musical beats are in use the measure family is compared only with MEASURES_WITH_MUSICAL_BEAT=True (unchanged tree: "
    "pickup correction counts notated beats of musical-beat length, proposed_fixes/C10-s-pickup-correction-musical-beat.diff)",
    "number of staves of a part = highest staff number of a note or clef (at least 1); clef_map returns one row per staff "
    "(staff, sign code, line, octave change with None read as 0), array queries stack the rows per staff",
    "measure clauses are only generated for contiguous measures; they tile first..last time point except in the space "
    "timeline-beyond-measures and two edits of edit-then-query, where the timeline goes on after the final barline or begins "
    "before the first one; positions contained in no measure (the end of the last measure, positions after it or before the "
    "first barline) are only checked for scalar/array agreement of the maps; the is_downbeat / rel_onset_div / tot_measure_div "
    "columns of a note or rest starting there are compared with Part.metrical_position_map at that onset (the statement: "
    "'the maps agree with the optional note-array columns derived from them'): rel_onset_div and tot_measure_div after casting "
    "the map's values to the dtype of the columns, is_downbeat = 1 iff the map's distance from the measure start is 0",
    "Part.rest_array carries the same optional columns as Part.note_array (built from the same maps) and is read as "
    "covered by 'optional note-array columns' (clause rest-array-columns); rests are on staff 1, one division long",
    "array-option-combinations: the arrays made from several parts (note_array_from_part_list, rest_array_from_part_list, "
    "PartGroup.note_array / rest_array, Score.note_array) are read as 'note-array columns derived from the maps' of the part "
    "each row comes from (parts of equal quarter duration only, so no rescaling is involved); rows are identified by id "
    "with or without the 'Pnn_' part prefix; with collapse=True only the rows that remain are compared (at the onset of the "
    "rest whose id the row carries); columns that were not requested are not looked at; "
    "rest_array_from_part_list / PartGroup.rest_array take no include_metrical_position (not generated)",
    "a part beginning before its first barline is only generated with a complete first measure (no pickup) and no change of "
    "time signature or quarter duration up to the first barline",
    "requery-after-write: a caller may write into an array a map returned when numpy allows it (flags.writeable); results that "
    "are read-only or not arrays are left alone; what a map returns for a position must not depend on such writes (the statement "
    "quantifies over every query of every position)",
    "pickup: the first measure is shorter than beats x divisions-per-beat of the time signature in force at the start "
    "(explicit at the first point, absent = 4/4, or starting later with beat type 4) on a part that starts at position 0, with a full "
    "bar that is a whole number of divisions and no change of time signature or quarter duration inside the first beat; then "
    "its start is taken as end - full bar (as in tests/test_metrical_position.py); parts starting at t>0 are only generated without pickup",
    "for parts with a single measure metrical_position_map documents 'position 0 everywhere': both (0, 0) and "
    "(distance, length) are accepted there",
    "parts without any measure are outside the quantifier of the measure clauses (measure_map raises IndexError there - see C10-NOTES.md)",
    "clefs with line=None and clefs without staff number are not generated",
    "large-magnitudes: positions are Python ints / int64 (exact in the float64 tables of the maps up to 2**53); the largest "
    "generated time point is 2**31 + 1 + 8 * 302400; Part.note_array stores onset_div / duration_div as int32, so parts "
    "reaching beyond 2**31 - 1 are generated without notes and rests (maps only); on these long timelines only the positions "
    "near a time point (where the answer of a step function can change) and one position inside every stretch between two "
    "time points are queried, not every integer",
    "trusted: numpy, scipy.interpolate",
]
CHUNK = 40

# While Part.use_musical_beat is in effect the unchanged tree moves the start of a COMPLETE first
# measure (pickup correction computed as notated beats x divisions per MUSICAL beat; see
# proposed_fixes/C10-s-pickup-correction-musical-beat.diff and the final report of the in-place
# spaces). Until that fix is in the tree the measure family is not compared in states where
# musical beats are in use; set to True once it is applied (the check then passes with it).
MEASURES_WITH_MUSICAL_BEAT = True

MAPS = {
    "ts": ["time_signature_map"],
    "ks": ["key_signature_map"],
    "clef": ["clef_map"],
    "meas": ["measure_map", "measure_number_map", "metrical_position_map"],
}
CLAUSE = {
    "time_signature_map": "time-signature-in-force",
    "key_signature_map": "key-signature-in-force",
    "clef_map": "clef-in-force",
    "measure_map": "measure-extent",
    "measure_number_map": "measure-number",
    "metrical_position_map": "metrical-position",
}
WIDTH = {"time_signature_map": 3, "key_signature_map": 2, "measure_map": 2, "measure_number_map": 1,
         "metrical_position_map": 2}


# ---------------------------------------------------------------------------------------------
# implementation side


def impl_apply(part, objs, op):
    import partitura.score as S

    k = op[0]
    o = None
    if k == "ts":
        o = S.TimeSignature(op[2], op[3])
        part.add(o, op[1])
    elif k == "ks":
        o = S.KeySignature(op[2], op[3])
        part.add(o, op[1])
    elif k == "clef":
        o = S.Clef(op[2], op[3], op[4], op[5])
        part.add(o, op[1])
    elif k == "meas":
        o = S.Measure(number=op[3])
        part.add(o, op[1], op[2])
    elif k == "note":
        o = S.Note("C", 4, id=op[4], voice=1, staff=op[3])
        part.add(o, op[1], op[2])
    elif k == "rest":
        o = S.Rest(id=op[4], voice=op[5] if len(op) > 5 else 1, staff=op[3])
        part.add(o, op[1], op[2])
    elif k == "rm":
        part.remove(objs[op[1]])
    elif k == "setq":
        part.set_quarter_duration(op[1], op[2])
    elif k == "set":
        # in place: plain attribute assignment on an element that stays in the timeline
        setattr(objs[op[1]], op[2], op[3])
    elif k == "umb":
        part.use_musical_beat(dict(op[1]))
    elif k == "unb":
        part.use_notated_beat()
    elif k == "smb":
        part.set_musical_beat_per_ts(dict(op[1]))
    else:
        raise ValueError(op)
    objs.append(o)


def _num(x):
    """numpy number -> Python int if integral, else float (nan stays nan)."""
    x = float(x)
    if x == x and abs(x) != float("inf") and x == int(x):
        return int(x)
    return x


class Shape(Exception):
    pass


def norm_scalar(name, r, nst):
    """Result of a scalar query -> tuple of numbers (clef: tuple of rows)."""
    if name == "metrical_position_map" and isinstance(r, tuple):
        if len(r) != 2:
            raise Shape("tuple of %d" % len(r))
        r = [np.asarray(x).reshape(()) for x in r]
    a = np.asarray(r)
    if name == "clef_map":
        if a.shape != (nst, 4):
            raise Shape("shape %r, expected (%d, 4)" % (a.shape, nst))
        return tuple(tuple(_num(v) for v in row) for row in a)
    w = WIDTH[name]
    if a.size != w or a.ndim > 1:
        raise Shape("shape %r, expected %d value(s)" % (a.shape, w))
    return tuple(_num(v) for v in a.reshape(-1))


def norm_vector(name, r, n, nst):
    """Result of a query with n positions -> list of n tuples."""
    a = np.asarray(r)
    if name == "clef_map":
        if a.shape != (nst, n, 4):
            raise Shape("shape %r, expected (%d, %d, 4)" % (a.shape, nst, n))
        return [tuple(tuple(_num(v) for v in a[s, i]) for s in range(nst)) for i in range(n)]
    w = WIDTH[name]
    if w == 1:
        if a.shape != (n,):
            raise Shape("shape %r, expected (%d,)" % (a.shape, n))
        return [(_num(v),) for v in a]
    if a.shape != (n, w):
        raise Shape("shape %r, expected (%d, %d)" % (a.shape, n, w))
    return [tuple(_num(v) for v in row) for row in a]


# ---------------------------------------------------------------------------------------------
# oracle


def expected_fn(name, st, codes, ref=None):
    """-> function t -> list of acceptable tuples, or None where the statement fixes nothing.
    ref: M.Ref(st) - the same reference with the element tables gathered once (long parts)."""
    if name == "time_signature_map":
        return (lambda t: [tuple(ref.ts(t))]) if ref else (lambda t: [tuple(M.ref_ts(st, t))])
    if name == "key_signature_map":
        return (lambda t: [tuple(ref.ks(t))]) if ref else (lambda t: [tuple(M.ref_ks(st, t))])
    if name == "clef_map":
        clef = ref.clef if ref else (lambda t: M.ref_clef(st, t))
        return lambda t: [tuple((s, codes[sign], line, oc) for s, sign, line, oc in clef(t))]
    meas = ref.meas if ref else M.ref_measures(st)
    single = len(meas) == 1

    def f(t):
        m = ref.measure_at(t) if ref else M.ref_measure_at(meas, t)
        if m is None:
            return None
        if name == "measure_map":
            return [(_num(m[0]), m[1])]
        if name == "measure_number_map":
            return [(m[2],)]
        e = (_num(t - m[0]), _num(m[1] - m[0]))
        return [e, (0, 0)] if single else [e]

    return f


def check_map(res, part, name, T, exp, nst, ctx):
    clause = CLAUSE[name]
    where = "Part.%s" % name
    calls = 0

    def boom(ex, what):
        if isinstance(ex, Hang):
            raise ex
        if isinstance(ex, Shape):
            res.fail("list-argument" if what == "list" else "scalar-array-agree" if "array" in what else clause,
                     expected="one row per queried position",
                     observed=str(ex), where=where, detail="%s %s" % (ctx, what))
        else:
            res.fail("map-total", kind="exception", where=innermost_partitura_frame(ex) or where, observed=exc_text(ex),
                     detail="%s %s %s" % (ctx, name, what))

    try:
        f = getattr(part, name)
    except Exception as ex:  # noqa
        boom(ex, "property access")
        return 1
    calls += 1
    scal = []
    for t in T:
        try:
            calls += 1
            r = norm_scalar(name, f(t), nst)
        except Exception as ex:  # noqa
            boom(ex, "scalar t=%d" % t)
            return calls
        scal.append(r)
        e = exp(t)
        if e is not None and r not in e:
            res.fail(clause, expected=e[0], observed=r, where=where, detail="%s t=%d (scalar)" % (ctx, t))
            return calls
        try:
            calls += 1
            r2 = norm_scalar(name, f(np.int64(t)), nst)
        except Exception as ex:  # noqa
            boom(ex, "numpy scalar t=%d" % t)
            return calls
        if r2 != r:
            res.fail("scalar-forms-agree", expected=r, observed=r2, where=where, detail="%s t=np.int64(%d)" % (ctx, t))
            return calls
    n = len(T)
    forms = [("array", np.array(T, dtype=int), list(range(n)))]
    perm = list(range(n - 1, -1, -1)) + list(range(min(2, n)))
    forms.append(("permuted array", np.array([T[i] for i in perm], dtype=int), perm))
    # unsorted WITHOUT repetitions too (a shortcut for duplicate-free arguments must keep the order)
    shuf = list(range(1, n, 2))[::-1] + list(range(0, n, 2))
    forms.append(("shuffled array without repeats", np.array([T[i] for i in shuf], dtype=int), shuf))
    forms.append(("reversed list", [int(T[i]) for i in range(n - 1, -1, -1)], list(range(n - 1, -1, -1))))
    forms.append(("list", [int(t) for t in T], list(range(n))))
    mid = n // 2
    forms.append(("one-element array", np.array([T[mid]], dtype=int), [mid]))
    forms.append(("empty array", np.array([], dtype=int), []))
    for what, arg, idx in forms:
        try:
            calls += 1
            rows = norm_vector(name, f(arg), len(idx), nst)
        except Exception as ex:  # noqa
            boom(ex, what)
            return calls
        for row, i in zip(rows, idx):
            if row != scal[i]:
                e = exp(T[i])
                res.fail("list-argument" if what == "list" else "scalar-array-agree", expected=scal[i], observed=row, where=where,
                         detail="%s %s query, position t=%d%s" % (ctx, what, T[i], "" if e is None else " (reference %r)" % (e[0],)))
                return calls
    return calls


def _scribble(r):
    """Overwrite in place every array the caller got back (where numpy permits) -> number of arrays written."""
    n = 0
    for a in (r if isinstance(r, (tuple, list)) else [r]):
        if isinstance(a, np.ndarray) and a.size and a.flags.writeable:
            a[...] = a + 37
            n += 1
    return n


def check_requery(res, part, name, T, exp, nst, ctx):
    """One map object; every query form is the victim once: its result is overwritten in place; after a scalar victim
    the same position is queried again at once, after a vector victim the array of all positions; after the last scalar
    victim and after the last vector victim every position is queried again as scalar and in one array on the same
    object (a write into shared storage stays until it is looked at), finally on a map fetched afterwards.
    -> (calls, number of results that could be written)"""
    where = "Part.%s" % name
    calls = 1
    written = 0
    n = len(T)
    arr = np.array(T, dtype=int)

    def boom(ex, what):
        if isinstance(ex, Hang):
            raise ex
        res.fail("map-total", kind="exception", where=innermost_partitura_frame(ex) or where, observed=exc_text(ex),
                 detail="%s %s %s" % (ctx, name, what))

    def want(i, first):
        e = exp(T[i])
        return [first[i]] if e is None else e

    def requery(g, first, what):
        """-> number of calls, or None after a violation"""
        c = 0
        try:
            for i, t in enumerate(T):
                c += 1
                r = norm_scalar(name, g(t), nst)
                if r not in want(i, first):
                    res.fail("requery-after-write", expected=want(i, first)[0], observed=r, where=where,
                             detail="%s %s: scalar query t=%d" % (ctx, what, t))
                    return None
            c += 1
            rows = norm_vector(name, g(arr.copy()), n, nst)
            for i, row in enumerate(rows):
                if row not in want(i, first):
                    res.fail("requery-after-write", expected=want(i, first)[0], observed=row, where=where,
                             detail="%s %s: array query, position t=%d" % (ctx, what, T[i]))
                    return None
        except Exception as ex:  # noqa
            boom(ex, what)
            return None
        return c

    try:
        f = getattr(part, name)
        first = [norm_scalar(name, f(t), nst) for t in T]  # first answers of this map object (nothing written yet)
        calls += n
    except Exception as ex:  # noqa
        boom(ex, "first queries")
        return calls, written
    mid = n // 2

    def victim(what, call):
        """-> number of arrays written, or None after an exception"""
        try:
            return _scribble(call())
        except Exception as ex:  # noqa
            boom(ex, what)
            return None

    # scalar victims: every position in turn; the same position is asked again at once, all positions after the last one
    for i, t in enumerate(T):
        for what, call in (("scalar t=%d" % t, lambda: f(t)), ("numpy scalar t=%d" % t, lambda: f(np.int64(t)))):
            if what.startswith("numpy") and i != mid:
                continue
            calls += 2
            w = victim(what, call)
            if w is None:
                return calls, written
            written += w
            try:
                r = norm_scalar(name, f(t), nst)
            except Exception as ex:  # noqa
                boom(ex, "scalar t=%d" % t)
                return calls, written
            if r not in want(i, first):
                res.fail("requery-after-write", expected=want(i, first)[0], observed=r, where=where,
                         detail="%s same map object after writing into the result of the query %s: scalar query t=%d" % (ctx, what, t))
                return calls, written
    c = requery(f, first, "same map object after writing into the results of the scalar queries at every position")
    if c is None:
        return calls, written
    calls += c
    # vector victims: the array of all positions is asked again after each, every position as scalar after the last one
    vec = [("array of all positions", lambda: f(arr.copy())),
           ("reversed array", lambda: f(arr[::-1].copy())),
           ("list of all positions", lambda: f([int(t) for t in T])),
           ("one-element array", lambda: f(np.array([T[mid]], dtype=int))),
           ("empty array", lambda: f(np.array([], dtype=int)))]
    for what, call in vec:
        calls += 2
        w = victim(what, call)
        if w is None:
            return calls, written
        written += w
        try:
            rows = norm_vector(name, f(arr.copy()), n, nst)
        except Exception as ex:  # noqa
            boom(ex, "array")
            return calls, written
        for i, row in enumerate(rows):
            if row not in want(i, first):
                res.fail("requery-after-write", expected=want(i, first)[0], observed=row, where=where,
                         detail="%s same map object after writing into the result of the query %s: array query, position t=%d"
                                % (ctx, what, T[i]))
                return calls, written
    c = requery(f, first, "same map object after writing into the results of the array and list queries")
    if c is None:
        return calls, written
    calls += c
    try:
        calls += 1
        g = getattr(part, name)
    except Exception as ex:  # noqa
        boom(ex, "property access")
        return calls, written
    c = requery(g, first, "map fetched after results of the earlier map object were written into")
    if c is not None:
        calls += c
    return calls, written


NA_COLS = {
    "ks": ["ks_fifths", "ks_mode"],
    "ts": ["ts_beats", "ts_beat_type", "ts_mus_beats"],
    "meas": ["is_downbeat", "rel_onset_div", "tot_measure_div"],
}


def _map_at_onset(part, t, dtypes):
    """Part.metrical_position_map at the scalar position t -> (distance, (distance, length) cast to the dtypes of
    the rel_onset_div / tot_measure_div columns)."""
    r = part.metrical_position_map(t)
    if isinstance(r, tuple):
        v = [np.asarray(x).reshape(()) for x in r]
    else:
        v = list(np.asarray(r).reshape(-1))
    if len(v) != 2:
        raise Shape("%d value(s), expected 2" % len(v))
    with np.errstate(all="ignore"):
        cast = [int(np.asarray(x).astype(dt)) for x, dt in zip(v, dtypes)]
    return _num(v[0]), cast


def check_note_array(res, part, st, maps, ctx, kind="note", ref=None):
    """The optional columns of Part.note_array (kind="note") / Part.rest_array (kind="rest") against the reference at
    the onset of every row; for rows starting in no measure (the statement fixes no extent there) the three metrical
    columns against what Part.metrical_position_map itself returns for that onset."""
    notes = st.of(kind)
    if not notes:
        return 0
    clause = "%s-array-columns" % kind
    where = "Part.%s_array" % kind
    has_meas = "meas" in maps and len(st.of("meas")) > 0
    want = [k for k in ("ks", "ts") if k in maps] + (["meas"] if has_meas else [])
    if not want:
        return 0
    try:
        na = getattr(part, kind + "_array")(include_key_signature="ks" in want, include_time_signature="ts" in want,
                                            include_metrical_position="meas" in want, include_staff=True)
    except Hang:
        raise
    except Exception as ex:  # noqa
        res.fail(clause, kind="exception", where=innermost_partitura_frame(ex), observed=exc_text(ex), detail=ctx)
        return 1
    calls = 1
    onset = {o[4]: o for o in notes}
    if sorted(str(i) for i in na["id"]) != sorted(onset):
        res.fail(clause, expected=sorted(onset), observed=[str(i) for i in na["id"]], where=where,
                 detail=ctx + " (rows)")
        return calls
    meas = (ref.meas if ref else M.ref_measures(st)) if has_meas else []
    for row in na:
        o = onset[str(row["id"])]
        t = o[1]
        exp, obs = [], []
        alt = None
        note = ""
        if "ks" in want:
            exp += list(ref.ks(t) if ref else M.ref_ks(st, t))
            obs += [int(row[c]) for c in NA_COLS["ks"]]
        if "ts" in want:
            exp += list(ref.ts(t) if ref else M.ref_ts(st, t))
            obs += [int(row[c]) for c in NA_COLS["ts"]]
        cols = sum((NA_COLS[k] for k in want if k != "meas"), [])
        if "meas" in want:
            m = ref.measure_at(t) if ref else M.ref_measure_at(meas, t)
            if m is not None:
                d, ln = _num(t - m[0]), _num(m[1] - m[0])
                if len(meas) == 1:
                    alt = exp + [1, 0, 0]
                exp += [1 if d == 0 else 0, d, ln]
            else:
                # no measure contains the onset: the columns are "derived from" the metrical-position map, so they must
                # show what the map says there (compared in the dtype of the columns): distance and length as they are,
                # downbeat <=> the map gives distance 0
                try:
                    calls += 2
                    d, cast = _map_at_onset(part, t, [na.dtype[c] for c in NA_COLS["meas"][1:]])
                except Hang:
                    raise
                except Exception as ex:  # noqa
                    res.fail("map-total", kind="exception", where=innermost_partitura_frame(ex) or "Part.metrical_position_map",
                             observed=exc_text(ex), detail="%s metrical_position_map scalar t=%d" % (ctx, t))
                    return calls
                exp += [1 if d == 0 else 0] + cast
                note = " (in no measure: expected = Part.metrical_position_map(%d), downbeat iff distance 0)" % t
            obs += [int(row[c]) for c in NA_COLS["meas"]]
            cols += NA_COLS["meas"]
        exp.append(o[3])
        obs.append(int(row["staff"]))
        cols.append("staff")
        if alt is not None:
            alt.append(o[3])
        if obs != exp and obs != alt:
            res.fail(clause, expected=dict(zip(cols, exp)), observed=dict(zip(cols, obs)), where=where,
                     detail="%s %s %s onset=%d%s" % (ctx, kind, o[4], t, note))
            return calls
    return calls


def _array_call(entry, a, b):
    """-> function(**options) building the array through the named entry point from part a (and companion b)."""
    import partitura.score as S
    from partitura.utils import music as U

    name, _, form = entry.partition(":")
    parts = {"": None, "1": [a], "2": [a, b], "2r": [b, a]}[form]
    if name in ("Part.note_array", "Part.rest_array"):
        return getattr(a, name[5:])
    if name in ("note_array_from_part", "rest_array_from_part"):
        return lambda **kw: getattr(U, name)(a, **kw)
    if name in ("note_array_from_part_list", "rest_array_from_part_list"):
        return lambda **kw: getattr(U, name)(list(parts), **kw)
    if name in ("PartGroup.note_array", "PartGroup.rest_array"):
        pg = S.PartGroup()
        pg.children = list(parts)
        return getattr(pg, name[10:])
    if name == "Score.note_array":
        return S.Score(list(parts)).note_array
    raise ValueError(entry)


def _strip_part_prefix(i):
    """ids of arrays made from several parts carry 'P<nn>_' in front (once per level); the ids of the cases never begin so."""
    i = str(i)
    while len(i) > 4 and i[0] == "P" and i[1:3].isdigit() and i[3] == "_":
        i = i[4:]
    return i


def check_array_options(res, case, a, st_a, ctx):
    """Space array-option-combinations: the array of notes / rests is built through one entry point for EVERY subset of
    its boolean options; whenever key-signature, time-signature or metrical-position columns are requested they must be
    there and hold, in every row, the reference values at the onset of that row's element in that row's own part.
    -> (calls, number of arrays compared)"""
    import partitura.score as S

    spec = case["arrays"]
    kind, entry = spec["kind"], spec["entry"]
    clause = "%s-array-columns" % kind
    where = entry.partition(":")[0]
    sts = [st_a]
    b = None
    calls = 0
    if spec.get("second"):
        b = S.Part("P1", quarter_duration=case["q"])
        st_b = M.State(case["q"])
        objs = []
        for op in spec["second"]:
            impl_apply(b, objs, op)
            st_b.apply(op)
            calls += 1
        sts.append(st_b)
    build = _array_call(entry, a, b)
    elems = {}  # id -> (element, part, reference values per column family at its onset, second accepted reading)
    for st in sts:
        meas = M.ref_measures(st)
        for o in st.of(kind):
            t = o[1]
            m = M.ref_measure_at(meas, t)  # the generator puts every onset inside a measure
            d, ln = _num(t - m[0]), _num(m[1] - m[0])
            ref = {"ks": list(M.ref_ks(st, t)), "ts": list(M.ref_ts(st, t)), "meas": [1 if d == 0 else 0, d, ln]}
            # documented for one-measure parts: position 0 everywhere
            elems[o[4]] = (o, "A" if st is st_a else "B", ref, dict(ref, meas=[1, 0, 0]) if len(meas) == 1 else None)
    opts = M.array_options(entry)
    free = [o for o in opts if o not in spec["fixed"]]
    ncmp = 0
    for bits in itertools.product((False, True), repeat=len(free)):
        kw = dict(spec["fixed"])
        kw.update(zip(free, bits))
        on = "+".join(o.replace("include_", "") for o in opts if kw[o]) or "no option"
        calls += 1
        try:
            na = build(**kw)
        except Hang:
            raise
        except Exception as ex:  # noqa
            res.fail(clause, kind="exception", where=innermost_partitura_frame(ex) or where, observed=exc_text(ex),
                     detail="%s %s(%s)" % (ctx, entry, on))
            return calls, ncmp
        want = [k for k, o in (("ks", "include_key_signature"), ("ts", "include_time_signature"),
                               ("meas", "include_metrical_position")) if kw.get(o)]
        names = na.dtype.names or ()
        missing = [c for k in want for c in NA_COLS[k] if c not in names]
        if missing or "id" not in names:
            res.fail(clause, expected="columns %s" % sum((NA_COLS[k] for k in want), ["id"]), observed=list(names), where=where,
                     detail="%s %s(%s)" % (ctx, entry, on))
            return calls, ncmp
        ids = sorted(_strip_part_prefix(i) for i in na["id"])
        if kw.get("collapse"):
            # rests following one another in a voice are joined into the first one: which rows stay is not part of
            # the statement; every row that stays is an element of the part and is compared at its own onset
            rows_ok = len(ids) > 0 and len(set(ids)) == len(ids) and set(ids) <= set(elems)
        else:
            rows_ok = ids == sorted(elems)
        if not rows_ok:
            res.fail(clause, expected=sorted(elems), observed=[str(i) for i in na["id"]], where=where,
                     detail="%s %s(%s) (rows)" % (ctx, entry, on))
            return calls, ncmp
        cols = sum((NA_COLS[k] for k in want), [])
        if not cols:
            continue
        ncmp += 1
        for row in na:
            o, pname, ref, ref2 = elems[_strip_part_prefix(row["id"])]
            exp = sum((ref[k] for k in want), [])
            obs = [_num(row[c]) for c in cols]
            if obs != exp and (ref2 is None or obs != sum((ref2[k] for k in want), [])):
                res.fail(clause, expected=dict(zip(cols, exp)), observed=dict(zip(cols, obs)), where=where,
                         detail="%s %s(%s) %s %s of part %s onset=%d" % (ctx, entry, on, kind, o[4], pname, o[1]))
                return calls, ncmp
    return calls, ncmp


_CODES = None


def clef_codes(res):
    """partitura's sign -> integer table, checked once per worker to be a bijection onto its inverse."""
    global _CODES
    if _CODES is None:
        from partitura.utils.music import clef_sign_to_int, clef_int_to_sign

        codes = {}
        for s in M.CLEF_SIGNS:
            codes[s] = clef_sign_to_int(s)
        ok = len(set(codes.values())) == len(codes) and all(clef_int_to_sign(v) == s for s, v in codes.items())
        _CODES = (codes, ok)
    codes, ok = _CODES
    if not ok:
        res.fail("clef-in-force", expected="distinct integer codes per clef sign, inverted by clef_int_to_sign",
                 observed=codes, where="utils.music.clef_sign_to_int")
    return codes


def eval_case(case):
    import partitura.score as S

    res = CaseResult(states=0, transitions=0, traces=1)
    codes = clef_codes(res)
    part = S.Part("P0", quarter_duration=case["q"])
    st = M.State(case["q"])
    objs = []
    out = ""
    nontrivial = False
    written = 0
    for pi, ph in enumerate(case["phases"]):
        for op in ph:
            res.transitions += 1
            try:
                impl_apply(part, objs, op)
            except Hang:
                raise
            except Exception as ex:  # noqa
                res.fail("map-total", kind="exception", where=innermost_partitura_frame(ex), observed=exc_text(ex),
                         detail="construction op %r" % (op,))
                res.outcome = "construction failed"
                return res
            st.apply(op)
        res.states += 1
        pts = st.point_times()
        ref = None
        if "near" in case:
            # long timeline: the neighbourhood of every time point instead of every integer position
            T = M.near_positions(pts, case["near"])
            ref = M.Ref(st)
        else:
            T = list(range(pts[0], pts[-1] + 1))
        nst = st.nstaves()
        ctx = "phase %d" % pi
        if st.inplace:
            ctx += " (after %s)" % ("; ".join(repr(o) for o in ph) if len(repr(ph)) < 120 else "%d ops" % len(ph))
        maps = list(case["maps"])
        if st.musical_mode and not MEASURES_WITH_MUSICAL_BEAT and "meas" in maps:
            maps.remove("meas")
        for fam in maps:
            if fam == "meas" and not st.of("meas"):
                continue
            for name in MAPS[fam]:
                res.transitions += check_map(res, part, name, T, expected_fn(name, st, codes, ref), nst, ctx)
                if case.get("scribble") and not res.violations:
                    c, w = check_requery(res, part, name, T, expected_fn(name, st, codes), nst, ctx)
                    res.transitions += c
                    written += w
        res.transitions += check_note_array(res, part, st, maps, ctx, ref=ref)
        if not res.violations:
            res.transitions += check_note_array(res, part, st, maps, ctx, kind="rest", ref=ref)
        ncmp = 0
        if "arrays" in case and not res.violations:
            c, ncmp = check_array_options(res, case, part, st, ctx)
            res.transitions += c
            res.states += max(ncmp - 1, 0)  # every option combination is one evaluation of the columns clause
        meas = (ref.meas if ref else M.ref_measures(st)) if "meas" in maps else []
        pk = bool(meas) and meas[0][0] != meas[0][3]
        out = "ts%d ks%d clefstaves%s/%d meas%d pickup%d phases%d" % (
            min(len(st.of("ts")), 3) if "ts" in case["maps"] else -1,
            min(len(st.of("ks")), 3) if "ks" in case["maps"] else -1,
            len(set(o[2] for o in st.of("clef"))) if "clef" in case["maps"] else -1, nst,
            min(len(meas), 3), int(pk), len(case["phases"]))
        if "inplace" in case:
            out += " inplace%d musical%d mb%s" % (min(st.inplace, 3), int(st.musical_mode),
                                                  "".join(str(min(r[3], 9)) for r in st.ts_rows()[:2]))
        if case.get("scribble"):
            out += " written%s" % ("0" if not written else "1+" if written < 20 else "20+")
        if meas and "beyond" in case:
            out += " beyond%d/%d" % (min(meas[0][3] - T[0], 2), min(T[-1] - meas[-1][1], 2))
        if meas and "fill" in case:
            # how many bar lengths of the last measure the latest onset lies after its start
            out += " fill-%s k%d" % (case["fill"], min((T[-1] - 1 - meas[-1][0]) // (meas[-1][1] - meas[-1][0]), 3))
        if "mag" in case:
            out += " x%d+2^%d%s" % (case["mag"][0], case["mag"][1].bit_length() - 1 if case["mag"][1] else 0,
                                    "" if st.of("note") else " no-notes")
        if "long" in case:
            out += " long n%d q%d %s" % tuple(case["long"])
        if "arrays" in case:
            out += " arrays:%s(%s..) combos%d" % (case["arrays"]["entry"], "".join(
                str(int(v)) for _, v in sorted(case["arrays"]["fixed"].items())), ncmp)
        if len(T) >= 2:
            nontrivial = True
        if res.violations:
            break
    res.outcome = out + (" VIOLATION" if res.violations else "")
    res.nontrivial = nontrivial
    return res


# ---------------------------------------------------------------------------------------------
# spaces

NB = 8  # blocks of the thorough scope; quick explores block seed % NB in addition to the core


def _blocked(gen_core, gen_wide, tier, seed, nb=NB):
    """quick: core + block (seed % nb) of the wide scope; thorough: core + whole wide scope."""

    def it():
        seen = set()
        for c in gen_core():
            seen.add(_key(c))
            yield c
        for i, c in enumerate(gen_wide()):
            # block = position in the (deterministic) enumeration order modulo nb
            if tier == "thorough" or i % nb == seed % nb:
                if _key(c) not in seen:
                    yield c

    return it


def _key(c):
    import json

    return json.dumps(c, sort_keys=True)


def spaces(tier, seed):
    sp = []
    thorough = tier == "thorough"
    blk = "" if thorough else " + block %d/%d of the thorough scope" % (seed % NB, NB)

    # -- time signatures
    sp.append(Space(
        "time-signatures",
        _blocked(lambda: M.gen_ts(4, (0, 1), M.TS_POOL[:3], 3, frame="both"),
                 lambda: itertools.chain(M.gen_ts(6, (0, 2), M.TS_POOL[:4], 3, frame="both"),
                                         M.gen_ts(5, (0,), M.TS_POOL[4:], 2, frame="both")), tier, seed),
        bounds="core: timeline 0..4 / 1..4, every set of <=3 signature positions, every ordered choice of distinct values from "
               "3/4 6/8 2/2, every insertion order, timeline framed by a note or by the signatures alone, notes per position; "
               "thorough: timeline 0..6 / 2..6 with 4 values (adds 12/8), and 0..5 with <=2 of 4/4 9/8 5/4 3/8 7/8 1/4" + blk))
    # -- key signatures
    sp.append(Space(
        "key-signatures",
        _blocked(lambda: M.gen_ks(4, (0, 1), 3, {1: "all", 2: "pool4", 3: "pool3"}),
                 lambda: M.gen_ks(5, (0, 2), 3, {1: "all", 2: "pool6", 3: "pool4"}), tier, seed),
        bounds="core: timeline 0..4 / 1..4, every set of <=3 positions; one signature: fifths -7..7 x mode {major,minor,None} "
               "and 'none'; two: ordered pairs of 4 values; three: ordered triples of 3 values; every insertion order; "
               "thorough: timeline 0..5 / 2..5, pairs of 6 values, triples of 4" + blk))
    # -- clefs
    sp.append(Space(
        "clef-values",
        lambda: M.gen_clef_values(),
        bounds="one clef at position 0 or 2 of a one-staff part 0..3: 7 signs x lines 1..5 x octave change {None,-2..2}"))
    sp.append(Space(
        "clef-staves",
        _blocked(lambda: itertools.chain(M.gen_clef(3, 2, 2), M.gen_clef(2, 3, 2), M.gen_clef(3, 2, 1, t0s=(1,))),
                 lambda: itertools.chain(M.gen_clef(3, 3, 2), M.gen_clef(4, 2, 3), M.gen_clef(4, 2, 2, t0s=(2,))), tier, seed),
        bounds="core: staves 1..2 on timeline 0..3 and staves 1..3 on 0..2, per staff every set of <=2 clef positions (also none: "
               "staff present through a note or a higher clef), 3 insertion orders, first point 0 or 1; thorough: 3 staves on 0..3, "
               "<=3 clefs per staff on 0..4, first point 2" + blk))
    # -- measures
    ts_core = [None, ("at0", 4, 4), ("at0", 3, 4), ("at0", 6, 8), ("at0", 2, 2), ("gap", 3, 4)]
    ts_wide = ts_core + [("at0", 3, 8), ("at0", 2, 4), ("at0", 9, 8), ("gap", 2, 4), ("at0", 5, 4)]
    sp.append(Space(
        "measures",
        _blocked(lambda: itertools.chain(
                     M.gen_meas(range(1, 8), (1, 2), ts_core, 4, ("from1", "odd")),
                     M.gen_meas((8, 9, 12), (1, 2, 3), ts_core, 3, ("from0",)),
                     M.gen_meas(range(4, 8), (1,), ts_core[:3], 3, ("from1",), t0s=(2,)),
                     M.gen_meas((6,), (1, 2), ts_core, 3, ("from0",), with_ks_clef=True)),
                 lambda: itertools.chain(
                     M.gen_meas(range(1, 11), (1, 2, 3, 4, 6), ts_wide, 5, ("from1", "from0", "odd")),
                     M.gen_meas((12, 16, 18), (2, 3, 4, 6), ts_wide, 3, ("from1",)),
                     M.gen_meas(range(4, 10), (1, 2), ts_wide, 3, ("from1",), t0s=(1, 3))), tier, seed),
        bounds="core: every tiling of 0..L by <=4 measures for L=1..7 (<=3 for L=8,9,12), quarter duration 1,2(,3), time signature "
               "none / 4/4 3/4 6/8 2/2 at 0 (+ a change at the last barline) / 3/4 starting at the second barline, numbering 1.. / "
               "0.. / irregular with repeats (inserted last-to-first); first point 2 without pickup; with key signature and clef; "
               "notes at every measure start and one division later; thorough: L<=10 with <=5 measures, quarter durations "
               "1,2,3,4,6, 11 signature options, L=12,16,18, first point 1,3" + blk))
    sp.append(Space(
        "measures-quarter-change",
        _blocked(lambda: M.gen_meas_setq(range(4, 9), 3), lambda: M.gen_meas_setq(range(4, 13), 4), tier, seed),
        bounds="core: tilings of 0..L (L=4..8) by 2-3 measures with the quarter duration changing at a later barline "
               "(1->2, 2->1, 2->3), signature none/4/4/3/4/6/8; thorough: L<=12, <=4 measures" + blk))
    # -- the timeline is longer than the measures
    ts_bey = [None, ("at0", 4, 4), ("at0", 3, 4), ("at0", 6, 8), ("gap", 3, 4)]
    sp.append(Space(
        "timeline-beyond-measures",
        _blocked(lambda: itertools.chain(
                     M.gen_meas_beyond(range(2, 6), (1,), ts_bey, 3, (1, 3)),
                     M.gen_meas_beyond((4, 6), (2,), ts_bey, 3, (2,), tail_kinds=("over", "after")),
                     M.gen_meas_beyond(range(2, 6), (1,), ts_bey, 2, (0, 2), leads=(1, 2), tail_kinds=("over", "ks")),
                     M.gen_meas_beyond((4,), (1,), ts_bey[:3], 3, (1,), numberings=("odd",), tail_kinds=("over", "late"))),
                 lambda: itertools.chain(
                     M.gen_meas_beyond(range(1, 9), (1, 2), ts_wide, 3, (1, 2, 4)),
                     M.gen_meas_beyond(range(2, 8), (1, 2), ts_core, 3, (0, 1, 3), leads=(1, 3)),
                     M.gen_meas_beyond((8, 12), (2, 3), ts_core, 3, (3,), numberings=("odd",))), tier, seed, nb=64),
        bounds="the measures do not span the timeline: it goes on d divisions after the final barline E through one of: a note "
               "from the last barline to E+d, a note E..E+d, a note E+d-1..E+d (d>=2), a key signature / clef / 2/4 time "
               "signature at E+d; and/or begins g divisions before the first barline through a note 0..g or a key signature at 0 "
               "(complete first measure only); (g,d) != (0,0). core: every tiling of 0..L (L=2..5) by <=3 measures, quarter "
               "duration 1, time signature none / 4/4 3/4 6/8 at 0 / 3/4 starting at the second barline, d in {1,3} x all 6 ways; "
               "L=4,6 with quarter duration 2, d=2, the two notes; g in {1,2} x d in {0,2} for <=2 measures; irregular numbering "
               "inserted last-to-first for L=4; notes at every measure start and one division later; time-signature and "
               "measure maps (+ key / clef map when such an element is present) and the note-array columns; thorough: L=1..8, "
               "quarter durations 1,2, 11 signature options, d in {1,2,4}; g in {1,3} x d in {0,1,3} for L=2..7; L=8,12 with "
               "quarter durations 2,3, d=3 and irregular numbering" + (" (blocks of 64)" if not thorough else "")))
    # -- notes and rests starting in no measure
    ts_out = [None, ("at0", 3, 4), ("at0", 2, 4), ("gap", 3, 4)]
    sp.append(Space(
        "onsets-outside-measures",
        _blocked(lambda: itertools.chain(
                     M.gen_onsets_outside(range(2, 6), (1,), ts_out, 3,
                                          [(0, 1), (0, 3), (0, 6), (1, 0), (2, 0), (3, 0), (2, 3)], ("both",)),
                     M.gen_onsets_outside((3, 4), (1,), ts_out, 2, [(0, 2), (2, 0)], ("notes", "rests")),
                     M.gen_onsets_outside((4, 6), (2,), ts_out, 2, [(0, 4), (2, 0)], ("both",))),
                 lambda: M.gen_onsets_outside(range(1, 9), (1, 2), ts_wide, 3,
                                              [(0, 1), (0, 2), (0, 4), (0, 9), (1, 0), (2, 0), (4, 0), (1, 2), (3, 5)]),
                 tier, seed, nb=64),
        bounds="notes and rests that START where no measure is: the timeline begins g divisions before the first barline and "
               "goes on d divisions after the final barline E, and an element of one division starts at EVERY position 0..g-1 "
               "and E..E+d-1 - so also exactly 1, 2, .. lengths of the last measure after its start and one length of the first "
               "measure before it (fill 'notes': a note at each, 'rests': a rest at each, 'both': a note and a rest at each; the "
               "outside elements are inserted first (in reverse) or last), besides notes (and rests) at every measure start and "
               "one division later. Compared: the three measure maps at every position (inside the measures with the reference, "
               "elsewhere scalar/array agreement) and the is_downbeat / rel_onset_div / tot_measure_div columns of Part.note_array "
               "AND Part.rest_array: rows starting inside a measure with the reference, rows starting in no measure with what "
               "Part.metrical_position_map returns for that onset (downbeat <=> distance 0). core: every tiling of g..g+L "
               "(L=2..5) by <=3 measures, quarter duration 1, time signature none / 3/4 / 2/4 at 0 / 3/4 starting at the second "
               "barline, (g,d) in (0,1) (0,3) (0,6) (1,0) (2,0) (3,0) (2,3) with fill 'both'; L=3,4 by <=2 measures, (0,2) (2,0), "
               "fills 'notes' and 'rests'; L=4,6 with quarter duration 2, (0,4) (2,0); a part beginning before its first "
               "barline only with a complete first measure; thorough: L=1..8, quarter durations 1,2, 11 signature options, "
               "(g,d) in (0,1) (0,2) (0,4) (0,9) (1,0) (2,0) (4,0) (1,2) (3,5), all three fills"
               + (" (blocks of 64)" if not thorough else "")))
    # -- the optional columns under every combination of the array options, through every way of getting an array
    ts_arr = [None, ("at0", 3, 4), ("at0", 6, 8), ("gap", 3, 4)]
    wide_entries = dict((k, M.ARRAY_ENTRIES[k] + M.ARRAY_ENTRIES_WIDE[k]) for k in M.ARRAY_ENTRIES)
    sp.append(Space(
        "array-option-combinations",
        _blocked(lambda: M.gen_array_options((4,), (1,), 2, ts_arr, cycle_ks=True),
                 lambda: itertools.chain(
                     M.gen_array_options((3, 4, 5), (1,), 3, ts_arr + [("at0", 2, 2)], entries=wide_entries),
                     M.gen_array_options((4,), (2,), 3, ts_arr + [("at0", 2, 2)], entries=wide_entries)),
                 tier, seed, nb=125),
        bounds="the key-signature / time-signature / metrical-position columns of note arrays AND rest arrays under EVERY "
               "subset of the boolean options of the call (note arrays: include_pitch_spelling, include_key_signature, "
               "include_time_signature, include_metrical_position, include_grace_notes, include_staff, "
               "include_divs_per_quarter = 128 subsets, 64 for the part-list / group / score forms, which always compute the "
               "divisions per quarter; rest arrays: the first six + collapse = 128, 64 for the part-list / group forms, which "
               "have no include_metrical_position; every option passed explicitly as True/False), obtained "
               "through every entry point: Part.note_array, note_array_from_part, note_array_from_part_list([A, B]), "
               "PartGroup.note_array (children A, B), Score.note_array (parts A, B), Part.rest_array, rest_array_from_part, "
               "rest_array_from_part_list([A, B]), PartGroup.rest_array (children A, B). Every requested column must be "
               "present and hold, in every row, the reference value at the onset of that row's element in that row's OWN "
               "part (rows are identified by id, 'Pnn_' prefixes accepted; with collapse=True any non-empty subset of the "
               "rests may remain). Part A: every tiling of 0..L by measures, time signature none / 3/4 / 6/8 at 0 with a "
               "change at the last barline / 3/4 starting at the second barline, key signatures none / one at 0 / one at 2 / "
               "two (0 and 3), a note and a rest of one division at EVERY position (rests on staves 1/2, voices 1/2), "
               "signatures inserted first or last; part B (fixed per quarter duration): 5/4 then 7/8, 6 flats minor then 6 "
               "sharps, pickup of one division. The three map families of A are also queried at every position as in the "
               "other spaces. (One case fixes the first three options and enumerates the others: 8 cases make one "
               "(part, entry point).) core: L=4, <=2 measures, quarter duration 1, the key-signature option cycled over the "
               "parts; thorough: L=3..5, <=3 measures, + 2/2, L=4 also with quarter duration 2, all four key-signature options "
               "for every part, and the forms note_array_from_part_list([A]) / ([B, A]), Score.note_array([A]), "
               "rest_array_from_part_list([A]) / ([B, A])" + (" (blocks of 125: coprime with the 8 cases of one (part, entry point))" if not thorough else "")))
    # -- large magnitudes: the small families scaled and shifted, and long regular parts
    def long_cases():
        core = list(itertools.chain(M.gen_long((30, 300), (1, 480, 10080)),
                                    M.gen_long((1100,), (480, 1), variants=None)))
        seen = set(_key(c) for c in core)
        wide = [c for c in itertools.chain(M.gen_long((30, 300, 1100), (1, 2, 480, 960, 10080, 302400)),
                                           M.gen_long((2600,), (480, 1), variants=None)) if _key(c) not in seen]
        # the most expensive first, so that they do not end the run
        return core + (sorted(wide, key=lambda c: -c["long"][0]) if thorough else [])

    sp.append(Space(
        "large-magnitudes",
        lambda: M.interleave(_blocked(lambda: M.gen_magnitude(), lambda: M.gen_magnitude(wide=True), tier, seed, nb=64)(),
                             long_cases(), 160),
        bounds="(a) MAGNITUDE dimension over the small families: every time t of a base part becomes off + f * t and the quarter "
               "duration q becomes f * q (bars, pickups and signatures keep their meaning), for EVERY pair of f in {1, 480, "
               "10080, 302400} and off in {0, 2**16+1, 2**24+1, 2**31+1} except (1, 0) - so time points up to 2**31 + 3.6e6, "
               "bars of up to 1.8e6 divisions. Where the base part has notes, a note of ONE division is added that ends at every "
               "signature / clef start and every barline (it starts one division before it); beyond int32 (off = 2**31+1) notes "
               "and rests are left out (a note array cannot hold such onsets) and the other elements frame the timeline; parts "
               "starting at t>0 only without pickup. Queried (all 9 argument forms, all clauses of the other spaces incl. the "
               "note-array columns): every position within 3 divisions of a time point of the part (element start, barline, "
               "note onset / end) and the midpoint between neighbouring time points, inside first..last time point. core base "
               "parts: <=2 time signatures (3 values) / key signatures (4 values; pairs of 3) on every set of positions of 0..2, "
               "framed by a note or bare, notes per position; one clef per staff on <=2 staves of 0..2; every tiling of 0..L "
               "(L=1..4) by <=3 measures with quarter duration 1,2 and 6 signature options (incl. pickups, a change at the last "
               "barline, a signature starting at the second barline); L=4 with key signature, clef and irregular numbering; L=3,4 "
               "by <=2 measures with the timeline going on 2 divisions (of the base) after / beginning 1 before the measures; a "
               "quarter-duration change at a later barline (L=4); thorough: <=3 time signatures of 3 values on 0..3 / 1..3 and <=2 of 4 values "
               "on 0..4, all 46 single key signatures and pairs of 4 on 0..3 / 1..3, <=2 clefs per staff on 0..3 and 3 staves, "
               "tilings of L<=8 by <=4 measures with quarter durations 1,2,3 and 8 signature options, L=6 with key signature "
               "and clef, all 6 ways of going on after the final barline with d in {1,3} for L=2..4 by <=3 measures, quarter "
               "changes for L<=7" + (" (blocks of 64)" if not thorough else "") + ". "
               "(b) LONG regular parts of n measures with quarter duration q (spread among the cases of (a)): the time signature "
               "changes every 7 measures (4/4 3/4 6/8 5/4 2/2 in turn), the key signature every 5 (fifths -7..7 in turn, modes "
               "major / minor / missing in turn), the clef of staff 1 every 4 (10 values in turn), staff 2 gets its only clef at "
               "the fourth barline, staff 3 has none; every 11th measure is one division short; a note of one division starts at "
               "every barline and one division before every barline (staves 1,2,3 in turn); variants: plain / first measure a "
               "pickup of one quarter numbered 0 with signatures inserted last / every time shifted by 2**16+1. All six maps and "
               "the note-array columns; queried: every position within 1 division of a time point and the midpoints. Both tiers: n "
               "in {30, 300} x q in {1, 480, 10080} x 3 variants, n=1100 with q=480 plain and q=1 pickup (timelines up to 1.2e7 "
               "divisions, 2200 notes); thorough adds n in {30, 300, 1100} x q in {1, 2, 480, 960, 10080, 302400} x 3 variants, "
               "n=2600 with q=480 plain and q=1 pickup"))
    # -- a caller writes into a returned array and asks again
    sp.append(Space(
        "write-into-result-then-query",
        _blocked(lambda: M.gen_requery(), lambda: M.gen_requery(wide=True), tier, seed, nb=64),
        bounds="parts: <=2 key signatures (6 values; pairs of 3) / <=2 time signatures (3 values) on every set of positions of 0..3 "
               "and 1..3, framed by a note or bare; one clef per staff on <=2 staves of 0..2 and <=2 per staff on 0..1; every tiling "
               "of 0..L (L=1..5) by <=3 measures with 4 signature options, L=6 with quarter duration 2, key signature and clef; "
               "L=3,4 by <=2 measures with the timeline going on 2 divisions after / beginning 1 before the measures; the 5 + 8 "
               "base parts of the in-place and edit spaces. For every compared map ONE map object is kept; each query form in "
               "turn (int scalar at every position, numpy scalar at the middle one, array of all positions, reversed array, list, "
               "one-element array, empty array) is the victim: every array it returned is overwritten in place (+37; skipped when "
               "numpy marks it read-only); after a scalar victim the same position is queried again, after a vector victim the "
               "array of all positions; after the last scalar and after the last vector victim every position is queried again "
               "as scalar and in one array, at the end also on a freshly fetched map; thorough: <=3 key signatures (all 46 single "
               "values, pairs of 4, triples of 3) on 0..4 / 2..4, <=2 time signatures of 4 values, <=2 clefs per staff on 0..3, 3 "
               "staves, tilings of L<=8 by <=4 measures, quarter durations 1,2, L=2..6 with d in {0,1,3}, g in {0,2}"
               + (" (blocks of 64)" if not thorough else "")))
    # -- edits
    sp.append(Space(
        "edit-then-query",
        _blocked(lambda: M.gen_edits(6), lambda: itertools.chain(M.gen_edits(6, wide=True), M.gen_edits(8)), tier, seed, nb=16),
        bounds="core: 6 base parts (no / one at 0 / one later / two elements of each kind; a clef that is the only element of the top staff 2 or 3; two measures, timeline 0..6) queried, then "
               "one edit (add a time signature, key signature, clef on staff 1/2/3 at every position, a note on a new staff, an "
               "appended measure, a note sounding 2 divisions over the final barline, a key signature after it, or remove one "
               "element), then queried again; thorough: every ordered pair of edits (3 phases) and "
               "timeline 0..8" + (" (blocks of 16)" if not thorough else "")))
    # -- in-place changes (no Part.add / Part.remove between two queries)
    allmaps = ("ts", "ks", "clef", "meas")
    sp.append(Space(
        "inplace-then-query",
        _blocked(lambda: itertools.chain(M.gen_inplace_single(), M.gen_inplace_ts(2),
                                         M.gen_inplace_ts(3, alphabet=("mode",), min_depth=3)),
                 lambda: itertools.chain(M.gen_inplace_ts(2, alphabet=("mode", "ts", "other"), maps=allmaps),
                                         M.gen_inplace_ts(3)), tier, seed, nb=32),
        bounds="5 base parts (6/8+2/4 with two of every kind on two staves, quarter=2; one 3/4 after the first point; 3/4+4/4 with "
               "pickup; one 12/8; no signature) are queried, then changed WITHOUT Part.add/Part.remove and queried again after every "
               "step. Steps: use_musical_beat({} | dict naming all / the first / the last signature), use_notated_beat(), "
               "set_musical_beat_per_ts({} | 2 dicts); per time signature: assign beats (6<->2, 3<->9, 4<->12: same documented "
               "musical beats), beat_type (4<->8), beats+musical_beats (5, 5), musical_beats alone, Part.remove; Part.add of a 5/4 "
               "at 3 free positions; per key signature: assign fifths, mode; per clef: sign, line+octave_change, staff (1<->2); per "
               "measure: number; Part.add of a key signature / clef. core: every single step with all map families; every "
               "sequence of 2 steps over the beat-mode + time-signature steps and every sequence of 3 beat-mode steps with the "
               "time-signature map and ts_* note-array columns; thorough: every sequence of 2 steps over the whole alphabet with "
               "all families, every sequence of 3 beat-mode + time-signature steps. Not generated (documentation open): "
               "use_musical_beat while already in use / use_notated_beat while not, use_musical_beat() on hand-set musical "
               "beats, beats assigned without a documented-consistent musical_beats, a signature added after a dict naming it, "
               "in-place changes of the number of staves; measure family only where the pickup rule has one reading and "
               "(MEASURES_WITH_MUSICAL_BEAT=False) not while musical beats are in use" + (" (blocks of 32)" if not thorough else "")))
    return sp


def _staves_changed_after_first_query(case, v):
    """The number of staves after the failing phase differs from the number at the first query
    (Part caches number_of_staves on first use) and the violation is the missing/extra clef row."""
    if not str(v.get("observed", "")).startswith("shape") or not v.get("detail", "").startswith("phase "):
        return False
    k = int(v["detail"].split()[1])
    st = M.State(case["q"])
    nst = []
    for ph in case["phases"]:
        for op in ph:
            st.apply(op)
        nst.append(st.nstaves())
    return 1 <= k < len(nst) and nst[k] != nst[0]


# only used if the coordinator prefers a known-finding entry over C10-number-of-staves-cache.diff
TRIGGERS = {"staves_changed_after_first_query": _staves_changed_after_first_query}


if __name__ == "__main__":
    import checks.c10 as _m

    run_check(_m)
