"""C01 - a part is a consistent time-ordered collection under any edit history.

Explicit-state BFS over histories of add/remove/set_quarter_duration/get_or_add_point on a real
`partitura.score.Part`, in lock-step with a reference timeline (DESIGN section 4, C01).
"""
import sys
from collections import Counter

from mc.core import CaseResult, Space, run_check, ensure_repo_on_path, innermost_partitura_frame, exc_text
from mc import explorer

PID = "C01"
RULE = (
    "BFS over operation histories on a real Part; a state is distinct by canonical key (object "
    "placement, quarter table, empty points); non-trivial = the state has at least one time point"
)
ASSUMPTIONS = [
    "add(o, ...) is only issued for a side of o that is currently unset, with start <= end",
    "empty points created by an explicit get_or_add_point are allowed (not required) to persist",
    "order of objects inside one time point is not compared",
    "a set_quarter_duration(t, q) that changes nothing (no change point at t, q already in force) does not create a change point (docstring: redundant settings are not recorded)",
    "read-only queries are interleaved by replaying every history a second time with a fixed light query sweep after every operation",
]
CHUNK = 8

# object pool: letter -> constructor
def _mk(letter, i):
    import partitura.score as S

    if letter == "N":
        return S.Note("C", 4, id="n%d" % i, voice=1)
    if letter == "G":
        return S.GraceNote("grace", "D", 4, id="g%d" % i, voice=1)
    if letter == "R":
        return S.Rest(id="r%d" % i, voice=1)
    if letter == "M":
        return S.Measure(number=i + 1)
    if letter == "T":
        return S.TimeSignature(3, 4)
    if letter == "L":
        return S.ConstantLoudnessDirection("f")
    if letter == "S":
        return S.Slur()
    raise ValueError(letter)


def _query_classes(pool):
    import partitura.score as S

    base = [None, S.TimedObject, S.GenericNote, S.Note]
    m = {"N": [], "G": [S.GraceNote], "R": [S.Rest], "M": [S.Measure], "T": [S.TimeSignature],
         "L": [S.ConstantLoudnessDirection, S.Direction, S.LoudnessDirection, S.ConstantDirection],
         "S": [S.Slur]}
    for l in sorted(set(pool)):
        for c in m[l]:
            if c not in base:
                base.append(c)
    return base


class Ref(object):
    """Reference timeline: object -> (start, end); quarter changes; allowed empty points."""

    def __init__(self, n):
        self.se = [[None, None] for _ in range(n)]
        self.q = {0: 1}
        self.empty = set()

    def point_times(self):
        ts = set()
        for s, e in self.se:
            if s is not None:
                ts.add(s)
            if e is not None:
                ts.add(e)
        return ts

    def qf(self, t):
        ks = sorted(self.q)
        v = self.q[ks[0]]
        for k in ks:
            if k <= t:
                v = self.q[k]
        return v

    def apply(self, op):
        k = op[0]
        if k == "add":
            _, i, s, e = op
            if s is not None:
                self.se[i][0] = s
                self.empty.discard(s)
            if e is not None:
                self.se[i][1] = e
                self.empty.discard(e)
        elif k == "rm":
            _, i, which = op
            if which in ("start", "both"):
                self.se[i][0] = None
            if which in ("end", "both"):
                self.se[i][1] = None
            # an empty point is removed by the implementation's clean-up; a point that was
            # explicitly created and never used stays allowed
        elif k == "setq":
            _, t, q = op
            # value in force from t up to the next later change, and nothing else.  A setting that does not
            # change anything (no change point at t yet and q already in force there) is not a change point:
            # the statement speaks of "the next later change" and the docstring of set_quarter_duration says
            # redundant settings are not recorded, so a later setting at an earlier time extends through t.
            if t in self.q or q != self.qf(t):
                self.q[t] = q
        elif k == "goap":
            _, t = op
            if t not in self.point_times():
                self.empty.add(t)

    def enabled(self, T, Q):
        ops = []
        Tn = [None] + list(T)
        for i, (s0, e0) in enumerate(self.se):
            for s in Tn:
                if s is not None and s0 is not None:
                    continue
                for e in Tn:
                    if e is not None and e0 is not None:
                        continue
                    if s is None and e is None:
                        continue
                    ss = s if s is not None else s0
                    ee = e if e is not None else e0
                    if ss is not None and ee is not None and ss > ee:
                        continue
                    ops.append(["add", i, s, e])
            for which in ("start", "end", "both"):
                ops.append(["rm", i, which])
        for t in T:
            for q in Q:
                ops.append(["setq", t, q])
        for t in T:
            ops.append(["goap", t])
        return ops


def impl_apply(part, objs, op):
    k = op[0]
    if k == "add":
        _, i, s, e = op
        part.add(objs[i], start=s, end=e)
    elif k == "rm":
        _, i, which = op
        part.remove(objs[i], which)
    elif k == "setq":
        part.set_quarter_duration(op[1], op[2])
    elif k == "goap":
        tp = part.get_or_add_point(op[1])
        if tp is None or tp.t != op[1]:
            raise AssertionError("get_or_add_point(%r) returned %r" % (op[1], tp))


def light_sweep(part):
    """A handful of read-only queries that visit every per-class registry of every point (they are
    the queries of a client that looks at the part between edits); results are checked by the full
    sweep elsewhere - here only their side effects on later operations matter."""
    import partitura.score as S

    n = 0
    for mode in ("starting", "ending"):
        for o in part.iter_all(S.TimedObject, include_subclasses=True, mode=mode):
            n += 1
        for o in part.iter_all(S.Rest, mode=mode):
            n += 1
    fp, lp = part.first_point, part.last_point
    if fp is not None:
        for o in fp.iter_next(S.Slur, eq=True):
            n += 1
        for o in lp.iter_prev(S.GenericNote, eq=True, include_subclasses=True):
            n += 1
    return n


def build(pool, hist, querying=False):
    import partitura.score as S

    part = S.Part("P0")
    objs = [_mk(l, i) for i, l in enumerate(pool)]
    ref = Ref(len(pool))
    for op in hist:
        impl_apply(part, objs, op)
        ref.apply(op)
        if querying:
            light_sweep(part)
    return part, objs, ref


_KNOWN_PART_ATTRS = ("_points", "_quarter_times", "_quarter_durations")


def _enc_hidden(v, pts_ids, depth=0):
    """encode an instance attribute that the model does not know about, so that two implementation
    states that differ in it are never merged by the search (a wrong merge hides bugs silently)"""
    import numpy as np

    if v is None or isinstance(v, (bool, int, str, float)):
        return v
    if isinstance(v, (np.integer, np.floating)):
        return v.item()
    if hasattr(v, "t") and hasattr(v, "starting_objects"):
        return ("tp", int(v.t), id(v) in pts_ids)
    if isinstance(v, (list, tuple)) and depth < 3:
        return tuple(_enc_hidden(x, pts_ids, depth + 1) for x in v)
    if isinstance(v, dict) and depth < 3:
        return tuple(sorted((repr(k), _enc_hidden(x, pts_ids, depth + 1)) for k, x in v.items()))
    if isinstance(v, np.ndarray) and depth < 3:
        return tuple(_enc_hidden(x, pts_ids, depth + 1) for x in v.tolist())
    return type(v).__name__


def impl_key(part, objs):
    pts_ids = {id(tp) for tp in part._points}
    hidden = tuple(sorted((k, _enc_hidden(v, pts_ids)) for k, v in vars(part).items() if k not in _KNOWN_PART_ATTRS))
    hidden_tp = tuple(
        tuple(sorted((k, _enc_hidden(v, pts_ids)) for k, v in vars(tp).items()
                     if k not in ("t", "quarter", "prev", "next", "starting_objects", "ending_objects")))
        for tp in part._points)
    pl = [("hidden", hidden, hidden_tp)]
    for i, o in enumerate(objs):
        pl.append((i, None if o.start is None else int(o.start.t), None if o.end is None else int(o.end.t)))
    qt = tuple((int(a), int(b)) for a, b in zip(part._quarter_times, part._quarter_durations))
    empties = []
    for tp in part._points:
        n = sum(len(v) for v in tp.starting_objects.values()) + sum(len(v) for v in tp.ending_objects.values())
        if n == 0:
            empties.append(int(tp.t))
    return (tuple(pl), qt, tuple(empties))


def snapshot(part, objs):
    """Full observable snapshot used for the atomicity clause."""
    pts = []
    for tp in part._points:
        pts.append((tp.t, tp.quarter, id(tp.prev) if tp.prev is not None else None,
                    id(tp.next) if tp.next is not None else None,
                    tuple(sorted((c.__name__, tuple(id(o) for o in v)) for c, v in tp.starting_objects.items() if len(v))),
                    tuple(sorted((c.__name__, tuple(id(o) for o in v)) for c, v in tp.ending_objects.items() if len(v)))))
    return (tuple(pts), tuple(part._quarter_times), tuple(part._quarter_durations),
            tuple((id(o.start) if o.start is not None else None, id(o.end) if o.end is not None else None) for o in objs))


def structural(res, part, objs, ref, ctx):
    """Clause (i): structure of the timeline against the model. Returns True if consistent."""
    ok = True

    def bad(clause, exp, obs):
        nonlocal ok
        ok = False
        res.fail(clause, expected=exp, observed=obs, where="Part._points", detail=ctx)

    pts = list(part._points)
    ts = [tp.t for tp in pts]
    if any((not isinstance(t, (int,)) and not hasattr(t, "__index__")) or t < 0 for t in ts):
        bad("points-nonnegative-int", "non-negative ints", ts)
    if any(ts[i] >= ts[i + 1] for i in range(len(ts) - 1)):
        bad("points-strictly-increasing", "strictly increasing", ts)
    # links
    for i, tp in enumerate(pts):
        exp_prev = pts[i - 1] if i > 0 else None
        exp_next = pts[i + 1] if i + 1 < len(pts) else None
        if tp.prev is not exp_prev:
            bad("links", "point[%d].prev is point[%d]" % (i, i - 1) if i else "first.prev is None",
                "prev.t=%r" % (getattr(tp.prev, "t", None),))
            break
        if tp.next is not exp_next:
            bad("links", "point[%d].next is point[%d]" % (i, i + 1) if exp_next is not None else "last.next is None",
                "next.t=%r" % (getattr(tp.next, "t", None),))
            break
    # registries
    listed_s = Counter()
    listed_e = Counter()
    idx = {id(o): i for i, o in enumerate(objs)}
    for tp in pts:
        for side, reg, cnt in (("start", tp.starting_objects, listed_s), ("end", tp.ending_objects, listed_e)):
            for cls, oo in reg.items():
                for o in oo:
                    if type(o) is not cls:
                        bad("registry-class", cls.__name__, type(o).__name__)
                    if id(o) not in idx:
                        bad("registry-foreign-object", "only pool objects", repr(o))
                        continue
                    cnt[(idx[id(o)], tp.t)] += 1
                    if getattr(o, side) is not tp:
                        bad("object-refers-to-listing-point", "o.%s is the point listing it (t=%d)" % (side, tp.t),
                            "o.%s.t=%r" % (side, getattr(getattr(o, side), "t", None)))
    for i, (s, e) in enumerate(ref.se):
        o = objs[i]
        for side, mt, cnt in (("start", s, listed_s), ("end", e, listed_e)):
            got = [(k, c) for k, c in cnt.items() if k[0] == i]
            if mt is None:
                if getattr(o, side) is not None or got:
                    bad("registered-set", "object %d has no %s" % (i, side),
                        "o.%s.t=%r listed=%r" % (side, getattr(getattr(o, side), "t", None), got))
            else:
                if got != [((i, mt), 1)]:
                    bad("registered-set", "object %d listed once as %s at t=%d" % (i, side, mt), got)
                elif getattr(o, side) is None or getattr(o, side).t != mt:
                    bad("registered-set", "o.%s.t == %d" % (side, mt), getattr(getattr(o, side), "t", None))
    # never empty (except explicitly created points)
    have = ref.point_times()
    for tp in pts:
        n = sum(len(v) for v in tp.starting_objects.values()) + sum(len(v) for v in tp.ending_objects.values())
        if n == 0 and tp.t not in ref.empty:
            bad("points-never-empty", "no empty point at t=%d" % tp.t, ts)
    missing = sorted(have - set(ts))
    if missing:
        bad("points-exist", "points at %r" % sorted(have), ts)
    # quarter in force
    for tp in pts:
        if tp.quarter != ref.qf(tp.t):
            bad("point-quarter-in-force", "t=%d quarter=%d" % (tp.t, ref.qf(tp.t)), "quarter=%r" % (tp.quarter,))
            break
    return ok


def _group(objs_iter, side):
    """time-ordered list of (t, sorted ids)"""
    out = []
    for o in objs_iter:
        t = getattr(o, side).t
        if out and out[-1][0] == t:
            out[-1][1].append(id(o))
        else:
            out.append([t, [id(o)]])
    return [(t, sorted(v)) for t, v in out]


def queries(res, part, objs, ref, T, pool, ctx, deep_none=True):
    """Clause (ii): every query combination against the model."""
    import numpy as np
    import partitura.score as S

    nq = 0
    classes = _query_classes(pool)
    Tq = [None] + list(T) + [max(T) + 1]

    def expect(cls, incl, side_idx, lo, hi):
        out = {}
        for i, se in enumerate(ref.se):
            t = se[side_idx]
            if t is None:
                continue
            if lo is not None and t < lo:
                continue
            if hi is not None and t >= hi:
                continue
            o = objs[i]
            if cls is None:
                pass
            elif incl:
                if not isinstance(o, cls):
                    continue
            elif type(o) is not cls:
                continue
            out.setdefault(t, []).append(id(o))
        return [(t, sorted(v)) for t, v in sorted(out.items())]

    for cls in classes:
        for incl in (False, True):
            for mode in ("starting", "ending"):
                side = "start" if mode == "starting" else "end"
                sidx = 0 if mode == "starting" else 1
                for s in Tq:
                    for e in Tq:
                        if s is not None and e is not None and s > e:
                            continue
                        if cls is None and (incl or not deep_none or (s, e) not in ((None, None), (1, 3), (2, None))):
                            # cls=None walks every subclass of `object` (milliseconds per point): it is
                            # the include_subclasses path with cls=object, so three interval shapes on
                            # the states of depth <= 1 suffice for the dispatch it adds
                            continue
                        forms = [(s, e)]
                        if cls is None or (cls is S.TimedObject and incl):
                            forms.append((None if s is None else S.TimePoint(s), None if e is None else S.TimePoint(e)))
                        for fs, fe in forms:
                            nq += 1
                            try:
                                got = _group(part.iter_all(cls, fs, fe, include_subclasses=incl, mode=mode), side)
                            except Exception as ex:
                                res.fail("query-iter_all", kind="exception", where=innermost_partitura_frame(ex),
                                         observed=exc_text(ex), detail=ctx)
                                return nq
                            exp = expect(cls, incl, sidx, s, e)
                            if got != exp:
                                m = {id(o): i for i, o in enumerate(objs)}
                                res.fail("query-iter_all",
                                         expected=[(t, [m[x] for x in v]) for t, v in exp],
                                         observed=[(t, [m.get(x, "?") for x in v]) for t, v in got],
                                         where="Part.iter_all",
                                         detail="%s cls=%s start=%r end=%r incl=%r mode=%s" % (
                                             ctx, getattr(cls, "__name__", None), s, e, incl, mode))
                                return nq
    # neighbours
    pts = list(part._points)
    m = {id(o): i for i, o in enumerate(objs)}
    for tp in pts:
        for cls in classes[1:]:
            for incl in (False, True):
                for eq in (False, True):
                    nq += 2
                    t = tp.t
                    exp_prev = list(reversed(expect(cls, incl, 0, None, t + 1 if eq else t)))
                    exp_next = expect(cls, incl, 0, t if eq else t + 1, None)
                    try:
                        got_prev = _group(tp.iter_prev(cls, eq=eq, include_subclasses=incl), "start")
                        got_next = _group(tp.iter_next(cls, eq=eq, include_subclasses=incl), "start")
                    except Exception as ex:
                        res.fail("query-neighbours", kind="exception", where=innermost_partitura_frame(ex),
                                 observed=exc_text(ex), detail=ctx)
                        return nq
                    if got_prev != exp_prev or got_next != exp_next:
                        res.fail("query-neighbours",
                                 expected=dict(prev=[(a, [m[x] for x in v]) for a, v in exp_prev],
                                               next=[(a, [m[x] for x in v]) for a, v in exp_next]),
                                 observed=dict(prev=[(a, [m.get(x, "?") for x in v]) for a, v in got_prev],
                                               next=[(a, [m.get(x, "?") for x in v]) for a, v in got_next]),
                                 where="TimePoint.iter_prev/iter_next",
                                 detail="%s from t=%d cls=%s eq=%r incl=%r" % (ctx, t, cls.__name__, eq, incl))
                        return nq
    # first / last / get_point
    ts = sorted(ref.point_times())
    try:
        fp, lp = part.first_point, part.last_point
        impl_ts = [tp.t for tp in pts]
        nq += 2
        if impl_ts:
            if fp is not pts[0] or lp is not pts[-1]:
                res.fail("query-first-last", expected="first/last of the point array", observed=(getattr(fp, "t", None), getattr(lp, "t", None)), detail=ctx)
        else:
            if fp is not None or lp is not None:
                res.fail("query-first-last", expected=None, observed=(getattr(fp, "t", None), getattr(lp, "t", None)), detail=ctx)
        for t in list(T) + [max(T) + 1]:
            nq += 1
            g = part.get_point(t)
            if t in ts:
                if g is None or g.t != t or not any(g is p for p in pts):
                    res.fail("query-get_point", expected="the point at t=%d" % t, observed=getattr(g, "t", None), detail=ctx)
            elif t in ref.empty:
                if g is not None and (g.t != t or not any(g is p for p in pts)):
                    res.fail("query-get_point", expected="None or the point at t=%d" % t, observed=getattr(g, "t", None), detail=ctx)
            elif g is not None:
                res.fail("query-get_point", expected=None, observed=getattr(g, "t", None), detail=ctx)
    except Exception as ex:
        res.fail("query-points", kind="exception", where=innermost_partitura_frame(ex), observed=exc_text(ex), detail=ctx)
        return nq
    # quarter durations
    try:
        Tx = list(T) + [max(T) + 1, max(T) + 5]
        qd = part.quarter_durations()
        nq += 1
        qt = [int(x) for x in qd[:, 0]]
        if any(qt[i] >= qt[i + 1] for i in range(len(qt) - 1)):
            res.fail("quarter-table", expected="strictly increasing change times", observed=qd.tolist(), detail=ctx)
        else:
            def f_tab(t):
                v = int(qd[0, 1])
                for a, b in qd:
                    if a <= t:
                        v = int(b)
                return v
            for t in Tx:
                if f_tab(t) != ref.qf(t):
                    res.fail("quarter-in-force", expected="q(%d)=%d" % (t, ref.qf(t)),
                             observed="table %r" % (qd.tolist(),), where="Part.quarter_durations", detail=ctx)
                    break
            # sub-range selection is consistent with the full table
            for s in T:
                for e in T:
                    nq += 1
                    sub = part.quarter_durations(s, e)
                    exp = [r for r in qd.tolist() if s <= r[0] < e]
                    if sub.tolist() != exp:
                        res.fail("quarter-table-range", expected=exp, observed=sub.tolist(), detail="%s start=%d end=%d" % (ctx, s, e))
                        break
        qm = part.quarter_duration_map
        for t in Tx:
            nq += 1
            v = qm(t)
            if int(v) != ref.qf(t):
                res.fail("quarter-in-force", expected="quarter_duration_map(%d)=%d" % (t, ref.qf(t)), observed=float(v),
                         where="Part.quarter_duration_map", detail=ctx)
                break
        nq += 1
        va = qm(np.array(Tx))
        if [int(x) for x in va] != [ref.qf(t) for t in Tx]:
            res.fail("quarter-in-force", expected=[ref.qf(t) for t in Tx], observed=va.tolist(),
                     where="Part.quarter_duration_map(array)", detail=ctx)
    except Exception as ex:
        res.fail("query-quarter", kind="exception", where=innermost_partitura_frame(ex), observed=exc_text(ex), detail=ctx)
    return nq


def eval_long(case):
    """one long timeline (magnitude dimension): N notes, each `step` divisions long, `gap` divisions apart, starting
    at `base`; the structural clauses and the neighbour / range queries of the statement on the whole timeline, after
    adding everything, after removing every other note, and after removing the rest"""
    import sys
    import partitura.score as S

    res = CaseResult(states=0, transitions=0, traces=1)
    N, step, gap, base = case["N"], case["step"], case["gap"], case["base"]
    ctx = "long N=%d step=%d gap=%d base=%d" % (N, step, gap, base)
    limit0 = sys.getrecursionlimit()
    part = S.Part("P1")
    notes = []

    def fail(clause, expected, observed, where):
        res.fail(clause, expected=expected, observed=observed, where=where, detail=ctx)

    def check(tag, present):
        """present: list of (note, start, end) that must be on the timeline"""
        res.states += 1
        c = ctx + " " + tag
        times = sorted(set(t for _n, a, b in present for t in (a, b)))
        pts = list(part._points)
        got = [int(p.t) for p in pts]
        if got != times:
            fail("points-sorted-distinct-nonempty", times[:5] + ["..."] + times[-5:], got[:5] + ["..."] + got[-5:], "Part._points " + tag)
            return
        for i, p in enumerate(pts):
            if (p.prev is not (pts[i - 1] if i else None)) or (p.next is not (pts[i + 1] if i + 1 < len(pts) else None)):
                fail("prev-next-links", "neighbours in the array", "link mismatch at index %d" % i, "TimePoint.prev/next " + tag)
                return
        if not pts:
            if part.first_point is not None or part.last_point is not None:
                fail("first-last-point", None, "not None", "Part.first_point " + tag)
            return
        if part.first_point is not pts[0] or part.last_point is not pts[-1]:
            fail("first-last-point", "ends of the array", "other", "Part.first_point " + tag)
        exp_ids = [id(n) for n, a, b in sorted(present, key=lambda x: x[1])]
        try:
            allq = [id(o) for o in part.iter_all(S.Note)]
            fwd = [id(o) for o in pts[0].iter_next(S.Note, eq=True)]
            bwd = [id(o) for o in pts[-1].iter_prev(S.Note, eq=True)]
            mid = pts[len(pts) // 2]
            fwd_mid = [id(o) for o in mid.iter_next(S.Note)]
            a, b = times[len(times) // 4], times[(3 * len(times)) // 4]
            win = [id(o) for o in part.iter_all(S.Note, a, b)]
            win_end = [id(o) for o in part.iter_all(S.Note, a, b, mode="ending")]
        except Exception as ex:  # noqa
            res.fail("queries-total", kind="exception", where=innermost_partitura_frame(ex), observed=exc_text(ex), detail=c)
            return
        res.transitions += 6
        if allq != exp_ids:
            fail("iter_all-order", len(exp_ids), len(allq), "Part.iter_all " + tag)
        if fwd != exp_ids:
            fail("iter_next-complete", len(exp_ids), len(fwd), "TimePoint.iter_next " + tag)
        if sorted(bwd) != sorted(exp_ids) or len(bwd) != len(exp_ids):
            fail("iter_prev-complete", len(exp_ids), len(bwd), "TimePoint.iter_prev " + tag)
        exp_mid = [id(n) for n, s0, e0 in sorted(present, key=lambda x: x[1]) if s0 > mid.t]
        if fwd_mid != exp_mid:
            fail("iter_next-strictly-later", len(exp_mid), len(fwd_mid), "TimePoint.iter_next " + tag)
        exp_win = [id(n) for n, s0, e0 in sorted(present, key=lambda x: x[1]) if a <= s0 < b]
        if win != exp_win:
            fail("iter_all-window", len(exp_win), len(win), "Part.iter_all[start,end) " + tag)
        exp_we = sorted(id(n) for n, s0, e0 in present if a <= e0 < b)
        if sorted(win_end) != exp_we:
            fail("iter_all-window-ending", len(exp_we), len(win_end), "Part.iter_all[mode=ending] " + tag)
        for n, s0, e0 in (present[0], present[len(present) // 2], present[-1]):
            if n.start is None or n.end is None or n.start.t != s0 or n.end.t != e0:
                fail("object-positions", [s0, e0], [getattr(n.start, "t", None), getattr(n.end, "t", None)], "TimedObject.start/end " + tag)

    present = []
    try:
        for i in range(N):
            n = S.Note("C", 4, id="n%d" % i)
            s0 = base + i * (step + gap)
            part.add(n, s0, s0 + step)
            notes.append(n)
            present.append((n, s0, s0 + step))
        res.transitions += N
        check("after adding", present)
        if not res.violations:
            keep = [x for k, x in enumerate(present) if k % 2 == 0]
            for k, (n, _a, _b) in enumerate(present):
                if k % 2:
                    part.remove(n)
            res.transitions += N // 2
            check("after removing every other note", keep)
        if not res.violations:
            for n, _a, _b in keep:
                part.remove(n)
            res.transitions += len(keep)
            check("after removing everything", [])
    except Exception as ex:  # noqa
        res.fail("operation-total", kind="exception", where=innermost_partitura_frame(ex), observed=exc_text(ex), detail=ctx)
    if sys.getrecursionlimit() != limit0:
        sys.setrecursionlimit(limit0)
    res.outcome = "long:%d" % N
    res.nontrivial = True
    return res


_LATE_COUNTER = [0]


def eval_latecls(case):
    """classes defined by the user after the library (and after earlier queries): an object of a class that is defined
    `parent`-below one of the library's classes only after queries with include_subclasses have already been made is
    found by every later query on every base class of it, exactly once"""
    import partitura.score as S

    res = CaseResult(states=1, transitions=0, traces=1)
    parent = getattr(S, case["parent"])
    bases = [getattr(S, b) for b in case["bases"]]
    ctx = "late class below %s, bases %s, queried before=%s, levels=%d" % (case["parent"], case["bases"], case["before"], case["levels"])
    part = S.Part("P1")
    first = S.Note("C", 4, id="n0") if issubclass(parent, S.GenericNote) else S.Rest(id="r0")
    part.add(first, 0, 2)
    try:
        if case["before"]:
            for b in bases:
                list(part.iter_all(b, include_subclasses=True))
                res.transitions += 1
        cls = parent
        for _ in range(case["levels"]):
            _LATE_COUNTER[0] += 1
            cls = type("Late%s%d" % (case["parent"], _LATE_COUNTER[0]), (cls,), {})
        if issubclass(parent, S.GraceNote):
            obj = cls("grace", "D", 4, id="late")
        elif issubclass(parent, S.GenericNote) and parent is not S.Rest:
            obj = cls("D", 4, id="late")
        else:
            obj = cls(id="late")
        part.add(obj, 1, 3)
        for b in bases:
            got = [o for o in part.iter_all(b, include_subclasses=True)]
            res.transitions += 1
            if sum(1 for o in got if o is obj) != 1:
                res.fail("iter_all-subclasses", expected="the object of the late class once", observed=[type(o).__name__ for o in got],
                         where="Part.iter_all[include_subclasses]", detail=ctx + " base=%s" % b.__name__)
            nxt = [o for o in part._points[0].iter_next(b, eq=True, include_subclasses=True)]
            if sum(1 for o in nxt if o is obj) != 1:
                res.fail("iter_next-subclasses", expected="the object of the late class once", observed=[type(o).__name__ for o in nxt],
                         where="TimePoint.iter_next[include_subclasses]", detail=ctx + " base=%s" % b.__name__)
            exact = [o for o in part.iter_all(b)]
            if any(o is obj for o in exact) and b is not cls:
                res.fail("iter_all-exact-class", expected="not listed without include_subclasses", observed=[type(o).__name__ for o in exact],
                         where="Part.iter_all", detail=ctx + " base=%s" % b.__name__)
    except Exception as ex:  # noqa
        res.fail("operation-total", kind="exception", where=innermost_partitura_frame(ex), observed=exc_text(ex), detail=ctx)
    res.outcome = "late:%s:%d" % (case["parent"], case["levels"])
    res.nontrivial = True
    return res


def eval_case(case):
    if case.get("k") == "long":
        return eval_long(case)
    if case.get("k") == "latecls":
        return eval_latecls(case)
    pool = case["pool"]
    hist = case["hist"]
    T = list(range(case["T"]))
    Q = case["Q"]
    res = CaseResult(states=1, transitions=0, traces=1)
    part, objs, ref = build(pool, hist)
    ctx = "hist=%r" % (hist,)
    ok = structural(res, part, objs, ref, ctx)
    nq = 0
    if ok:
        nq = queries(res, part, objs, ref, T, pool, ctx, deep_none=len(hist) <= 1)
    res.extra = {"queries": nq}
    res.nontrivial = len(part._points) > 0
    res.outcome = "points=%d" % len(part._points)
    if res.violations or not case.get("expand"):
        return res
    succ = []
    for op in ref.enabled(T, Q):
        key = None
        # every transition is taken twice: on the plain state, and on the same state reached by a
        # client that ran read-only queries after every earlier operation (interleaved queries)
        for querying in (False, True):
            p2, o2, r2 = build(pool, hist, querying=querying)
            before = snapshot(p2, o2)
            res.transitions += 1
            tag = " [queries interleaved after every operation]" if querying else ""
            try:
                impl_apply(p2, o2, op)
            except Exception as ex:
                after = snapshot(p2, o2)
                res.fail("operation-total", kind="exception", where=innermost_partitura_frame(ex), observed=exc_text(ex),
                         detail="hist=%r op=%r%s%s" % (hist, op, "" if after == before else " (part left partly updated)", tag))
                key = None
                break
            r2.apply(op)
            c2 = "hist=%r%s" % (hist + [op], tag)
            if not structural(res, p2, o2, r2, c2):
                key = None
                break
            k2 = impl_key(p2, o2)
            if querying and k2 != key:
                res.fail("queries-are-read-only", expected="same state with and without interleaved read-only queries",
                         observed=[key, k2], where="Part.iter_all", detail=c2)
                key = None
                break
            key = k2
        if key is not None:
            succ.append((key, dict(pool=pool, hist=hist + [op], T=case["T"], Q=Q)))
    res.payload = succ
    return res


def spaces(tier, seed):
    # (the BFS levels are produced dynamically by explore())
    # magnitude dimension: the same kind of timeline at a scale that small grids never reach (more than 1000 time
    # points: the default recursion limit; large time values)
    from mc.core import Space

    Ns = [1, 2, 30, 1100] if tier == "quick" else [1, 2, 30, 300, 1100, 2600]
    longs = [dict(k="long", N=N, step=st, gap=g, base=b) for N in Ns for (st, g) in ((1, 0), (2, 1), (480, 0)) for b in (0, 2 ** 31 + 1)]
    chains = {"Note": ["Note", "GenericNote", "TimedObject"], "GraceNote": ["GraceNote", "Note", "GenericNote", "TimedObject"],
              "Rest": ["Rest", "GenericNote", "TimedObject"]}
    late = [dict(k="latecls", parent=par, bases=bs, before=bf, levels=lv)
            for par, ch in chains.items() for n in range(1, len(ch) + 1) for bs in [ch[:n], ch[n - 1:n]] for bf in (0, 1) for lv in (1, 2)]
    return [Space("late-defined-subclasses", late, True,
                  "a class defined 1-2 levels below Note / GraceNote / Rest after the library was imported, with and without "
                  "earlier include_subclasses queries on the base classes: its object is found once by iter_all / iter_next "
                  "with include_subclasses on every base class, and not without"),
            Space("long-timeline", longs, True,
                        "N=%s notes in a row x (length, gap) in {(1,0),(2,1),(480,0)} x first onset {0, 2^31+1}: points, links, "
                        "iter_all / iter_next / iter_prev over the whole timeline and a window, after adding, after removing every "
                        "other note and after removing everything" % Ns)]


POOLS_QUICK = ["NNG", "NRL", "GTL", "NML", "RTL", "SML"]


def explore(run, tier, seed):
    if tier == "quick":
        pools = ["NNG"]
        extra = POOLS_QUICK[1:][seed % (len(POOLS_QUICK) - 1)]
        plans = [(pools[0], 4, [1, 2], 3), (pools[0], 3, [1, 2], 4), (extra, 3, [1, 2], 3)]
    else:
        # about 30 minutes on 16 cores: one pool on the larger grid with three quarter values to depth 4, every other
        # pool (all seven classes occur) to depth 3-4 on times 0..3, four objects to depth 3, and depth 5 on times 0..2
        plans = [("NNG", 5, [1, 2, 3], 4), ("NRM", 4, [1, 2], 4), ("GTL", 4, [1, 2], 4), ("NML", 4, [1, 2], 3),
                 ("RTG", 4, [1, 2], 3), ("NNS", 4, [1, 2], 3), ("NNGR", 4, [1, 2], 3), ("NNG", 3, [1, 2], 5)]
    # every history of length <= 3 literally (no state merging at all): state that the canonical key cannot see
    # (caches in other objects or modules) still has to survive this
    nd_pool = "NL" if tier == "quick" else "NGL"
    init = [dict(pool=nd_pool, hist=[], T=3, Q=[1, 2])]
    explorer.bfs(run, "no-merge pool=%s,T=0..2,Q=[1, 2]" % nd_pool, init, 2 if tier == "quick" else 3,
                 bounds="objects=%s times=0..2 quarters=[1, 2]: every history of length <= %d executed literally, no de-duplication"
                 % (nd_pool, 3 if tier == "quick" else 4), dedup=False)
    for pool, nT, Q, depth in plans:
        init = [dict(pool=pool, hist=[], T=nT, Q=Q)]
        explorer.bfs(run, "pool=%s,T=0..%d,Q=%s" % (pool, nT - 1, Q), init, depth,
                     bounds="objects=%s times=0..%d quarters=%s depth<=%d, all histories, full-state dedup" % (pool, nT - 1, Q, depth),
                     key_of_init=None)


if __name__ == "__main__":
    import checks.c01 as _m

    run_check(_m)
