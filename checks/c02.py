"""C02 - quarter and beat maps are exact, monotone and mutually inverse.

Bounded-exhaustive enumeration of small parts (quarter-duration tables x time-signature tables x
first measures of every length x first time point 0 or 2 x musical-beat histories).  On every part
the real `Part.quarter_map`, `inv_quarter_map`, `beat_map`, `inv_beat_map` and
`quarter_duration_map` are executed at every integer position, every half position and just
left/right of every change point, and compared with an exact reference (mc/c02_ref.py).
The sub-space fine-pickups repeats the pickup family at fine time resolution (hundreds to thousands of
divisions per quarter, first measure a few ticks short of / equal to / longer than the full bar, large first
time points); there the maps are compared on a grid and around every change point instead of at every tick.

Clauses (sentence of the statement that licenses them):
  quarter-exact / beat-exact     "a stretch of d divisions under quarter duration q lasts d/q quarters
                                  and (d/q)*(beat_type/4) beats (times musical_beats/beats ...)", "zero
                                  lies at the start of the first full measure when the part opens with
                                  a pickup measure and at the first time point otherwise"
  *-monotone, *-continuous       "both maps are continuous and non-decreasing across every change point"
  *-inverse                      "the inverse maps undo the forward maps at every position of the timeline"
  *-scalar                       the maps "can take scalar values or lists/arrays of values" (docstrings):
                                  scalar / list / array calls give the same exact values
  quarter-duration-map           "the quarter-duration map returns the divisions in force at any time"
  quarter-independent-of-mode    the quarter map is dictated by quarter durations only
"""
import zlib
from fractions import Fraction
from itertools import combinations, product

from mc.core import CaseResult, Space, run_check, innermost_partitura_frame, exc_text, Hang
from mc.c02_ref import RefMaps, ModeModel, qdur_at, default_musical

PID = "C02"
RULE = (
    "every case is one part description (first point, last point, quarter table, signature table, first "
    "measure, beat-mode history), distinct by construction inside a sub-space; non-trivial = the part has "
    "at least one quarter-duration or time-signature change or a first measure or a non-empty mode history"
)
ASSUMPTIONS = [
    "trusted: mc/c02_ref.py (exact integration with fractions.Fraction), numpy float64 arithmetic",
    "tolerance 1e-9*max(1,|ref|) on map values and on positions returned by the inverse maps (the smallest "
    "effect of a defect in the bounds is 1/24 of a unit at one position); positions c +- 1e-6 next to every "
    "change point c are compared with the same tolerance",
    "a part opens with a pickup measure iff a measure starts at the first time point together with a time "
    "signature and is shorter than that signature (compared in the unit of the map; if a signature changes "
    "inside the first measure the comparison in quarters is accepted too; if no signature starts with the "
    "measure both origins are accepted)",
    "before the first time signature a beat is a quarter (4/4 default) or the first signature extends "
    "backwards - both readings accepted; a part without any signature counts quarters",
    "use_musical_beat(d) while musical beats are already enabled is a no-op (it warns); histories that would "
    "make the docstrings ambiguous (use_musical_beat() after set_musical_beat_per_ts(custom) in notated "
    "mode; a non-empty dict while already enabled) are not generated",
    "edits of a part never set a quarter duration that is already in force at a time without a change point "
    "(documented as redundant and dropped; its interplay with later edits is C01's subject)",
    "fine-pickups: a first measure that misses more than 0 but less than 2e-5 of the nominal bar is not generated "
    "(the pickup test of the implementation is relative, numpy.isclose defaults; reached only beyond ~16000 "
    "divisions per quarter; proposed_fixes/C02-s-pickup-resolution.diff lifts the limit)",
    "the inverse maps are fed exact reference values only where these lie inside the range of values by more than "
    "the tolerance the forward values are compared with",
    "values outside [first point, last point] are not compared (the statement quantifies over positions "
    "between the first and last time point)",
]
CHUNK = 40

EPS = Fraction(1, 10 ** 6)
TOL = 1e-9

METERS = [(4, 4), (6, 8), (5, 8), (3, 2), (3, 4), (9, 8), (7, 8), (2, 2), (2, 4), (12, 8)]
CORE_METERS = METERS[:4]  # simple, compound, irregular, half-note beat
QS = [1, 2, 3, 4, 6]
# user supplied musical beats: a non-default value for every numerator
ALT_MUS = {2: 1, 3: 1, 4: 2, 5: 2, 6: 3, 7: 3, 9: 1, 12: 2}


def d_all():
    return {"%d/%d" % (b, bt): ALT_MUS[b] for b, bt in METERS}


def d_one(ts):
    if not ts:
        return {"4/4": 2}
    _, b, bt = ts[0]
    return {"%d/%d" % (b, bt): ALT_MUS[b]}


def d_last(ts):
    if not ts:
        return {"3/4": 1}
    _, b, bt = ts[-1]
    return {"%d/%d" % (b, bt): b * 2}  # more musical beats than notated ones


def alt_mus(b):
    """a user-supplied number of musical beats that differs from the default of numerator b (any b >= 1)"""
    if b in ALT_MUS:
        return ALT_MUS[b]
    # not a divisor of b: the stretch is scaled by a non-trivial fraction, and the value cannot coincide
    # with a grouping in twos or threes
    return 2 if b == 1 else b - 1


def meter_history(ts, b, bt):
    """history of the meter-alphabet sub-space: default musical beats (values the TimeSignature objects got
    when they were created), user values for every signature of the part, back to the defaults through
    set_musical_beat_per_ts({}) while musical beats stay enabled (values recomputed from the default table),
    notated beats, musical beats with a user value for the meter under test only"""
    d_user = {"%d/%d" % (x[1], x[2]): alt_mus(x[1]) for x in ts}
    return [["M", {}], ["S", d_user], ["S", {}], ["N"], ["M", {"%d/%d" % (b, bt): alt_mus(b)}]]


# the history evaluated on every structural case of the big sub-spaces: default musical beats, user dict
# for all signatures, back to notated beats, user dict for one signature (the others must be back at their
# defaults).  Every other history (up to a depth) is enumerated in the beat-mode-histories sub-space.
def universal_history(ts):
    return [["M", {}], ["S", d_all()], ["N"], ["M", d_one(ts)]]


# ---------------------------------------------------------------------------------------------
# building the real part


def build(case):
    import partitura.score as S

    divs = case["divs"]
    part = S.Part("P0", quarter_duration=divs[0][1])
    for t, q in divs[1:]:
        part.set_quarter_duration(t, q)
    t0, last = case["t0"], case["last"]
    tss = []
    for t, b, bt in case["ts"]:
        o = S.TimeSignature(b, bt)
        part.add(o, t)
        tss.append(o)
    m = case.get("m")
    n = 1
    if m is not None:
        part.add(S.Measure(number=n), m[0], m[1])
        n += 1
        if m[1] < last:
            part.add(S.Measure(number=n), m[1], last)
    if last > t0:
        part.add(S.Note("C", 4, id="n0", voice=1), t0, last)
    else:
        part.add(S.Page(1), t0)
    return part, tss


def apply_op(part, op):
    if op[0] == "M":
        if op[1]:
            part.use_musical_beat(dict(op[1]))
        else:
            part.use_musical_beat()
    elif op[0] == "N":
        part.use_notated_beat()
    elif op[0] == "S":
        part.set_musical_beat_per_ts(dict(op[1]))
    else:
        raise ValueError(op)


# ---------------------------------------------------------------------------------------------
# oracle


def _exact(p):
    """the position a float call really receives (Fraction of the nearest float64)"""
    return Fraction(float(p))


def marks_around(marks, lo, hi):
    """fine-resolution timelines: both neighbours (1 and 2 ticks, half a tick, EPS) of every mark"""
    ps = set()
    for c in marks:
        for d in (-2, -1, Fraction(-1, 2), -EPS, 0, EPS, Fraction(1, 2), 1, 2):
            p = _exact(c + d)
            if lo <= p <= hi:
                ps.add(p)
    return ps


def positions_of(ref, grid=None):
    """every integer position, every half position, and both sides of every change point.
    With `grid` (fine-resolution timelines, thousands of ticks per bar): every multiple of grid/2 counted
    from the first point, and the neighbours (+-2, +-1, +-1/2 tick, +-EPS) of the first and last point, of
    every change point and of the end of the first measure."""
    t0, last = ref.t0, ref.last
    if grid:
        marks = set(ref.change_points("b")) | set(ref.cuts)
        if ref.m is not None:
            marks |= {x for x in ref.m if t0 <= x <= last}
        ps = marks_around(marks, t0, last)
        step = max(grid // 2, 1)
        ps |= {Fraction(t) for t in range(t0, last + 1, step)}
        return sorted(ps)
    ps = set()
    for t in range(t0, last + 1):
        ps.add(Fraction(t))
        if t < last:
            ps.add(Fraction(2 * t + 1, 2))
    for c in ref.change_points("b"):
        for p in (c - EPS, c + EPS):
            if t0 <= p <= last:
                ps.add(Fraction(p))
    return sorted(ps)


def close(a, e, scale=1.0):
    import math

    a = float(a)
    if math.isnan(a) or math.isinf(a):
        return False
    return abs(a - float(e)) <= TOL * scale * max(1.0, abs(float(e)))


def vclose(got, expf):
    """vectorised `close`: boolean array (nan/inf never close)"""
    import numpy as np

    with np.errstate(invalid="ignore"):
        return np.isfinite(got) & (np.abs(got - expf) <= TOL * np.maximum(1.0, np.abs(expf)))


def _fl(xs):
    return [float(x) for x in xs]


class MapCheck(object):
    """compares one forward/inverse pair with the reference under every accepted reading"""

    def __init__(self, res, ref, case, ctx, grid=None):
        import numpy as np

        self.grid = grid
        self.res = res
        self.ref = ref
        self.case = case
        self.ctx = ctx
        self.calls = 0
        self.origin_seen = None
        self.pos = positions_of(ref, grid)
        self.xs = np.array(_fl(self.pos), dtype=float)
        self.idx = {p: i for i, p in enumerate(self.pos)}
        self.interior = [i for i, p in enumerate(self.pos) if ref.t0 < p < ref.last]
        ints = [i for i, p in enumerate(self.pos) if p.denominator == 1]
        self.ints = ints
        # scalar calls: first, second, a middle and the last integer position
        self.scal = sorted({ints[0], ints[min(1, len(ints) - 1)], ints[len(ints) // 2], ints[-1]})

    def fail(self, clause, exp, obs, where, detail=""):
        self.res.fail(clause, expected=exp, observed=obs, where=where, detail=("%s %s" % (self.ctx, detail)).strip())

    def exc(self, clause, ex, detail=""):
        self.res.fail(clause, kind="hang" if isinstance(ex, Hang) else "exception",
                      where=innermost_partitura_frame(ex), observed=exc_text(ex),
                      detail=("%s %s" % (self.ctx, detail)).strip())

    def pair(self, part, unit, mus, scalars=False, inverse=True):
        """unit 'q' or 'b'; mus = None (notated) or list of musical beats per signature"""
        import numpy as np

        ref = self.ref
        name = "quarter" if unit == "q" else "beat"
        fwd_name = "Part.quarter_map" if unit == "q" else "Part.beat_map"
        inv_name = "Part.inv_quarter_map" if unit == "q" else "Part.inv_beat_map"
        pos, xs = self.pos, self.xs
        try:
            fwd = part.quarter_map if unit == "q" else part.beat_map
            got = np.asarray(fwd(xs), dtype=float)
            self.calls += 2
        except Exception as ex:  # noqa
            self.exc(name + "-exact", ex, "array call")
            return
        if got.shape != xs.shape:
            self.fail(name + "-exact", "array of %d values" % len(xs), "shape %r" % (got.shape,), fwd_name)
            return
        # forward values under every accepted reading
        chosen = None
        first = None
        for pre, origin in ref.readings(unit, mus):
            exp = ref.values(pos, unit, mus, pre, origin)
            expf = np.array(_fl(exp), dtype=float)
            if first is None:
                first = (exp, expf, origin)
            if vclose(got, expf).all():
                chosen = (pre, origin, exp, expf)
                break
        if chosen is None:
            exp, expf, origin = first
            i = int(np.flatnonzero(~vclose(got, expf))[0])
            # classify: a constant offset means the origin is wrong, anything else the integration
            offs = got - expf
            const = bool(np.isfinite(offs).all() and (np.abs(offs - offs[0]) <= 1e-9 * max(1.0, abs(offs[0]))).all())
            clause = name + ("-origin" if const else "-exact")
            self.fail(clause, {"t": float(pos[i]), "value": exp[i], "zero_at": origin, "all": expf.tolist()[:40]},
                      {"value": float(got[i]), "all": got.tolist()[:40]}, fwd_name,
                      "first differing position %s of %d" % (pos[i], len(pos)))
            return
        pre, origin, exp, expf = chosen
        self.origin_seen = origin
        # non-decreasing (strictly increasing in fact, every division has positive length)
        d = np.diff(got)
        if not (d >= 0).all():
            i = int(np.flatnonzero(~(d >= 0))[0])
            self.fail(name + "-monotone", "non-decreasing", [float(got[i]), float(got[i + 1])], fwd_name,
                      "between %s and %s" % (pos[i], pos[i + 1]))
        # continuity across change points: the jump over EPS is bounded by the steepest slope
        mr = float(ref.max_rate(unit, mus, pre))
        idx = self.idx
        for c in ref.change_points(unit):
            for a, b in ((c - EPS, Fraction(c)), (Fraction(c), c + EPS)):
                if self.grid:
                    a, b = _exact(a), _exact(b)
                if a in idx and b in idx:
                    jump = abs(float(got[idx[b]]) - float(got[idx[a]]))
                    if not jump <= float(b - a) * mr * 1.001 + 1e-9 * max(1.0, abs(float(expf[idx[b]]))):
                        self.fail(name + "-continuous", "jump <= %g" % (float(EPS) * mr), jump, fwd_name,
                                  "at change point %d" % c)
        if not inverse:
            return
        # inverse: inv(fwd(t)) == t at every position, inv(exact value) == t at interior positions
        # (interior = strictly inside the range of values by more than the tolerance the forward values are
        # compared with: next to the first/last point a value within that tolerance of the end value may fall
        # outside the domain of the inverse)
        lo_v = float(expf[0]) + 2 * TOL * max(1.0, abs(float(expf[0])))
        hi_v = float(expf[-1]) - 2 * TOL * max(1.0, abs(float(expf[-1])))
        interior = [i for i in self.interior if lo_v < float(expf[i]) < hi_v]
        try:
            inv = part.inv_quarter_map if unit == "q" else part.inv_beat_map
            back = np.asarray(inv(got), dtype=float)
            back2 = np.asarray(inv(expf[interior]), dtype=float) if interior else np.array([])
            self.calls += 3
        except Exception as ex:  # noqa
            self.exc(name + "-inverse", ex, "array call")
            return
        ok = vclose(back, xs) if back.shape == xs.shape else np.zeros(len(xs), dtype=bool)
        if not ok.all():
            i = int(np.flatnonzero(~ok)[0])
            self.fail(name + "-inverse", {"t": float(pos[i])},
                      {"inv(fwd(t))": repr(back[i]) if back.shape == xs.shape else repr(back), "fwd(t)": float(got[i])},
                      inv_name, "position %s" % pos[i])
        elif interior:
            ok = vclose(back2, xs[interior]) if back2.shape == (len(interior),) else np.zeros(len(interior), dtype=bool)
            if not ok.all():
                j = int(np.flatnonzero(~ok)[0])
                i = interior[j]
                self.fail(name + "-inverse", {"t": float(pos[i])},
                          {"inv(v)": repr(back2[j]) if back2.ndim else repr(back2), "v": float(exp[i])}, inv_name,
                          "exact value of position %s" % pos[i])
        # scalar / list / numpy-integer calls
        if scalars:
            ints = self.ints
            try:
                for i in self.scal:
                    t = int(pos[i])
                    v = fwd(t)
                    self.calls += 2
                    # the shape of the answer to a scalar is not prescribed: any single value is accepted
                    if np.size(v) != 1 or not close(np.asarray(v).reshape(-1)[0], exp[i]):
                        self.fail(name + "-scalar", {"t": t, "value": exp[i]}, repr(v), fwd_name, "python int argument")
                        break
                    v = float(np.asarray(v).reshape(-1)[0])
                    w = inv(v)
                    if np.size(w) != 1 or not close(np.asarray(w).reshape(-1)[0], t):
                        self.fail(name + "-scalar", {"value": float(v), "t": t}, repr(w), inv_name, "python float argument")
                        break
                li = [int(pos[i]) for i in ints]
                v = np.asarray(fwd(li), dtype=float)
                v2 = np.asarray(fwd(np.array(li, dtype=np.int64)), dtype=float)
                w = np.asarray(inv([float(x) for x in v]), dtype=float)
                self.calls += 3
                e = expf[ints]
                if v.shape != (len(li),) or not vclose(v, e).all():
                    self.fail(name + "-scalar", e.tolist(), v.tolist(), fwd_name, "list argument")
                elif v2.shape != (len(li),) or not vclose(v2, e).all():
                    self.fail(name + "-scalar", e.tolist(), v2.tolist(), fwd_name, "integer array argument")
                elif w.shape != (len(li),) or not vclose(w, np.array(li, dtype=float)).all():
                    self.fail(name + "-scalar", li, w.tolist(), inv_name, "list argument")
            except Exception as ex:  # noqa
                self.exc(name + "-scalar", ex, "scalar/list call")

    def quarter_duration_map(self, part):
        import numpy as np

        ref = self.ref
        divs = ref.divs
        hi = max(ref.last, max(t for t, _ in divs)) + 2
        if self.grid:
            # fine-resolution timelines: neighbours of time 0, of the first/last point and of every table entry
            pos = sorted(marks_around({0, ref.t0, ref.last, hi} | {t for t, _ in divs}, 0, hi))
            scal_ts = [int(p) for p in pos if p.denominator == 1]
        else:
            pos = []
            for t in range(0, hi + 1):
                pos.append(Fraction(t))
                pos.append(Fraction(2 * t + 1, 2))
            for t, _ in divs:
                if t > 0:
                    pos.append(t - EPS)
                pos.append(t + EPS)
            pos = sorted(set(pos))
            scal_ts = range(0, hi + 1)
        exp = [qdur_at(divs, p) for p in pos]
        try:
            qm = part.quarter_duration_map
            got = np.asarray(qm(np.array(_fl(pos))), dtype=float)
            self.calls += 2
            if got.shape != (len(pos),) or [float(g) for g in got] != [float(e) for e in exp]:
                bad = [i for i in range(len(pos)) if got.shape != (len(pos),) or float(got[i]) != exp[i]][:1]
                self.fail("quarter-duration-map", {"t": float(pos[bad[0]]), "divs": exp[bad[0]]} if bad else exp,
                          got.tolist(), "Part.quarter_duration_map", "array call, table %r" % (divs,))
                return
            for t in scal_ts:
                v = qm(t)
                self.calls += 1
                if np.size(v) != 1 or float(np.asarray(v).reshape(-1)[0]) != qdur_at(divs, t):
                    self.fail("quarter-duration-map", {"t": t, "divs": qdur_at(divs, t)}, repr(v),
                              "Part.quarter_duration_map", "scalar call, table %r" % (divs,))
                    return
        except Exception as ex:  # noqa
            self.exc("quarter-duration-map", ex)


def apply_edit(part, tss, cur, ed):
    """apply one structural edit to the real part and to the description `cur` (returns the new one)"""
    import partitura.score as S

    cur = dict(cur)
    k = ed[0]
    if k == "q":  # set_quarter_duration(t, v): value v in force from t to the next change
        _, t, v = ed
        part.set_quarter_duration(t, v)
        cur["divs"] = sorted([x for x in cur["divs"] if x[0] != t] + [[t, v]])
    elif k == "ts":  # a further time signature
        _, t, b, bt = ed
        o = S.TimeSignature(b, bt)
        part.add(o, t)
        ts = sorted(cur["ts"] + [[t, b, bt]])
        i = ts.index([t, b, bt])
        tss.insert(i, o)
        cur["ts"] = ts
    elif k == "rmts":  # remove the i-th time signature
        _, i = ed
        part.remove(tss.pop(i))
        cur["ts"] = cur["ts"][:i] + cur["ts"][i + 1:]
    elif k == "m":  # a first measure where there was none
        _, a, e = ed
        part.add(S.Measure(number=1), a, e)
        cur["m"] = [a, e]
    elif k == "ext":  # a note that moves the last point
        _, new_last = ed
        part.add(S.Note("D", 4, id="n%d" % new_last, voice=1), cur["last"], new_last)
        cur["last"] = new_last
    else:
        raise ValueError(ed)
    return cur


def eval_case(case):
    import numpy as np

    res = CaseResult(states=1, transitions=0, traces=1)
    hist = case.get("hist") or []
    edits = case.get("edits") or []
    try:
        part, tss = build(case)
    except Exception as ex:  # noqa
        res.fail("build", kind="exception", where=innermost_partitura_frame(ex), observed=exc_text(ex))
        res.outcome = "build-exception"
        return res
    cur = dict(t0=case["t0"], last=case["last"], divs=case["divs"], ts=case["ts"], m=case.get("m"))
    calls = 0
    states = 0
    oq = None
    ob = []
    done = []
    for k in range(len(edits) + 1):
        if k:
            try:
                cur = apply_edit(part, tss, cur, edits[k - 1])
            except Exception as ex:  # noqa
                res.fail("build", kind="exception", where=innermost_partitura_frame(ex), observed=exc_text(ex),
                         detail="edit %r" % (edits[k - 1],))
                break
            done.append(edits[k - 1])
            calls += 1
        ref = RefMaps(cur)
        mc = MapCheck(res, ref, cur, "mode=notated" + (" after edits %r -> %r" % (done, cur) if done else ""),
                      grid=case.get("grid"))
        mc.quarter_duration_map(part)
        mc.pair(part, "q", None, scalars=(k == 0))
        oq = mc.origin_seen
        mc.pair(part, "b", None, scalars=(k == 0))
        ob.append(mc.origin_seen)
        calls += mc.calls
        states += 1
        if res.violations:
            break
    mc.calls = 0
    mode = ModeModel(cur["ts"])
    qvals = None
    if hist and not res.violations:
        xs = mc.xs if case.get("grid") else np.array([float(t) for t in range(ref.t0, ref.last + 1)])
        qvals = np.asarray(part.quarter_map(xs), dtype=float)
    pre = " after edits %r -> %r" % (done, cur) if done else ""
    for k, op in enumerate(hist):
        if res.violations:
            break
        try:
            apply_op(part, op)
        except Exception as ex:  # noqa
            res.fail("beat-mode-switch", kind="exception", where=innermost_partitura_frame(ex), observed=exc_text(ex),
                     detail="history %r%s" % (hist[: k + 1], pre))
            break
        mode.apply(op)
        mc.calls += 1
        states += 1
        mc.ctx = "mode=%s mus=%r after %r%s" % ("musical" if mode.flag else "notated", mode.mus, hist[: k + 1], pre)
        # the per-signature numbers the implementation holds (public attribute TimeSignature.musical_beats;
        # "reset ... to default values" in the docstring of use_notated_beat)
        held = [o.musical_beats for o in tss]
        if held != mode.mus:
            res.fail("beat-mode-switch", expected={"musical": mode.flag, "musical_beats": mode.mus},
                     observed={"musical_beats": held},
                     where="Part.use_musical_beat/use_notated_beat/set_musical_beat_per_ts", detail=mc.ctx)
            break
        mc.pair(part, "b", list(mode.mus) if mode.flag else None, scalars=False,
                inverse=mode.flag or bool(case.get("inv_all")))
        ob.append(mc.origin_seen)
    if qvals is not None and not res.violations:
        q2 = np.asarray(part.quarter_map(xs), dtype=float)
        mc.calls += 2
        if not np.array_equal(qvals, q2):
            res.fail("quarter-independent-of-mode", expected=qvals.tolist(), observed=q2.tolist(), where="Part.quarter_map",
                     detail="after history %r%s" % (hist, pre))
    calls += mc.calls
    res.states = states
    res.traces = states
    res.transitions = calls
    res.nontrivial = bool(len(case["divs"]) > 1 or len(case["ts"]) > 1 or case.get("m") or hist or edits)
    res.outcome = "zero:q=%s,b=%s" % (
        "-" if oq is None else ("first" if oq == ref.t0 else "m+%d" % (oq - ref.t0)),
        ",".join(sorted({"-" if o is None else ("first" if o == ref.t0 else "m") for o in ob})),
    ) if not res.violations else "violation:" + res.violations[0]["clause"]
    return res


# ---------------------------------------------------------------------------------------------
# enumeration


def q_tables(q0s, values, positions, kmax, kmin=0):
    """quarter tables [[0,q0],[p1,v1],...]: every choice of <=kmax change positions, every value
    sequence in which each value differs from the one in force before it"""
    for q0 in q0s:
        for k in range(kmin, kmax + 1):
            for ps in combinations(positions, k):
                for vs in product(values, repeat=k):
                    seq = [q0] + list(vs)
                    if any(seq[i] == seq[i + 1] for i in range(k)):
                        continue
                    yield [[0, q0]] + [[p, v] for p, v in zip(ps, vs)]


def ts_tables(t0, meters, positions, kmax, kmin=0):
    """signature tables with a signature at t0 and <=kmax later ones (each different from its predecessor)"""
    for k in range(kmin, kmax + 1):
        for ps in combinations(positions, k):
            for ms in product(meters, repeat=k + 1):
                if any(ms[i] == ms[i + 1] for i in range(k)):
                    continue
                yield [[p, m[0], m[1]] for p, m in zip((t0,) + ps, ms)]


def shift_divs(divs, t0, style):
    """place a quarter table (positions relative to the first point) on a timeline starting at t0.
    style 'ctor': the first value is in force from time 0 (Part(quarter_duration=q0));
    style 'set' : Part() default 1 at time 0 and set_quarter_duration(t0, q0)"""
    q0 = divs[0][1]
    rest = [[t0 + p, v] for p, v in divs[1:]]
    if t0 == 0 or style == "ctor":
        return [[0, q0]] + rest
    return [[0, 1], [t0, q0]] + rest


def m_options(t0, last):
    return [None] + [[t0, e] for e in range(t0 + 1, last + 1)]


def gen_quarter(scope):
    """quarter-duration tables in depth; one signature"""
    if scope == "core":
        L, q0s, vals, meters, kmax = 6, [1, 2, 3], [1, 2, 3], CORE_METERS, 2
    else:
        L, q0s, vals, meters, kmax = 6, QS, QS, METERS, 2
    for t0 in (0, 2):
        last = t0 + L
        for style in (("ctor",) if t0 == 0 else (("set",) if scope == "core" else ("ctor", "set"))):
            for tab in q_tables(q0s, vals, range(1, L), kmax):
                if style == "set" and tab[0][1] == 1 and scope != "core":
                    continue  # same table as 'ctor'
                divs = shift_divs(tab, t0, style)
                for b, bt in meters:
                    ts = [[t0, b, bt]]
                    for m in m_options(t0, last):
                        yield dict(t0=t0, last=last, divs=divs, ts=ts, m=m, hist=universal_history(ts), hid="U")
    if scope != "core":
        # three changes
        L, t0 = 6, 0
        for tab in q_tables([1, 2, 3, 4, 6], [1, 2, 3, 4, 6], range(1, L), 3, 3):
            for b, bt in ((4, 4), (6, 8), (5, 8)):
                ts = [[t0, b, bt]]
                for m in (None, [0, 2], [0, 3], [0, 6]):
                    yield dict(t0=t0, last=t0 + L, divs=tab, ts=ts, m=m, hist=universal_history(ts), hid="U")


def gen_ts(scope):
    """time-signature tables in depth; constant quarter duration"""
    L = 6
    if scope == "core":
        plans = [(CORE_METERS, 1, 0), ([(4, 4), (6, 8), (3, 2)], 2, 2)]
        qs = [1, 2]
    else:
        plans = [(METERS, 1, 0), ([(4, 4), (6, 8), (5, 8), (3, 2), (9, 8)], 2, 2)]
        qs = [1, 2, 3]
    for t0 in (0, 2):
        last = t0 + L
        for q in qs:
            divs = shift_divs([[0, q]], t0, "set")
            for meters, kmax, kmin in plans:
                for ts in ts_tables(t0, meters, range(t0 + 1, last + 1), kmax, kmin):
                    for m in m_options(t0, last):
                        yield dict(t0=t0, last=last, divs=divs, ts=ts, m=m, hist=universal_history(ts), hid="U")


def gen_mixed(scope):
    """quarter changes and signature changes at every pair/quadruple of positions"""
    L = 5
    if scope == "core":
        plans = [
            # (q0s, qvalues, kq, meters, kts)
            ([1, 2], [1, 2, 3], 1, [(4, 4), (6, 8), (3, 2)], 1),
        ]
        seqs = [([1, 2, 1], [(4, 4), (6, 8), (3, 2)]), ([2, 3, 1], [(6, 8), (4, 4), (5, 8)])]
    else:
        plans = [
            ([1, 2, 3], QS, 1, [(4, 4), (6, 8), (5, 8), (3, 2), (9, 8)], 1),
        ]
        seqs = None
    for t0 in (0, 2):
        last = t0 + L
        for q0s, qv, kq, meters, kts in plans:
            for tab in q_tables(q0s, qv, range(1, L), kq, kq):
                divs = shift_divs(tab, t0, "ctor")
                for ts in ts_tables(t0, meters, range(t0 + 1, last + 1), kts, kts):
                    for m in m_options(t0, last):
                        yield dict(t0=t0, last=last, divs=divs, ts=ts, m=m, hist=universal_history(ts), hid="U")
        # two changes of each kind
        if seqs is not None:
            for qseq, mseq in seqs:
                for qp in combinations(range(1, L), 2):
                    divs = shift_divs([[0, qseq[0]], [qp[0], qseq[1]], [qp[1], qseq[2]]], t0, "ctor")
                    for tp in combinations(range(t0 + 1, last + 1), 2):
                        ts = [[p, m_[0], m_[1]] for p, m_ in zip((t0,) + tp, mseq)]
                        for m in m_options(t0, last):
                            yield dict(t0=t0, last=last, divs=divs, ts=ts, m=m, hist=universal_history(ts), hid="U")
        else:
            for tab in q_tables([1, 2, 3], [1, 2, 3], range(1, L), 2, 2):
                divs = shift_divs(tab, t0, "ctor")
                for ts in ts_tables(t0, [(4, 4), (6, 8), (3, 2)], range(t0 + 1, last + 1), 2, 2):
                    for m in m_options(t0, last):
                        yield dict(t0=t0, last=last, divs=divs, ts=ts, m=m, hist=universal_history(ts), hid="U")


def _hist_ok(h, ts):
    """keep only histories whose meaning the docstrings fix (see ASSUMPTIONS)"""
    mm = ModeModel(ts)
    for op in h:
        if op[0] == "M":
            if mm.flag and op[1]:
                return False
            if not mm.flag and not op[1] and not mm.is_default():
                return False
        mm.apply(op)
    return True


def gen_modes(scope):
    """every history of beat-mode operations up to a depth, on a fixed set of structures"""
    depth = 3 if scope == "core" else 4
    structs = []
    for t0 in ((0,) if scope == "core" else (0, 2)):
        last = t0 + 6
        for divs in ([[0, 2]], [[0, 1], [t0 + 3, 2]]):
            for ts in ([[t0, 6, 8]], [[t0, 4, 4], [t0 + 2, 6, 8]], [[t0, 9, 8], [t0 + 3, 3, 4], [t0 + 5, 12, 8]],
                       [[t0, 5, 8], [t0 + 4, 5, 8]]):
                for m in (None, [t0, t0 + 1], [t0, t0 + 6]):
                    structs.append((t0, last, divs, ts, m))
    for t0, last, divs, ts, m in structs:
        ops = [["M", {}], ["M", d_one(ts)], ["M", d_all()], ["N"], ["S", d_one(ts)], ["S", d_last(ts)], ["S", {}]]
        for d in range(1, depth + 1):
            for ix in product(range(len(ops)), repeat=d):
                h = [list(ops[i]) for i in ix]
                if _hist_ok(h, ts):
                    yield dict(t0=t0, last=last, divs=divs, ts=ts, m=m, hist=h, inv_all=1,
                               hid="".join(map(str, ix)))


def gen_edge(scope):
    """shapes outside the regular pattern: single-point parts, no signature, late first signature,
    measure that does not start at the first point or has no signature, quarter changes before the first
    and after the last point, changes at the last point, long bars with every pickup length"""
    hist = [["M", {}], ["N"]]
    # single point
    for t0 in (0, 2, 5):
        for q in (1, 3):
            for ts in ([], [[t0, 4, 4]], [[t0, 6, 8]]):
                yield dict(t0=t0, last=t0, divs=shift_divs([[0, q]], t0, "set"), ts=ts, m=None, hist=hist, hid="MN")
    # two points, length 1
    for t0 in (0, 3):
        for q in (1, 2, 3):
            for ts in ([], [[t0, 3, 4]], [[t0, 6, 8]], [[t0 + 1, 6, 8]], [[t0, 2, 2], [t0 + 1, 6, 8]]):
                for m in (None, [t0, t0 + 1]):
                    yield dict(t0=t0, last=t0 + 1, divs=shift_divs([[0, q]], t0, "ctor"), ts=ts, m=m, hist=hist, hid="MN")
    L = 6
    for t0 in (0, 2):
        last = t0 + L
        for tab in q_tables([1, 2], [1, 2, 3], range(1, L), 1):
            for style in ("ctor", "set"):
                divs = shift_divs(tab, t0, style)
                # no signature at all; late first signature
                for ts in ([], [[t0 + 2, 6, 8]], [[t0 + 3, 3, 2], [t0 + 5, 4, 4]], [[last, 6, 8]]):
                    for m in (None, [t0, t0 + 2], [t0, last]):
                        yield dict(t0=t0, last=last, divs=divs, ts=ts, m=m, hist=universal_history(ts), hid="U")
                # measure starting later than the first point
                for ts in ([[t0, 4, 4]], [[t0, 6, 8], [t0 + 2, 4, 4]]):
                    for m in ([t0 + 1, t0 + 3], [t0 + 2, last]):
                        yield dict(t0=t0, last=last, divs=divs, ts=ts, m=m, hist=universal_history(ts), hid="U")
        # quarter changes before the first point / at the first point / at and after the last point
        for q0, q1, q2 in product([1, 2, 3], repeat=3):
            if q0 == q1 or q1 == q2:
                continue
            for pa, pb in ((t0, last), (t0, last + 2), (t0 + 3, last), (t0 + 3, last + 1), (last, last + 2),
                           (max(t0 - 1, 0), t0 + 2), (max(t0 - 1, 0), t0), (max(t0 - 2, 0), max(t0 - 1, 1))):
                if pa >= pb or pa == 0:
                    continue
                for ts in ([[t0, 4, 4]], [[t0, 6, 8], [t0 + 3, 3, 4]]):
                    for m in (None, [t0, t0 + 2], [t0, t0 + 4]):
                        yield dict(t0=t0, last=last, divs=[[0, q0], [pa, q1], [pb, q2]], ts=ts, m=m,
                                   hist=universal_history(ts), hid="U")
    # long bars: every pickup length up to a full bar and beyond, with a quarter change inside the bar
    for (b, bt), q in (((12, 8), 2), ((9, 8), 2), ((3, 2), 2), ((7, 8), 2), ((4, 4), 3), ((6, 8), 6), ((5, 8), 4)):
        bar = b * 4 * q // bt
        if scope == "core" and bar > 14:
            continue
        last = bar + 3
        for divs in ([[0, q]], [[0, 2 * q], [2, q]], [[0, q], [bar - 1, 2 * q]]):
            for e in range(1, last + 1):
                yield dict(t0=0, last=last, divs=divs, ts=[[0, b, bt]], m=[0, e], hist=universal_history([[0, b, bt]]), hid="U")


def gen_edits(scope):
    """parts that are edited after their maps were used: a quarter change, a further or a removed time
    signature, a first measure, a later last point - the maps must follow (nothing may be cached)"""
    hist = [["M", {}]]
    L = 5
    bases = []
    for t0 in (0, 2):
        last = t0 + L
        for divs in ([[0, 2]], [[0, 1], [t0 + 2, 3]]):
            for ts in ([[t0, 4, 4]], [[t0, 6, 8], [t0 + 3, 3, 4]]):
                for m in (None, [t0, t0 + 1]):
                    bases.append(dict(t0=t0, last=last, divs=divs, ts=ts, m=m))

    def alphabet(cur, small):
        t0, last = cur["t0"], cur["last"]
        eds = []
        qpos = (t0, t0 + 1, t0 + 3) if small else tuple(range(max(t0 - 1, 0), last + 2))
        for t in qpos:
            for v in ((1, 3) if small else (1, 2, 3)):
                # setting the value that is already in force at a time without a change point is
                # documented as redundant (dropped); what a later, earlier-placed change then means
                # for t belongs to C01, so such edits are not generated here
                if any(x[0] == t for x in cur["divs"]) or qdur_at(cur["divs"], t) != v:
                    eds.append(["q", t, v])
        have = {x[0] for x in cur["ts"]}
        for t in ((t0 + 1, t0 + 4) if small else range(t0, last + 1)):
            if t not in have:
                for b, bt in (((6, 8),) if small else ((3, 4), (6, 8))):
                    eds.append(["ts", t, b, bt])
        for i in range(len(cur["ts"])):
            eds.append(["rmts", i])
        if cur["m"] is None:
            eds.append(["m", t0, t0 + 2])
        eds.append(["ext", last + 2])
        return eds

    def sim(cur, ed):
        cur = dict(cur)
        if ed[0] == "q":
            cur["divs"] = sorted([x for x in cur["divs"] if x[0] != ed[1]] + [[ed[1], ed[2]]])
        elif ed[0] == "ts":
            cur["ts"] = sorted(cur["ts"] + [ed[1:]])
        elif ed[0] == "rmts":
            cur["ts"] = cur["ts"][:ed[1]] + cur["ts"][ed[1] + 1:]
        elif ed[0] == "m":
            cur["m"] = [ed[1], ed[2]]
        elif ed[0] == "ext":
            cur["last"] = ed[1]
        return cur

    for bi, base in enumerate(bases):
        small2 = scope == "core"
        for e1 in alphabet(base, False):
            yield dict(base, edits=[e1], hist=hist, hid="e%r" % ([e1],))
        if scope == "core" and bi % 4 != 3:
            continue
        for e1 in alphabet(base, small2):
            c1 = sim(base, e1)
            for e2 in alphabet(c1, small2):
                yield dict(base, edits=[e1, e2], hist=hist, hid="e%r" % ([e1, e2],))


def gen_meters(scope):
    """the meter alphabet: every numerator 1..N x every beat type, alone and next to a simple / a compound
    signature (change at every position), first measure of every length; the numerators outside
    {6, 9, 12} must keep their notated number of beats as the default number of musical beats"""
    L = 6
    if scope == "core":
        nums, bts_a, bts_b = range(1, 25), (2, 4, 8, 16), (4, 8)
        t0s_b = (0,)
        tabs_a = ([[0, 2]], [[0, 1], [3, 2]])
        tabs_b = ([[0, 2]],)
    else:
        nums, bts_a, bts_b = range(1, 33), (1, 2, 4, 8, 16, 32), (1, 2, 4, 8, 16, 32)
        t0s_b = (0, 2)
        tabs_a = ([[0, 1]], [[0, 2]], [[0, 3]], [[0, 1], [3, 2]])
        tabs_b = ([[0, 2]], [[0, 3], [2, 1]])
    for b in nums:
        # A: the meter alone
        for bt in bts_a:
            for t0 in (0, 2):
                last = t0 + L
                ts = [[t0, b, bt]]
                for tab in tabs_a:
                    divs = shift_divs(tab, t0, "ctor")
                    for m in m_options(t0, last):
                        yield dict(t0=t0, last=last, divs=divs, ts=ts, m=m, hist=meter_history(ts, b, bt), hid="A%d/%d" % (b, bt))
        # B: after a simple meter / before a compound meter, change at every position (incl. the last point)
        for bt in bts_b:
            for t0 in t0s_b:
                last = t0 + L
                for tab in tabs_b:
                    divs = shift_divs(tab, t0, "ctor")
                    for p in range(t0 + 1, last + 1):
                        for ts in ([[t0, 4, 4], [p, b, bt]], [[t0, b, bt], [p, 6, 8]]):
                            if ts[0][1:] == ts[1][1:]:
                                continue
                            ms = (None, [t0, t0 + 1], [t0, last]) if scope == "core" else \
                                (None, [t0, t0 + 1], [t0, t0 + 3], [t0, last])
                            for m in ms:
                                yield dict(t0=t0, last=last, divs=divs, ts=ts, m=m, hist=meter_history(ts, b, bt), hid="A%d/%d" % (b, bt))


# The pickup test of the tree under test compares the length of the first measure with the nominal bar up to a
# relative closeness (numpy.isclose defaults, 1e-5 of the bar + 1e-8) so that a full bar whose interpolated length
# suffers from float rounding is not taken for a pickup.  A first measure that misses less than FINE_REL of the
# bar is therefore not generated (known limit of the implementation, reached only beyond ~16000 divisions per
# quarter; see proposed_fixes/C02-s-pickup-resolution.diff) - everything else is.
FINE_REL = Fraction(0)  # (was 2e-5: the relative pickup test is repaired in /repo a21c652, nothing is left out any more)
FINE_CORE = (480, 960, 10080)
FINE_FULL = (24, 96, 120, 256, 384, 480, 768, 960, 1024, 1920, 3840, 5040, 10080, 15360, 20160, 40320, 302400)
BIG_OFFSET = 2 ** 24 + 1


def gen_fine(scope):
    """fine time resolution (magnitude dimension of the pickup family): F divisions per quarter with F in the
    hundreds or thousands; first measure shorter than the full bar by k ticks (k = 0: full bar, k < 0:
    over-full), very short pickups and pickups of half a quarter / half a bar"""
    if scope == "core":
        Fs, ks, t0s = FINE_CORE, (-1, 0, 1, 2, 3, 4, 7, 24), ("0", "2F+1")
    else:
        Fs, ks, t0s = FINE_FULL, (-2, -1, 0, 1, 2, 3, 4, 5, 6, 7, 10, 24, 50, 101), ("0", "2F+1", "big")
    for F in Fs:
        for b, bt in METERS:
            barq = Fraction(4 * b, bt)
            full_a = int(barq * F)
            assert full_a == barq * F
            # A: constant resolution; B: the first quarter at double resolution; C: the last ticks of the bar at
            # triple resolution (a tick is not the same length everywhere in the bar)
            tabs = (
                ([[0, F]], full_a),
                ([[0, 2 * F], [2 * F, F]], full_a + F),
                ([[0, F], [full_a - 2, 3 * F]], full_a + 4),
            )
            for tab, full in tabs:
                ends = {full - k for k in ks} | {1, 2, F // 2, full // 2}
                for tk in t0s:
                    for style in (("ctor",) if tk != "2F+1" else (("set",) if scope == "core" else ("ctor", "set"))):
                        t0 = {"0": 0, "2F+1": 2 * F + 1, "big": BIG_OFFSET}[tk]
                        last = t0 + full + 2 * F + 3
                        divs = shift_divs(tab, t0, style)
                        ts = [[t0, b, bt]]
                        ref = RefMaps(dict(t0=t0, last=last, divs=divs, ts=ts, m=None))
                        for e in sorted(ends):
                            if not 0 < e < last - t0:
                                continue
                            miss = 1 - ref.raw(t0 + e, "q") / barq
                            if 0 < miss < FINE_REL:
                                continue
                            yield dict(t0=t0, last=last, divs=divs, ts=ts, m=[t0, t0 + e], grid=F,
                                       hist=universal_history(ts), hid="U")


GENS = [("fine-pickups", gen_fine), ("quarter-tables", gen_quarter), ("signature-tables", gen_ts), ("mixed-changes", gen_mixed),
        ("beat-mode-histories", gen_modes), ("edited-parts", gen_edits), ("edge-shapes", gen_edge),
        ("meter-alphabet", gen_meters)]
NBLOCKS = 24

BOUNDS = {
    "fine-pickups": "fine time resolution: F divisions per quarter (constant / first quarter at 2F / last two ticks of "
                    "the first bar at 3F), one signature out of 10 meters, first point 0 | 2F+1 | 2**24+1, first measure "
                    "ending k ticks before the full bar (k=0 full, k<0 over-full) or after 1, 2, F/2, bar/2 ticks, one more "
                    "measure of 2 quarters + 3 ticks, universal 4-step beat-mode history; maps compared at every multiple of "
                    "F/2 and at +-2, +-1, +-1/2 tick, +-1e-6 around the first/last point, every change point and the end of "
                    "the first measure; first measures missing less than 2e-5 of the bar (> 0) not generated (pickup test "
                    "of the implementation is relative, proposed_fixes/C02-s-pickup-resolution.diff)",
    "quarter-tables": "first point 0|2 (table from time 0 or set at the first point), length 6, <=2 interior "
                      "quarter changes at every position pair, values differ from predecessor, one signature, "
                      "first measure none or ending at every position, universal 4-step beat-mode history",
    "signature-tables": "first point 0|2, length 6, constant divisions, signature at the first point plus <=2 later "
                        "ones at every position (incl. the last point), first measure none/every end",
    "mixed-changes": "first point 0|2, length 5, 1 quarter change x 1 signature change at every position pair "
                     "(coinciding or not) and 2 x 2 at every position quadruple, first measure none/every end",
    "beat-mode-histories": "every history of use_musical_beat(none|one|all)/use_notated_beat/set_musical_beat_per_ts"
                           "(one|other|{}) up to the depth on 48 structures; docstring-ambiguous histories excluded",
    "edited-parts": "16 base parts (first point 0|2, length 5, 0|1 quarter change, 1|2 signatures, pickup or no first "
                    "measure); maps evaluated, then 1 or 2 edits (set_quarter_duration at any position incl. existing "
                    "change points, add/remove a time signature, add a first measure, move the last point), maps "
                    "re-evaluated after every edit, then default musical beats",
    "edge-shapes": "single-point and two-point parts, no signature, late first signature, measure not at the first "
                   "point, quarter changes before/at the first and at/after the last point, long bars with every "
                   "pickup length",
    "meter-alphabet": "every time signature numerator 1..N x beat type, (A) alone: first point 0|2, length 6, constant "
                      "divisions or one quarter change, first measure none/every end; (B) after 4/4 or before 6/8 with "
                      "the change at every position (incl. the last point), first measure none/1 division/whole part; "
                      "5-step beat-mode history: default musical beats, user value for every signature, defaults again "
                      "via set_musical_beat_per_ts({}), notated, user value for the meter under test only",
}
CORE_TXT = {
    "fine-pickups": "core: F in {480, 960, 10080}, k in {-1,0,1,2,3,4,7,24}, first point 0 or 2F+1 (table set at the first point)",
    "quarter-tables": "core: divisions {1,2,3}, meters 4/4 6/8 5/8 3/2, first point 2 only with the table set at the first point",
    "signature-tables": "core: divisions {1,2}; 1 change over 4/4 6/8 5/8 3/2, 2 changes over 4/4 6/8 3/2",
    "mixed-changes": "core: divisions q0 {1,2} -> {1,2,3}, meters 4/4 6/8 3/2; 2x2 with two fixed value sequences",
    "beat-mode-histories": "core: depth 3 on the 24 structures with first point 0",
    "edited-parts": "core: every single edit on every base; every pair over a reduced alphabet on 4 bases",
    "edge-shapes": "core: bars up to 14 divisions",
    "meter-alphabet": "core: numerators 1..24; (A) beat types 2 4 8 16, divisions 2 or 1->2; (B) beat types 4 8, first "
                      "point 0, divisions 2",
}
FULL_TXT = {
    "fine-pickups": "F in {24,96,120,256,384,480,768,960,1024,1920,3840,5040,10080,15360,20160}, k in {-2..7,10,24,50,101}, "
                    "first point 0, 2F+1 (table from time 0 or set at the first point), 2**24+1 (table from time 0)",
    "quarter-tables": "divisions {1,2,3,4,6}, all 10 meters, plus 3 changes (t0=0, 3 meters, 4 measures)",
    "signature-tables": "divisions {1,2,3}; 1 change over all 10 meters, 2 changes over 4/4 6/8 5/8 3/2 9/8",
    "mixed-changes": "q0 {1,2,3} -> {1,2,3,4,6}, meters 4/4 6/8 5/8 3/2 9/8; 2x2 over divisions {1,2,3} and 4/4 6/8 3/2",
    "beat-mode-histories": "depth 4 on all 48 structures",
    "edited-parts": "every single edit and every pair of edits over the full alphabet on every base",
    "edge-shapes": "bars up to 36 divisions",
    "meter-alphabet": "numerators 1..32, beat types 1 2 4 8 16 32; (A) divisions 1, 2, 3 or 1->2; (B) first point 0|2, "
                      "divisions 2 or 3->1, first measure also 3 divisions",
}


def _key(c):
    """compact identity of a case (the history is identified by its id inside the sub-space)"""
    return repr((c["t0"], c["last"], c["divs"], c["ts"], c["m"], c["hid"]))


def _block(key):
    """deterministic block number of a case key (crc32: the sha1 of mc.core.block_of over the full JSON
    costs 20 us per case, too slow for filtering 5*10^5 cases in the feeding process)"""
    return zlib.crc32(key.encode()) % NBLOCKS


def spaces(tier, seed):
    out = []
    for name, gen in GENS:
        if tier == "thorough":
            def cases(gen=gen):
                seen = set()
                for scope in ("core", "full"):
                    for c in gen(scope):
                        k = _key(c)
                        if k not in seen:
                            seen.add(k)
                            yield c
            out.append(Space(name, cases, exhaustive=True, bounds=BOUNDS[name] + "; " + FULL_TXT[name]))
        else:
            def core(gen=gen):
                seen = set()
                for c in gen("core"):
                    k = _key(c)
                    if k not in seen:
                        seen.add(k)
                        yield c

            out.append(Space(name + "/core", core, exhaustive=True, bounds=BOUNDS[name] + "; " + CORE_TXT[name]))
            blk = seed % NBLOCKS

            def block(gen=gen, blk=blk):
                core_keys = set(_key(c) for c in gen("core"))
                for c in gen("full"):
                    k = _key(c)
                    if _block(k) == blk and k not in core_keys:
                        yield c
            out.append(Space(name + "/block%d" % blk, block, exhaustive=True,
                             bounds="block %d of %d (crc32 of the case key) of the thorough scope: %s" % (blk, NBLOCKS, FULL_TXT[name])))
    return out


TRIGGERS = {}

if __name__ == "__main__":
    import checks.c02 as _m

    run_check(_m)
