"""C16 - transposition moves every pitched note by the interval and leaves the input alone.

Sub-spaces (each enumerated completely):
  grid        all 7 steps x alterations -2..2 x octaves 0..8 (315 pitches, three octaves per part) x all 39
              interval classes x up/down x {Part, Score} argument; only pitches whose result needs at most two
              accidentals are placed in the part (the quantifier's restriction)
  tie-spell   tie chains whose notes are spelled differently: every sequence of 2 spellings (|alter| <= 2, e.g.
              G#4~Ab4, B#3~C4; identical spellings included) of every sounding pitch MIDI 60..71 x 39 interval
              classes x up/down x {Part, Score} argument, all chains that stay in range in one part
  tie-spell3  the same with chains of 3 notes (four parts of three sounding pitches each; quick runs the hash
              block VERIF_SEED % 4 of the cases)
  small-core  every sequence of <= 2 slots over {note, other note, chord, rest, unpitched note, the three pitched
              slots also preceded by a grace note} x every choice of ties between adjacent slots x bare /
              decorated (measure, signatures, clef, directions, slur, tuplet, fermata) x 5 argument kinds
              x 6 intervals
  small-full  as small-core with <= 3 slots x all 44 interval/direction pairs that keep the pitches used within two
              accidentals (thorough); quick runs the hash block VERIF_SEED % 64 of it
  long        magnitude dimension of the small scores: every regular pattern (one slot, or two different slots,
              repeated; untied / every common pitch tied across, e.g. one tie chain through the whole part) as a
              part of 30, 120 and 500 slots (= time points) x bare / decorated x 5 argument kinds, the time
              scale (2 or 20160 divisions per quarter, first slot at 0 or at 2**31+1 divisions) and the interval
              cycled; quick runs the diagonal block VERIF_SEED % 10 (every pattern x every length once)
  note        transpose_note / step2pc for all steps x alterations x 39 interval classes (upward)
  interval    Interval(number, quality, direction).semitones for the 39 classes
  localkey    process_local_key for 42 key names x 14 degrees x 5 accidental prefixes
  roman       RomanNumeral root and bass note for 42 local keys x 49 x 49 degrees x inversions 1..3

On every transposition case: the argument's (and its score's) fingerprint is unchanged, the result is a new
object of the same kind sharing nothing with the argument, every pitched note has the step / alteration /
octave the reference arithmetic gives, transposing the result back restores every spelling, and the result
with the original pitches written back has the argument's fingerprint (nothing else changed).

Oracle: mc/c16_model.py (diatonic index / MIDI arithmetic written from music theory).
"""
import hashlib

from mc.core import CaseResult, Space, run_check, guarded, innermost_partitura_frame, exc_text
from mc import c16_model as M
from mc import fingerprint as F
from mc import ir

PID = "C16"
RULE = (
    "grid: one case per (interval class, direction, argument kind, octave triple), all in-range pitches of the "
    "triple in one part; tie-spell: one case per (interval class, direction, argument kind[, group of three sounding "
    "pitches]), all in-range chains one after the other in one part; small: one case per (slot sequence, ties, decoration, argument kind, interval); "
    "long: one case per (pattern, tied?, number of slots, decoration, argument kind), scale and interval cycled; "
    "note/localkey/roman: one case per interval class / (key, degree) with all remaining coordinates looped "
    "inside; non-trivial = at least one pitched note (or one in-range combination) was compared"
)
ASSUMPTIONS = [
    "alter None and alter 0 denote the same pitch (accepted both ways in arguments and results)",
    "a result is compared only where it needs at most two accidentals (the quantifier's restriction); parts "
    "handed to transpose contain only such pitches",
    "'all other elements unchanged' is evaluated as: the result, with the original step/alter/octave written "
    "back into its pitched notes (matched by id), has the same identity-free fingerprint (mc/fingerprint.py) "
    "as the argument had before the call",
    "'new score or part' is read as: the result is not the argument and shares no Part, Note or TimePoint object with it",
    "chord roots: which interval a degree stands for is taken from the implementation's own tables "
    "(Roman2Interval_Maj/Min; for a degree not listed there LOCAL_KEY_TRASPOSITIONS_DCML for its letters, one "
    "semitone wider per '#' and narrower per 'b' in front); a key or degree is minor iff it is written in lower "
    "case; only the arithmetic applied to these intervals is checked; key names are letter + '', '#' or 'b'; "
    "numerals are built from explicit constructor arguments (the text parser is not part of the property); "
    "root-position numerals (inversion 0), for which the implementation computes no root, are not generated",
    "bass notes: any chord quality is accepted - the bass must lie a third (3-4 semitones), fifth (6-8) or "
    "seventh (9-11) above the root on the right letter; an AssertionError of transpose_note is accepted where "
    "one of these needs more than two accidentals",
    "long parts: the statement puts no bound on the length of a score, the space long stops at 500 time points because "
    "transpose() copies with copy.deepcopy under a recursion limit of 10000 frames and these parts need 12-16 "
    "frames per time point (measured: RecursionError from 620-830 time points on, a defect reported with its repair "
    "in proposed_fixes/C16-s-long-timeline-recursion.diff; repaired in /repo ec35dac: 1100 slots are enumerated in both tiers, 2600 in thorough); times are Python ints in the point list, so no dtype limits the scale/offset",
    "mc/ir.py builds the arguments through Part.add and attribute links; mc/fingerprint.py reads instance "
    "dictionaries and the point array",
]
CHUNK = 6

B_TIE3 = 4    # blocks of the thorough three-note enharmonic tie chain space
B_LONG = 10   # blocks of the thorough long-part space (one per (decoration, argument kind) diagonal)
B_SMALL = 64  # blocks of the thorough small-score space; quick adds block seed % B_SMALL to its core


# ---------------------------------------------------------------------------------------------
# spaces

OCT_TRIPLES = ((0, 1, 2), (3, 4, 5), (6, 7, 8))
DEGREES = ("I", "II", "III", "III+", "IV", "V", "VI", "VII", "i", "ii", "iii", "iv", "v", "vi", "vii", "viio",
           "N", "iio", "Ger7", "Fr7", "It")
LK_DEGREES = ("i", "ii", "iii", "iv", "v", "vi", "vii", "I", "II", "III", "IV", "V", "VI", "VII")
LK_PREFIX = ("", "#", "b", "##", "bb")
ALL_DEGREES = DEGREES + tuple(p + d for p in ("b", "#") for d in LK_DEGREES)

CORE_INTERVALS = ((2, "M", "up"), (3, "m", "down"), (1, "P", "up"), (1, "A", "down"), (5, "d", "up"), (7, "M", "down"))


def _grid_cases():
    for n, q, _ in M.interval_classes():
        for direction in ("up", "down"):
            for kind in ("part", "score1"):
                for octs in OCT_TRIPLES:
                    yield {"space": "grid", "iv": [n, q, direction], "arg": kind, "octs": list(octs)}


def _tie2_cases():
    for n, q, _ in M.interval_classes():
        for direction in ("up", "down"):
            for kind in ("part", "score1"):
                yield {"space": "tiespell", "iv": [n, q, direction], "arg": kind, "len": 2, "midis": list(M.TIE_MIDI)}


def _tie3_cases(block=None):
    for i, (n, q, _) in enumerate(M.interval_classes()):
        for d, direction in enumerate(("up", "down")):
            for k, kind in enumerate(("part", "score1")):
                for g, midis in enumerate(M.TIE_GROUPS):
                    if block is not None:
                        h = hashlib.sha1(b"tie3,%d,%d,%d,%d" % (i, d, k, g)).digest()
                        if int.from_bytes(h[:4], "big") % B_TIE3 != block:
                            continue
                    yield {"space": "tiespell", "iv": [n, q, direction], "arg": kind, "len": 3, "midis": list(midis)}


def _tie3_block(b):
    return lambda: _tie3_cases(b)


def _small_case(seq, ties, deco, kind, iv):
    return {"space": "small", "seq": list(seq), "ties": list(ties), "deco": deco, "arg": kind, "iv": list(iv)}


def _small_core():
    assert set(CORE_INTERVALS) <= set(M.admissible_intervals())
    for seq, ties in M.structures(2):
        for deco in (0, 1):
            for kind in M.ARGKINDS:
                for iv in CORE_INTERVALS:
                    yield _small_case(seq, ties, deco, kind, iv)


def _small_full(block=None):
    """every (structure, decoration, argument kind, interval) tuple; with `block` only the tuples of that
    hash block (sha1 of the four indices, cheaper than hashing the case dictionary)"""
    adm = M.admissible_intervals()
    for i, (seq, ties) in enumerate(M.structures(3)):
        for deco in (0, 1):
            for k, kind in enumerate(M.ARGKINDS):
                for j, iv in enumerate(adm):
                    if block is not None:
                        h = hashlib.sha1(b"%d,%d,%d,%d" % (i, deco, k, j)).digest()
                        if int.from_bytes(h[:4], "big") % B_SMALL != block:
                            continue
                    yield _small_case(seq, ties, deco, kind, iv)


def _small_block(b):
    return lambda: _small_full(b)


def _long_cases(block=None):
    """every (pattern, length, decoration, argument kind); the time scale and the interval are cycled with the
    indices. Block b = the diagonal (pattern index + 3 * length index + combination index) % 10 == b, which
    holds every (pattern, length) pair exactly once and every (length, decoration, argument kind) triple with
    9-10 patterns."""
    assert set(CORE_INTERVALS) <= set(M.admissible_intervals())
    for bi, (base, tied) in enumerate(M.long_bases()):
        for ni, n in enumerate(M.LONG_N + (M.LONG_N_THOROUGH if block is None else ())):
            for deco in (0, 1):
                for k, kind in enumerate(M.ARGKINDS):
                    ci = deco * len(M.ARGKINDS) + k
                    if block is not None and (bi + 3 * ni + ci) % B_LONG != block:
                        continue
                    d, off = M.LONG_SCALES[(bi + ni + ci) % len(M.LONG_SCALES)]
                    iv = CORE_INTERVALS[(bi + 2 * ni + ci) % len(CORE_INTERVALS)]
                    yield {"space": "long", "base": list(base), "tied": tied, "n": n, "deco": deco, "arg": kind,
                           "d": d, "off": off, "iv": list(iv)}


def _long_block(b):
    return lambda: _long_cases(b)


def _note_cases():
    for n, q, _ in M.interval_classes():
        yield {"space": "note", "iv": [n, q]}


def _reuse_cases():
    for n, q, _ in M.interval_classes():
        for direction in ("up", "down"):
            yield {"space": "reuse", "iv": [n, q, direction]}


def _localkey_cases():
    for name, step, alter, minor in M.key_names():
        for deg in LK_DEGREES:
            yield {"space": "localkey", "key": name, "deg": deg}


def _roman_cases():
    for name, step, alter, minor in M.key_names():
        for sec in ALL_DEGREES:
            yield {"space": "roman", "key": name, "sec": sec}


def spaces(tier, seed):
    nadm = len(M.admissible_intervals())
    out = [
        Space("grid", _grid_cases, True,
              "7 steps x alter -2..2 x octaves 0..8 (three octaves per part, only pitches whose result has |alter|<=2) "
              "x 39 interval classes x up/down x argument {Part, Score}; up-then-down (down-then-up) round trip on every case"),
        Space("note", _note_cases, True, "transpose_note: 7 steps x alter -2..2 x 39 interval classes (results with |alter|<=2); "
              "step2pc: 7 steps x alter -2..2"),
        Space("interval", [{"space": "interval"}], True, "Interval(number, quality, direction).semitones: 39 classes x 2 directions"),
        Space("interval-reuse", _reuse_cases, True,
              "39 interval classes x 2 directions: an Interval object that was used, then changed in place with change_quality(+-1), "
              "transposes like a fresh Interval of the new class"),
        Space("localkey", _localkey_cases, True,
              "process_local_key: 42 key names (7 letters x {'', '#', 'b'} x major/minor) x 14 degrees x prefixes {'', '#', 'b', '##', 'bb'}, "
              "string and (step, alter) result"),
        Space("roman", _roman_cases, True,
              "RomanNumeral(local_key, secondary, primary, inversion): 42 keys x 49 x 49 degrees (21 listed Roman numerals + "
              "14 degree letters with a 'b' or '#' in front) x inversions 1..3"),
    ]
    out.append(Space("tie-spell", _tie2_cases, True,
                     "tie chains of 2 notes with every pair of spellings (|alter| <= 2, also across the octave line: B#3~C4, "
                     "identical pairs included) of every sounding pitch MIDI 60..71 (103 chains; only chains whose notes all stay "
                     "within two accidentals are placed in the part) x 39 interval classes x up/down x argument {Part, Score}; "
                     "round trip on every case"))
    tie3 = ("tie chains of 3 notes with every triple of spellings of every sounding pitch MIDI 60..71 (305 chains, "
            "in four parts of three sounding pitches each) x 39 interval classes x up/down x argument {Part, Score}")
    if tier == "quick":
        out.append(Space("tie-spell3-block", _tie3_block(seed % B_TIE3), True,
                         "hash block %d of %d of the cases of the thorough space tie-spell3 (%s)" % (seed % B_TIE3, B_TIE3, tie3)))
    else:
        out.append(Space("tie-spell3", _tie3_cases, True, tie3))
    out.append(Space("small-core", _small_core, True,
                     "all slot sequences of length <= 2 (8 slot kinds: note, other note, chord, rest, unpitched, the three pitched "
                     "ones also with a grace note) x all tie choices x bare/decorated x 5 argument kinds (Part, one-part Score, "
                     "two-part Score, Score with a part group, Part that is a member of a group) "
                     "x %d intervals (M2 up, m3 down, P1 up, A1 down, d5 up, M7 down)" % len(CORE_INTERVALS)))
    full = ("all slot sequences of length <= 3 x all tie choices x bare/decorated x 5 argument kinds x all %d interval/direction "
            "pairs that keep the six pitches used within two accidentals" % nadm)
    if tier == "quick":
        out.append(Space("small-block", _small_block(seed % B_SMALL), True,
                         "hash block %d of %d of the thorough space small-full (%s)" % (seed % B_SMALL, B_SMALL, full)))
    else:
        out.append(Space("small-full", _small_full, True, full))
    assert B_LONG == 2 * len(M.ARGKINDS)
    long_ = ("long instances of the small scores: all %d regular patterns (every sequence of one slot or of two different "
             "slots out of the 8 slot kinds, repeated to the length; no ties / every pitch common to adjacent slots tied across, "
             "which makes tie chains through the whole part) x %s slots (one time point and one quarter per slot) x bare/decorated "
             "x 5 argument kinds; cycled with the indices, not multiplied: time scale %s (divisions per quarter, time of the "
             "first slot) and the %d intervals of small-core" % (
                 len(M.long_bases()), "/".join(map(str, M.LONG_N)), ", ".join("(%d, %d)" % sc for sc in M.LONG_SCALES),
                 len(CORE_INTERVALS)))
    if tier == "quick":
        out.append(Space("long-block", _long_block(seed % B_LONG), True,
                         "diagonal block %d of %d of the thorough space long: every (pattern, length) pair once, with the "
                         "(decoration, argument kind) combination (pattern index + 3 x length index + %d) mod 10 (%s)" % (
                             seed % B_LONG, B_LONG, seed % B_LONG, long_)))
    else:
        out.append(Space("long", _long_cases, True, long_))
    return out


# ---------------------------------------------------------------------------------------------
# evaluation helpers


def _pitched(part):
    """id -> Note object for every pitched note registered on the part (read from the point array)."""
    import partitura.score as S

    out = {}
    dup = []
    for o in F.part_objects(part):
        if isinstance(o, S.Note):
            if o.id in out:
                dup.append(o.id)
            out[o.id] = o
    return out, dup


def _spec_pitches(spec):
    return {o["id"]: (o["step"], o.get("alter"), o["oct"]) for o in spec["objs"] if o["k"] in ("note", "grace")}


def _obs(n):
    return [n.step, n.alter if n.alter is not None else 0, n.octave]


def _fp(x):
    import partitura.score as S

    return F.fp_score(x) if isinstance(x, S.Score) else F.fp_part(x)


def _build_arg(kind, main_spec, other):
    """-> (argument, container whose fingerprint must not change, [(part spec, accessor)])"""
    import partitura.score as S

    if kind == "part":
        p = ir.build_part(main_spec)
        return p, p, [main_spec]
    if kind == "score1":
        sc = ir.build_score({"parts": [main_spec]})
        return sc, sc, [main_spec]
    if kind == "score2":
        sc = ir.build_score({"parts": [other, main_spec], "meta": {"id": "sc", "title": "t"}})
        return sc, sc, [other, main_spec]
    if kind == "group":
        sc = ir.build_score({"parts": [{"group": {"symbol": "brace", "name": "grp", "number": 1}, "children": [main_spec, other]}]})
        return sc, sc, [main_spec, other]
    if kind == "member":
        sc = ir.build_score({"parts": [{"group": {"symbol": "brace", "name": "grp", "number": 1}, "children": [other, main_spec]}]})
        return sc.parts[1], sc, [main_spec]
    raise ValueError(kind)


def _parts_of(x):
    import partitura.score as S

    return list(x.parts) if isinstance(x, S.Score) else [x]


def _check_transposition(res, kind, main_spec, other, iv, roles):
    """The whole first sentence of the statement plus the round trip, on one argument."""
    import partitura.score as S
    from partitura.utils.music import transpose

    n, q, direction = iv
    arg, container, pspecs = _build_arg(kind, main_spec, other)
    fp_container = _fp(container)
    fp_arg = fp_container if container is arg else _fp(arg)
    arg_parts = _parts_of(arg)
    arg_ids = set()
    for p in arg_parts:
        arg_ids.add(id(p))
        arg_ids.update(id(tp) for tp in p._points)
        arg_ids.update(id(o) for o in F.part_objects(p))

    iv = S.Interval(n, q, direction)
    ok, result = guarded(res, "transpose-returns", transpose, arg, iv)
    res.transitions += 1
    if not ok:
        return "exception"

    # the argument (and everything it belongs to) is not modified
    after = _fp(container)
    if after != fp_container:
        res.fail("argument-unmodified", expected="fingerprint of the argument as before the call", observed=F.diff(fp_container, after)[:3],
                 where="utils/music.py:transpose", detail="arg=%s interval=%s%d %s" % (kind, q, n, direction))

    # a new object of the same kind
    want_type = S.Score if isinstance(arg, S.Score) else S.Part
    if not isinstance(result, want_type):
        res.fail("new-object", expected=want_type.__name__, observed=type(result).__name__, where="utils/music.py:transpose")
        return "wrong-type"
    res_parts = _parts_of(result)
    if result is arg:
        res.fail("new-object", expected="a new object", observed="the argument itself", where="utils/music.py:transpose")
    else:
        shared = 0
        for p in res_parts:
            shared += int(id(p) in arg_ids)
            shared += sum(1 for tp in p._points if id(tp) in arg_ids)
            shared += sum(1 for o in F.part_objects(p) if id(o) in arg_ids)
        if shared:
            res.fail("new-object", expected="no part, note or time point shared with the argument", observed="%d shared objects" % shared,
                     where="utils/music.py:transpose")
    if len(res_parts) != len(pspecs):
        res.fail("others-unchanged", expected="%d parts" % len(pspecs), observed="%d parts" % len(res_parts), where="utils/music.py:transpose")
        return "part-count"

    # every pitched note moved
    moved = 0
    wrong = []
    originals = []
    moved_to = []
    for pi, (spec, rp) in enumerate(zip(pspecs, res_parts)):
        want = _spec_pitches(spec)
        have, dup = _pitched(rp)
        if dup or set(have) != set(want):
            res.fail("others-unchanged", expected=sorted(want), observed=sorted(have) + ["dup:%s" % d for d in dup],
                     where="utils/music.py:transpose", detail="pitched note ids of part %d" % pi)
            return "note-set"
        for nid in sorted(want):
            s, a, o = want[nid]
            exp = list(M.move(s, a, o, n, q, direction))
            got = _obs(have[nid])
            originals.append((have[nid], want[nid]))
            moved_to.append(got)
            moved += 1
            if got != exp:
                wrong.append((nid, [s, a or 0, o], exp, got, roles.get(nid, "note")))
    for nid, orig, exp, got, role in wrong[:4]:
        res.fail("note-moved", expected=exp, observed=got, where="utils/music.py:_transpose_note_inplace",
                 detail="%s %s (%s) by %s%d %s, arg=%s" % (role, nid, "%s%+d/%d" % tuple(orig), q, n, direction, kind))
    res.states += moved

    # up then down (down then up) restores the spelling
    # "up and then down by the same interval": the very same Interval object, with its direction reversed
    # (alternating with a freshly built one), so that state remembered per interval object shows up too
    if (n + len(q)) % 2:
        iv.direction = M.inverse(direction)
        back_iv = iv
    else:
        back_iv = S.Interval(n, q, M.inverse(direction))
    ok, back = guarded(res, "roundtrip", transpose, result, back_iv)
    res.transitions += 1
    if ok and isinstance(back, want_type) and len(_parts_of(back)) == len(pspecs):
        bad = []
        for spec, bp in zip(pspecs, _parts_of(back)):
            want = _spec_pitches(spec)
            have, _ = _pitched(bp)
            for nid in sorted(want):
                s, a, o = want[nid]
                got = _obs(have[nid]) if nid in have else None
                if got != [s, a or 0, o]:
                    bad.append((nid, [s, a or 0, o], got))
        for nid, exp, got in bad[:2]:
            res.fail("roundtrip", expected=exp, observed=got, where="utils/music.py:_transpose_note_inplace",
                     detail="note %s after %s%d %s then %s, arg=%s" % (nid, q, n, direction, M.inverse(direction), kind))
    elif ok:
        res.fail("roundtrip", expected=want_type.__name__, observed=type(back).__name__, where="utils/music.py:transpose")
    # ... and the first result, now itself an argument, kept its pitches
    changed = [(note.id, exp, _obs(note)) for (note, _), exp in zip(originals, moved_to) if _obs(note) != exp]
    for nid, exp, got in changed[:2]:
        res.fail("argument-unmodified", expected=exp, observed=got, where="utils/music.py:transpose",
                 detail="note %s of the first result after transposing that result back, arg=%s" % (nid, kind))

    # everything else is unchanged: write the original pitches back and compare fingerprints
    for note, (s, a, o) in originals:
        note.step, note.alter, note.octave = s, a, o
    fp_res = _fp(result)
    if want_type is S.Part:
        # whether the copy of a single part still hangs in (a copy of) its group is left open
        fp_res, fp_arg = fp_res[:2] + fp_res[3:], fp_arg[:2] + fp_arg[3:]
    if fp_res != fp_arg:
        res.fail("others-unchanged", expected="result equals the argument apart from step/alter/octave of pitched notes",
                 observed=F.diff(fp_arg, fp_res)[:3], where="utils/music.py:transpose",
                 detail="arg=%s interval=%s%d %s" % (kind, q, n, direction))
    return "ok" if not res.violations else "violation"


# ---------------------------------------------------------------------------------------------
# eval


def eval_case(case):
    sp = case["space"]
    if sp == "grid":
        return _eval_grid(case)
    if sp == "small":
        return _eval_small(case)
    if sp == "tiespell":
        return _eval_tiespell(case)
    if sp == "long":
        return _eval_long(case)
    if sp == "note":
        return _eval_note(case)
    if sp == "interval":
        return _eval_interval(case)
    if sp == "reuse":
        return _eval_reuse(case)
    if sp == "localkey":
        return _eval_localkey(case)
    if sp == "roman":
        return _eval_roman(case)
    raise ValueError(sp)


def _eval_reuse(case):
    """an Interval object changed in place (change_quality / direction) transposes like a freshly built
    interval with the same number, quality and direction"""
    import partitura.score as S
    from partitura.utils.music import transpose

    res = CaseResult(states=0, transitions=0, traces=1)
    n, q, direction = case["iv"]
    pitches = [p for p in M.grid_pitches([3, 4]) if M.in_range(p, n, q, direction)]
    spec = M.grid_spec(pitches)
    from mc import ir
    part = ir.build_part(spec)
    iv = S.Interval(n, q, direction)
    ok, first = guarded(res, "transpose-returns", transpose, part, iv)
    res.transitions += 1
    out = []
    for delta in (-1, 1):
        try:
            iv2 = S.Interval(n, q, direction)
            iv2.change_quality(delta)
            target = (iv2.number, iv2.quality, iv2.direction)
        except Exception:
            continue
        if (target[0], target[1]) not in {(a, b) for a, b, _ in M.interval_classes()}:
            continue
        ps = [p for p in pitches if M.in_range(p, target[0], target[1], target[2])]
        if not ps:
            continue
        sp2 = M.grid_spec(ps)
        from mc import ir
        p_a, p_b = ir.build_part(sp2), ir.build_part(sp2)
        used = S.Interval(n, q, direction)
        guarded(res, "transpose-returns", transpose, ir.build_part(sp2), used)   # the object has been used before
        used.change_quality(delta)
        ok1, r1 = guarded(res, "transpose-returns", transpose, p_a, used)
        ok2, r2 = guarded(res, "transpose-returns", transpose, p_b, S.Interval(*target))
        res.transitions += 3
        res.states += len(ps)
        if ok1 and ok2:
            a = sorted((o.id, o.step, o.alter or 0, o.octave) for o in F.part_objects(r1) if isinstance(o, S.Note))
            b = sorted((o.id, o.step, o.alter or 0, o.octave) for o in F.part_objects(r2) if isinstance(o, S.Note))
            if a != b:
                bad = [(x, y) for x, y in zip(a, b) if x != y][:2]
                res.fail("note-moved", expected=[y for _, y in bad], observed=[x for x, _ in bad], where="utils/music.py:_transpose_note_inplace",
                         detail="Interval(%d, %r, %r) after change_quality(%+d) vs a fresh Interval%r" % (n, q, direction, delta, target))
        out.append(target[1])
    res.nontrivial = bool(out)
    res.states = max(res.states, 1)
    res.outcome = "reuse %s" % ",".join(out)
    return res


def _eval_grid(case):
    res = CaseResult(states=0, transitions=0, traces=1)
    n, q, direction = case["iv"]
    pitches = [p for p in M.grid_pitches(case["octs"]) if M.in_range(p, n, q, direction)]
    spec = M.grid_spec(pitches)
    out = _check_transposition(res, case["arg"], spec, None, (n, q, direction), {})
    res.nontrivial = bool(pitches)
    res.outcome = "grid %s %d/105 pitches in range" % (out, len(pitches))
    return res


def _eval_tiespell(case):
    res = CaseResult(states=0, transitions=0, traces=1)
    n, q, direction = case["iv"]
    chains = [c for c in M.spelled_chains(case["len"], case["midis"]) if M.chain_in_range(c, n, q, direction)]
    spec, roles = M.chains_spec(chains)
    out = _check_transposition(res, case["arg"], spec, None, (n, q, direction), roles)
    mixed = sum(1 for c in chains if any(p != c[0] for p in c))
    res.nontrivial = mixed > 0
    res.outcome = "ties %s %d chains in range, %d enharmonic" % (out, len(chains), mixed)
    return res


def _eval_small(case):
    res = CaseResult(states=0, transitions=0, traces=1)
    spec, roles = M.small_spec(case["seq"], case["ties"], case["deco"])
    other, other_roles = M.other_spec()
    out = _check_transposition(res, case["arg"], spec, other, tuple(case["iv"]), dict(other_roles, **roles))
    kinds = sorted(set(roles.values()))
    res.nontrivial = bool(roles) or case["arg"] in ("score2", "group")
    res.outcome = "small %s roles=%s" % (out, ",".join(kinds) or "none")
    return res


def _eval_long(case):
    res = CaseResult(states=0, transitions=0, traces=1)
    seq, ties = M.long_structure(tuple(case["base"]), case["tied"], case["n"])
    spec, roles = M.small_spec(seq, ties, case["deco"], d=case["d"], offset=case["off"])
    other, other_roles = M.other_spec()
    out = _check_transposition(res, case["arg"], spec, other, tuple(case["iv"]), dict(other_roles, **roles))
    kinds = sorted(set(roles.values()))
    res.nontrivial = bool(roles) or case["arg"] in ("score2", "group")
    res.outcome = "long %s n=%d roles=%s" % (out, case["n"], ",".join(kinds) or "none")
    return res


def _eval_note(case):
    import partitura.score as S
    from partitura.utils.music import transpose_note, step2pc

    res = CaseResult(states=0, transitions=0, traces=1)
    n, q = case["iv"]
    cnt = 0
    for s in M.LETTERS:
        for a in (-2, -1, 0, 1, 2):
            exp = M.move_class(s, a, n, q)
            if abs(exp[1]) > 2:
                continue
            cnt += 1
            ok, got = guarded(res, "chord-root-arithmetic", transpose_note, s, a, S.Interval(n, q))
            res.transitions += 1
            if ok and (not isinstance(got, tuple) or len(got) != 2 or [got[0], got[1]] != [exp[0], exp[1]]):
                res.fail("chord-root-arithmetic", expected=list(exp), observed=got, where="utils/music.py:transpose_note",
                         detail="transpose_note(%s, %d, %s%d)" % (s, a, q, n))
    if (n, q) == (1, "P"):
        for s in M.LETTERS:
            for a in (-2, -1, 0, 1, 2):
                ok, got = guarded(res, "chord-root-arithmetic", step2pc, s, a)
                res.transitions += 1
                if ok and got != M.pitch_class(s, a):
                    res.fail("chord-root-arithmetic", expected=M.pitch_class(s, a), observed=got, where="utils/music.py:step2pc",
                             detail="step2pc(%s, %d)" % (s, a))
    res.states = cnt
    res.nontrivial = cnt > 0
    res.outcome = "note %d/35 in range%s" % (cnt, " violation" if res.violations else "")
    return res


def _eval_interval(case):
    import partitura.score as S

    res = CaseResult(states=0, transitions=0, traces=1)
    for n, q, semis in M.interval_classes():
        for direction in ("up", "down"):
            ok, iv = guarded(res, "interval-size", S.Interval, n, q, direction)
            res.transitions += 1
            if not ok:
                continue
            ok, got = guarded(res, "interval-size", lambda: iv.semitones)
            if ok and got != semis:
                res.fail("interval-size", expected=semis, observed=got, where="score.py:Interval.semitones", detail="%s%d" % (q, n))
            if (iv.number, iv.quality, iv.direction) != (n, q, direction):
                res.fail("interval-size", expected=[n, q, direction], observed=[iv.number, iv.quality, iv.direction],
                         where="score.py:Interval.__init__")
            res.states += 1
    res.outcome = "interval %s" % ("violation" if res.violations else "ok")
    return res


def _table_interval(iv):
    return int(iv.number), str(iv.quality)


def _eval_localkey(case):
    import partitura.score as S
    from partitura.utils.globals import LOCAL_KEY_TRASPOSITIONS_DCML as DCML

    res = CaseResult(states=0, transitions=0, traces=1)
    key, deg = case["key"], case["deg"]
    kstep, kalter = M.parse_name(key)
    kminor = key[0].islower()
    cnt = 0
    for prefix in LK_PREFIX:
        shift = prefix.count("#") - prefix.count("b")
        try:
            n, q = DCML["minor" if kminor else "major"][deg.lower()]
        except KeyError:
            continue
        q2 = M.shifted_quality(n, q, shift)
        if q2 is None:
            continue
        exp = M.move_class(kstep, kalter, n, q2)
        if abs(exp[1]) > 2:
            continue
        cnt += 1
        loc = prefix + deg
        ok, got = guarded(res, "chord-root-arithmetic", S.process_local_key, loc, key, True)
        res.transitions += 1
        if ok and (not isinstance(got, tuple) or len(got) != 2 or (str(got[0]).upper(), got[1]) != exp):
            res.fail("chord-root-arithmetic", expected=list(exp), observed=got, where="score.py:process_local_key",
                     detail="process_local_key(%r, %r, return_step_alter=True): %s%d above %s" % (loc, key, q2, n, key))
        ok, got = guarded(res, "chord-root-arithmetic", S.process_local_key, loc, key)
        res.transitions += 1
        if ok:
            parsed = M.parse_name(got)
            if parsed != exp or (got[0].islower() != deg.islower()):
                res.fail("chord-root-arithmetic", expected="%s%+d %s" % (exp[0], exp[1], "minor" if deg.islower() else "major"),
                         observed=got, where="score.py:process_local_key",
                         detail="process_local_key(%r, %r): %s%d above %s" % (loc, key, q2, n, key))
    res.states = cnt
    res.nontrivial = cnt > 0
    res.outcome = "localkey %d/5 in range%s" % (cnt, " violation" if res.violations else "")
    return res


_BASS = {1: (2, (3, 4), (("m", 3), ("M", 3))), 2: (4, (6, 7, 8), (("d", 5), ("P", 5), ("A", 5))),
         3: (6, (9, 10, 11), (("d", 7), ("m", 7), ("M", 7)))}


def _degree_interval(S, deg, minor):
    """(number, quality) the implementation's tables give for a degree in a major/minor context: the Roman
    numeral table if the degree is listed there, otherwise the local-key table for the letters, widened or
    narrowed by the accidentals in front (None: not defined / off the quality ladder)."""
    from partitura.utils.globals import LOCAL_KEY_TRASPOSITIONS_DCML as DCML

    tab = S.Roman2Interval_Min if minor else S.Roman2Interval_Maj
    if deg in tab:
        return _table_interval(tab[deg])
    letters = deg.lstrip("#b")
    try:
        n, q = DCML["minor" if minor else "major"][letters.lower()]
    except KeyError:
        return None
    prefix = deg[: len(deg) - len(letters)]
    q2 = M.shifted_quality(n, q, prefix.count("#") - prefix.count("b"))
    return None if q2 is None else (int(n), q2)


def _eval_roman(case):
    import partitura.score as S

    res = CaseResult(states=0, transitions=0, traces=1)
    key, sec = case["key"], case["sec"]
    kstep, kalter = M.parse_name(key)
    cnt = 0
    t1 = None
    iv1 = _degree_interval(S, sec, key[0].islower())
    if iv1 is not None:
        n1, q1 = iv1
        t1 = M.move_class(kstep, kalter, n1, q1)
    if t1 is not None and abs(t1[1]) <= 2:
        for prim in ALL_DEGREES:
            iv2 = _degree_interval(S, prim, sec.islower())
            if iv2 is None:
                continue
            n2, q2 = iv2
            root = M.move_class(t1[0], t1[1], n2, q2)
            if abs(root[1]) > 2:
                continue
            for inv in (1, 2, 3):
                dstep, semis_ok, cands = _BASS[inv]
                may_assert = any(abs(M.move_class(root[0], root[1], bn, bq)[1]) > 2 for bq, bn in cands)
                cnt += 1
                res.transitions += 1
                what = "RomanNumeral(local_key=%r, secondary_degree=%r, primary_degree=%r, inversion=%d)" % (key, sec, prim, inv)
                try:
                    rn = S.RomanNumeral("%s:%s/%s" % (key, prim, sec), inversion=inv, local_key=key, primary_degree=prim,
                                        secondary_degree=sec, quality="maj")
                except AssertionError as e:
                    if not may_assert:
                        res.fail("chord-root-arithmetic", expected="root %s%+d" % root, observed=exc_text(e), kind="exception",
                                 where=innermost_partitura_frame(e), detail=what)
                    continue
                except Exception as e:  # noqa
                    res.fail("chord-root-arithmetic", expected="root %s%+d" % root, observed=exc_text(e), kind="exception",
                             where=innermost_partitura_frame(e), detail=what)
                    continue
                got_root = M.parse_name(getattr(rn, "root", None))
                if got_root != root:
                    res.fail("chord-root-arithmetic", expected="%s%+d" % root, observed=getattr(rn, "root", None),
                             where="score.py:RomanNumeral.find_root_note", detail=what + ": %s%d then %s%d above %s" % (q1, n1, q2, n2, key))
                    continue
                got_bass = M.parse_name(getattr(rn, "bass_note", None))
                good = False
                if got_bass is not None:
                    letter_ok = M.LETTERS.index(got_bass[0]) == (M.LETTERS.index(root[0]) + dstep) % 7
                    dist = (M.pitch_class(*got_bass) - M.pitch_class(*root)) % 12
                    good = letter_ok and dist in semis_ok
                if not good:
                    res.fail("chord-root-arithmetic",
                             expected="a %s above the root %s%+d" % ((("third", "fifth", "seventh")[inv - 1],) + root),
                             observed=getattr(rn, "bass_note", None), where="score.py:RomanNumeral.find_bass_note", detail=what)
    res.states = cnt
    res.nontrivial = cnt > 0
    res.outcome = "roman ~%d00 combinations in range%s" % (cnt // 100, " violation" if res.violations else "")
    return res


TRIGGERS = {}

if __name__ == "__main__":
    import checks.c16 as _m

    run_check(_m)
