"""C09 - unfolding repeats concatenates segments along a valid path and nothing else.

Enumerates every repeat / ending / navigation structure over M one-bar measures (plus content
variants: ties and slurs across every barline, division / signature changes, grace chains) and
every option combination, and checks on the real implementation:
 (1) copy correctness along the path the implementation itself reports,
 (2) validity of that path against a reference acceptor for the notation,
 (3) exact reference paths on the unambiguous sub-class (maximal / minimal / 2^r variants / identity),
 (4) the argument is not modified and a second call returns an equal result.
"""
import hashlib
import itertools

from mc.core import CaseResult, Space, run_check, innermost_partitura_frame, exc_text, block_of
from mc import ir, canon
from mc import fingerprint as F

PID = "C09"
RULE = ("structures over M measures enumerated by class (none, simple repeats, nested, voltas, navigation, combinations) x "
        "content variants x option combinations; non-trivial = the structure has at least one repeat/ending/navigation mark")
ASSUMPTIONS = [
    "Ending numbers are strings ('1', '1,2') as the MusicXML importer creates them",
    "whether a tie or slur that crosses a segment boundary survives is not asserted; its references must be None or inside the copy",
    "exact maximal paths are asserted for simple repeats, 1|2 and 1,2|3 voltas and a D.C./D.S. written at the end of the piece "
    "(optionally al Fine); exact minimal paths only without navigation marks; all other structures are checked for path validity",
    "Segment helper objects left on the argument are a known finding (see known_findings.json); everything else must be unchanged",
]
CHUNK = 6
STEPS = "CDEFGAB"

# ---------------------------------------------------------------------------------------------
# part construction


def measure_layout(M, content):
    """returns (divs table, [(start, end)] per measure, ts list)"""
    lens = [4] * M
    divs = [[0, 2]]
    ts = [(0, 2, 4)]
    kind = content[0]
    t = 0
    bounds = []
    for i in range(M):
        if kind == "divs" and i == content[1]:
            divs.append([t, 4])
            cur = 8
        elif kind == "divs" and i > content[1]:
            cur = 8
        elif kind == "ts" and i == content[1]:
            ts.append((t, 3, 4))
            cur = 6
        elif kind == "ts" and i > content[1]:
            cur = 6
        else:
            cur = 4
        bounds.append((t, t + cur))
        t += cur
    return divs, bounds, ts


def part_spec(case):
    M = case["M"]
    content = case.get("content", ["plain"])
    divs, bounds, ts = measure_layout(M, content)
    objs = [{"k": "ts", "s": t, "beats": b, "beat_type": bt} for t, b, bt in ts]
    objs.append({"k": "ks", "s": 0, "fifths": 1, "mode": "major"})
    objs.append({"k": "clef", "s": 0, "staff": 1, "sign": "G", "line": 2, "oct": 0})
    kind = content[0]
    two = kind in ("tie", "slur", "tuplet", "two", "grace")
    for i, (s, e) in enumerate(bounds):
        objs.append({"k": "measure", "s": s, "e": e, "number": i + 1, "name": str(i + 1)})
        if two:
            mid = (s + e) // 2
            step_b = STEPS[i % 7]
            # second note of measure i and first note of measure i+1 share the pitch when tied
            objs.append({"k": "note", "s": s, "e": mid, "id": "n%da" % i, "step": STEPS[(i - 1) % 7] if (kind == "tie" and i == content[1] + 1) else step_b,
                         "oct": 4, "voice": 1, "staff": 1})
            nb = {"k": "note", "s": mid, "e": e, "id": "n%db" % i, "step": step_b, "oct": 4, "voice": 1, "staff": 1}
            if kind == "tie" and i == content[1]:
                nb["tie"] = "n%da" % (i + 1)
            objs.append(nb)
            objs.append({"k": "note", "s": s, "e": e, "id": "m%d" % i, "step": STEPS[i % 7], "oct": 3, "voice": 2, "staff": 1})
        else:
            objs.append({"k": "note", "s": s, "e": e, "id": "n%d" % i, "step": STEPS[i % 7], "oct": 4, "voice": 1, "staff": 1})
    if kind == "tie":
        # order matters for ir: tie target must exist -> handled in `later` pass of the builder
        pass
    if kind == "slur":
        b = content[1]
        objs.append({"k": "slur", "a": "n%db" % b, "b": "n%da" % (b + 1)})
        objs.append({"k": "slur", "a": "n%da" % b, "b": "n%db" % b})
    if kind == "tuplet":
        # like the slurs: one tuplet bracket over barline b, one inside measure b (both ends are remapped references)
        b = content[1]
        objs.append({"k": "tuplet", "a": "n%db" % b, "b": "n%da" % (b + 1), "actual": 3, "normal": 2})
        objs.append({"k": "tuplet", "a": "n%da" % b, "b": "n%db" % b, "actual": 3, "normal": 2})
    if kind == "grace":
        j = content[1]
        s = bounds[j][0]
        objs.append({"k": "grace", "s": s, "e": s, "id": "g1", "step": "A", "oct": 4, "voice": 1, "staff": 1, "gtype": "grace", "next": "g2"})
        objs.append({"k": "grace", "s": s, "e": s, "id": "g2", "step": "B", "oct": 4, "voice": 1, "staff": 1, "gtype": "grace", "next": "n%da" % j})
    bt = [b[0] for b in bounds] + [bounds[-1][1]]
    for st in case["struct"]:
        k = st[0]
        if k == "repeat":
            objs.append({"k": "repeat", "s": bt[st[1]], "e": bt[st[2]]})
        elif k == "ending":
            objs.append({"k": "ending", "s": bt[st[1]], "e": bt[st[2]], "number": st[3]})
        else:
            objs.append({"k": k, "s": bt[st[1]]})
    return {"id": "P1", "name": "part", "divs": divs, "objs": objs}, bt


# ---------------------------------------------------------------------------------------------
# reference semantics on measure indices


def classify(struct):
    kinds = [s[0] for s in struct]
    return kinds


def ref_maximal(M, struct, ignore_leaps=True):
    """Measure sequence of the maximal unfolding for the unambiguous class, or None if not in class."""
    reps = [(s[1], s[2]) for s in struct if s[0] == "repeat"]
    ends = [(s[1], s[2], s[3]) for s in struct if s[0] == "ending"]
    nav = [s for s in struct if s[0] not in ("repeat", "ending")]
    # volta groups: a repeat (a,c) with endings (b,c,'1'|'1,2') and (c,d,'2'|'3')
    groups = []
    used_e = set()
    for (a, c) in reps:
        first = [e for e in ends if e[1] == c and e[0] > a]
        if first:
            e1 = first[0]
            second = [e for e in ends if e[0] == c]
            if len(first) != 1 or len(second) != 1:
                return None
            e2 = second[0]
            n1 = e1[2].split(",")
            n2 = e2[2].split(",")
            if n1 not in (["1"], ["1", "2"]) or n2 != [str(len(n1) + 1)]:
                return None
            groups.append(("volta", a, e1[0], c, e2[1], len(n1)))
            used_e.add(e1)
            used_e.add(e2)
        else:
            groups.append(("simple", a, c))
    if len(used_e) != len(ends):
        return None
    # groups may be disjoint or strictly nested inside a simple repeat (a < a' and end' < c: no shared
    # boundaries, so every backward jump has one possible origin); anything else is out of the class
    def span(g):
        return (g[1], g[4] if g[0] == "volta" else g[2])

    for g1 in groups:
        for g2 in groups:
            if g1 is g2:
                continue
            (a1, b1), (a2, b2) = span(g1), span(g2)
            if b1 <= a2 or b2 <= a1:
                continue  # disjoint
            if a1 < a2 and b2 < b1 and g1[0] == "simple":
                continue  # g2 strictly inside the simple repeat g1
            if a2 < a1 and b1 < b2 and g2[0] == "simple":
                continue
            return None
    # navigation: only D.C./D.S. at the very end, optional fine, segno
    kinds = sorted(s[0] for s in nav)
    jump_to = None
    fine = None
    if kinds == []:
        pass
    elif kinds == ["dacapo"] and nav[0][1] == M:
        jump_to = 0
    elif kinds == ["dacapo", "fine"]:
        dc = [s for s in nav if s[0] == "dacapo"][0]
        fi = [s for s in nav if s[0] == "fine"][0]
        if dc[1] != M or not (0 < fi[1] < M):
            return None
        jump_to, fine = 0, fi[1]
    elif kinds == ["dalsegno", "segno"]:
        ds = [s for s in nav if s[0] == "dalsegno"][0]
        sg = [s for s in nav if s[0] == "segno"][0]
        if ds[1] != M or not (0 < sg[1] < M):
            return None
        jump_to = sg[1]
    elif kinds == ["dalsegno", "fine", "segno"]:
        ds = [s for s in nav if s[0] == "dalsegno"][0]
        sg = [s for s in nav if s[0] == "segno"][0]
        fi = [s for s in nav if s[0] == "fine"][0]
        if ds[1] != M or not (0 < sg[1] < fi[1] < M):
            return None
        jump_to, fine = sg[1], fi[1]
    else:
        return None
    # jump targets / fine inside a repeat group make the reading ambiguous
    for g in groups:
        lo, hi = g[1], (g[4] if g[0] == "volta" else g[2])
        for x in (jump_to, fine):
            if x is not None and lo < x < hi:
                return None

    def play(start, stop, with_repeats, inside=None):
        """measure sequence of [start, stop); `inside` = the group whose body is being played"""
        seq = []
        i = start
        while i < stop:
            cands = [g for g in groups if g[1] == i and g is not inside and span(g)[1] <= stop
                     and (inside is None or (span(inside)[0] < span(g)[0] and span(g)[1] < span(inside)[1]))]
            if inside is None:
                # top level: only groups that are not nested in another group start here
                cands = [g for g in cands if not any(h is not g and span(h)[0] < span(g)[0] and span(g)[1] < span(h)[1] for h in groups)]
            else:
                # directly inside `inside`: not nested in a further group in between
                cands = [g for g in cands if not any(h is not g and h is not inside and span(h)[0] < span(g)[0] and span(g)[1] < span(h)[1]
                                                     and span(inside)[0] < span(h)[0] and span(h)[1] < span(inside)[1] for h in groups)]
            if len(cands) > 1:
                return None
            if cands:
                g = cands[0]
                if g[0] == "simple":
                    body = play(g[1], g[2], with_repeats, inside=g)
                    if body is None:
                        return None
                    seq += body * (2 if with_repeats else 1)
                    i = g[2]
                else:
                    _, a, b, c, d, n1 = g
                    if with_repeats:
                        for _ in range(n1):
                            seq += list(range(a, b)) + list(range(b, c))
                    seq += list(range(a, b)) + list(range(c, d))
                    i = d
            elif any(g[1] == i and g is not inside and span(g)[1] > stop for g in groups):
                return None
            else:
                seq.append(i)
                i += 1
        return seq

    first = play(0, M, True)
    if first is None:
        return None
    if jump_to is None:
        return first
    second = play(jump_to, fine if fine is not None else M, ignore_leaps)
    if second is None:
        return None
    return first + second


def ref_minimal(M, struct):
    nav = [s for s in struct if s[0] not in ("repeat", "ending")]
    if nav:
        return None
    ends = [(s[1], s[2], s[3]) for s in struct if s[0] == "ending"]
    reps = [(s[1], s[2]) for s in struct if s[0] == "repeat"]
    # every ending group: keep only the last ending
    skip = set()
    for (a, c) in reps:
        first = [e for e in ends if e[1] == c and e[0] > a]
        for e in first:
            nxt = [x for x in ends if x[0] == e[1]]
            if len(nxt) != 1:
                return None
            skip.update(range(e[0], e[1]))
    starts = {e[0] for e in ends}
    # endings not attached as above -> out of class
    for e in ends:
        if not any(e[1] == c and e[0] > a for a, c in reps) and not any(x[1] == e[0] for x in ends):
            return None
    return [i for i in range(M) if i not in skip]


def accept_path(M, struct, seq_segments, bt):
    """seq_segments: list of (start_idx, end_idx) measure-boundary indices of visited segments.
    Returns None if accepted, else a reason."""
    reps = [(s[1], s[2]) for s in struct if s[0] == "repeat"]
    ends = [(s[1], s[2], s[3]) for s in struct if s[0] == "ending"]
    marks = {}
    for s in struct:
        if s[0] not in ("repeat", "ending"):
            marks.setdefault(s[0], []).append(s[1])
    if not seq_segments:
        return "empty path"
    if seq_segments[0][0] != 0:
        return "path does not start at the beginning"
    jumped = 0
    back_counts = {}
    for (s1, e1), (s2, e2) in zip(seq_segments, seq_segments[1:]):
        if s2 == e1:
            continue
        if s2 < e1:
            ok = False
            # repeat end (also at the end of a non-final ending, which coincides with a repeat end)
            for (a, c) in reps:
                if e1 == c and s2 == a:
                    passes = 2
                    for e in ends:
                        if e[1] == c:
                            passes = max(passes, len(e[2].split(",")) + 1)
                    back_counts[(a, c, jumped)] = back_counts.get((a, c, jumped), 0) + 1
                    if back_counts[(a, c, jumped)] <= passes - 1:
                        ok = True
                        # a new pass of an outer repeat starts the inner repeats afresh
                        for k in list(back_counts):
                            if k[2] == jumped and a <= k[0] and k[1] <= c and (k[0], k[1]) != (a, c):
                                del back_counts[k]
            # non-final ending without its own repeat object (1 | 2 | 3 shapes): back to the group start
            for e in ends:
                if e1 == e[1] and any(x[0] == e[1] for x in ends):
                    for (a, c) in reps:
                        if a == s2 and a < e[0]:
                            ok = True
            if e1 in marks.get("dacapo", []) and s2 == 0 and jumped == 0:
                ok = True
                jumped += 1
            elif e1 in marks.get("dalsegno", []) and s2 in marks.get("segno", []) and jumped == 0:
                ok = True
                jumped += 1
            if not ok:
                return "backward jump %d->%d not licensed" % (e1, s2)
        else:
            ok = False
            # volta fork: from the start of one ending to the start of a later ending of the same chain
            starts = [e[0] for e in ends]
            if e1 in starts and s2 in starts:
                ok = True
            if jumped and e1 in marks.get("tocoda", []) and s2 in marks.get("coda", []):
                ok = True
            if not ok:
                return "forward jump %d->%d not licensed" % (e1, s2)
    last = seq_segments[-1][1]
    if last != M and last not in marks.get("fine", []):
        return "path ends at %d which is neither the end nor a Fine" % last
    return None


# ---------------------------------------------------------------------------------------------
# checks on one produced part


def notes_of(part):
    import partitura.score as S

    out = []
    for o in F.part_objects(part):
        if isinstance(o, S.GenericNote) and o.start is not None:
            out.append(o)
    return out


def expected_notes(orig_notes, visits, update_ids):
    """orig_notes: list of (s, e, id, pitch, voice, staff, kind); visits: list of (s, e, offset)"""
    exp = []
    for (s, e, off) in visits:
        d = off - s
        for n in orig_notes:
            if s <= n[0] < e:
                exp.append((n[0] + d, n[1] + d) + n[2:])
    if update_ids:
        exp.sort(key=lambda x: (x[2], x[0]))
        out = []
        cnt = {}
        for x in exp:
            cnt[x[2]] = cnt.get(x[2], 0) + 1
            out.append(x[:2] + ("%s-%d" % (x[2], cnt[x[2]]),) + x[3:])
        exp = out
    return sorted(exp)


def note_tuple(o):
    import partitura.score as S

    pitch = (o.step, o.alter or 0, o.octave) if isinstance(o, S.Note) else None
    return (int(o.start.t), int(o.end.t), o.id, pitch, o.voice, o.staff, type(o).__name__)


def check_copy(res, clause_prefix, new_part, orig_notes, visits, update_ids, ctx):
    import partitura.score as S

    objs = F.part_objects(new_part)
    reg = {id(o) for o in objs}
    got = sorted(note_tuple(o) for o in objs if isinstance(o, S.GenericNote) and o.start is not None and o.end is not None)
    exp = expected_notes(orig_notes, visits, update_ids)
    if got != exp:
        only_e = [x for x in exp if x not in got][:3]
        only_g = [x for x in got if x not in exp][:3]
        res.fail(clause_prefix + "notes-once-per-visit", expected=only_e, observed=only_g, where="ScoreVariant.create_variant_part", detail=ctx)
    total = sum(e - s for s, e, _ in visits)
    pts = list(new_part._points)
    if pts:
        # length = extent of the notes and measures (an open slur that crosses the end of the last
        # visited segment keeps its end point; the statement does not say what becomes of it)
        ends = [int(o.end.t) for o in objs if isinstance(o, (S.GenericNote, S.Measure)) and o.end is not None]
        if (max(ends) if ends else 0) != total or pts[0].t != 0:
            res.fail(clause_prefix + "length-is-sum-of-segments", expected=total, observed=[pts[0].t, max(ends) if ends else None],
                     where="ScoreVariant.create_variant_part", detail=ctx)
    for o in objs:
        if isinstance(o, (S.Repeat, S.Ending, S.DaCapo, S.DalSegno, S.ToCoda)):
            res.fail(clause_prefix + "no-structure-remains", expected="no %s" % type(o).__name__, observed=str(o), where="ScoreVariant.create_variant_part", detail=ctx)
            break
    # references stay inside the copy
    ptset = {id(tp) for tp in pts}
    for i, tp in enumerate(pts):
        if (tp.prev is not None and id(tp.prev) not in ptset) or (tp.next is not None and id(tp.next) not in ptset) \
                or tp.prev is not (pts[i - 1] if i else None) or tp.next is not (pts[i + 1] if i + 1 < len(pts) else None):
            res.fail(clause_prefix + "references-inside-copy", expected="time point links inside the new part", observed="t=%d" % tp.t,
                     where="ScoreVariant.create_variant_part", detail=ctx)
            break
    for o in objs:
        if o.start is not None and id(o.start) not in ptset or o.end is not None and id(o.end) not in ptset:
            res.fail(clause_prefix + "references-inside-copy", expected="start/end are points of the new part", observed=str(o), where="ScoreVariant.create_variant_part", detail=ctx)
            break
        bad = None
        for attr in ("tie_prev", "tie_next", "grace_prev", "grace_next", "_start_note", "_end_note"):
            v = getattr(o, attr, None)
            if v is not None and id(v) not in reg:
                bad = (attr, str(v))
        for attr in ("slur_starts", "slur_stops", "tuplet_starts", "tuplet_stops"):
            for v in getattr(o, attr, None) or []:
                if v is not None and id(v) not in reg:
                    bad = (attr, str(v))
        if bad:
            res.fail(clause_prefix + "references-inside-copy", expected="None or an object of the new part", observed=[str(o), bad], where="ReplaceRefMixin.replace_refs", detail=ctx)
            break
    # a slur/tuplet of the copy is listed by the notes it names, exactly once
    for o in objs:
        if isinstance(o, (S.Slur, S.Tuplet)):
            a, b = o.start_note, o.end_note
            la = "slur_starts" if isinstance(o, S.Slur) else "tuplet_starts"
            lb = "slur_stops" if isinstance(o, S.Slur) else "tuplet_stops"
            if (a is not None and sum(1 for x in getattr(a, la) if x is o) != 1) or (b is not None and sum(1 for x in getattr(b, lb) if x is o) != 1):
                res.fail(clause_prefix + "references-inside-copy", expected="slur/tuplet listed once by its notes", observed=str(o), where="ReplaceRefMixin.replace_refs", detail=ctx)
                break


def path_visits(path):
    visits = []
    off = 0
    for sid in path.path:
        seg = path.segments[sid]
        visits.append((int(seg.start.t), int(seg.end.t), off))
        off += int(seg.end.t) - int(seg.start.t)
    return visits


def to_measure_seq(visits, bt):
    idx = {t: i for i, t in enumerate(bt)}
    segs = []
    seq = []
    for s, e, _ in visits:
        if s not in idx or e not in idx:
            return None, None
        segs.append((idx[s], idx[e]))
        seq += list(range(idx[s], idx[e]))
    return segs, seq


def arg_fp(part):
    return F.fp_part(part, ignore_classes=("Segment",))


def eval_case(case):
    import partitura.score as S

    res = CaseResult(states=1, transitions=0, traces=0)
    M, struct = case["M"], case["struct"]
    spec, bt = part_spec(case)
    ctx = "M=%d struct=%r content=%r" % (M, struct, case.get("content"))

    def fresh():
        return ir.build_part(spec)

    part = fresh()
    fp0 = arg_fp(part)
    fp0_full = F.fp_part(part)
    orig_notes = [note_tuple(o) for o in notes_of(part)]
    outcomes = []
    seg_left = False

    def call(clause, fn, *a, **kw):
        res.transitions += 1
        try:
            return True, fn(*a, **kw)
        except RecursionError as e:
            res.fail(clause, kind="exception", where="score.py:unfold_paths", observed="RecursionError", detail=ctx)
        except Exception as e:  # noqa
            res.fail(clause, kind="exception", where=innermost_partitura_frame(e), observed=exc_text(e), detail=ctx)
        return False, None

    def arg_unchanged(after):
        nonlocal seg_left
        if arg_fp(part) != fp0:
            res.fail("argument-unchanged", expected="argument fingerprint unchanged", observed=F.diff(fp0, arg_fp(part))[:2],
                     where=after, detail=ctx)
            return False
        if F.fp_part(part) != fp0_full:
            seg_left = True
        return True

    # ---- maximal, all option combinations
    for il in (True, False):
        ok, paths = call("maximal-total", S.get_paths, part, no_repeats=False, all_repeats=True, ignore_leap_info=il)
        if not ok:
            outcomes.append("max-exc")
            continue
        visits = path_visits(paths[0])
        segs, seq = to_measure_seq(visits, bt)
        outcomes.append("max:%s" % ("".join(map(str, seq)) if seq is not None else "?"))
        res.traces += 1
        if segs is None:
            res.fail("path-valid", expected="segment boundaries on structure marks / barlines", observed=visits, where="add_segments", detail=ctx)
            continue
        why = accept_path(M, struct, segs, bt)
        if why:
            res.fail("path-valid", expected="a path permitted by the notation", observed=[seq, why], where="get_paths[maximal]", detail=ctx + " ignore_leaps=%r" % il)
        ref = ref_maximal(M, struct, ignore_leaps=il)
        if ref is not None and seq != ref:
            res.fail("maximal-path-exact", expected=ref, observed=seq, where="get_paths[maximal]", detail=ctx + " ignore_leaps=%r" % il)
        for uid in (True, False):
            ok, up = call("maximal-total", S.unfold_part_maximal, part, update_ids=uid, ignore_leaps=il)
            if ok:
                check_copy(res, "", up, orig_notes, visits, uid, ctx + " unfold_part_maximal(update_ids=%r, ignore_leaps=%r)" % (uid, il))
                if not arg_unchanged("unfold_part_maximal"):
                    return _done(res, outcomes, struct)
                ok2, up2 = call("maximal-total", S.unfold_part_maximal, part, update_ids=uid, ignore_leaps=il)
                if ok2 and F.fp_part(up2) != F.fp_part(up):
                    res.fail("second-call-equal", expected="equal result", observed=F.diff(F.fp_part(up), F.fp_part(up2))[:2], where="unfold_part_maximal", detail=ctx)
    # ---- minimal
    ok, paths = call("minimal-total", S.get_paths, part, no_repeats=True, all_repeats=False, ignore_leap_info=True)
    if ok:
        visits = path_visits(paths[0])
        segs, seq = to_measure_seq(visits, bt)
        outcomes.append("min:%s" % ("".join(map(str, seq)) if seq is not None else "?"))
        res.traces += 1
        if segs is not None:
            why = accept_path(M, struct, segs, bt)
            if why:
                res.fail("path-valid", expected="a path permitted by the notation", observed=[seq, why], where="get_paths[minimal]", detail=ctx)
            ref = ref_minimal(M, struct)
            if ref is not None and seq != ref:
                res.fail("minimal-path-exact", expected=ref, observed=seq, where="get_paths[minimal]", detail=ctx)
        ok, up = call("minimal-total", S.unfold_part_minimal, part)
        if ok:
            check_copy(res, "", up, orig_notes, visits, False, ctx + " unfold_part_minimal")
            if not arg_unchanged("unfold_part_minimal"):
                return _done(res, outcomes, struct)
            if not struct and case.get("content", ["plain"])[0] in ("plain", "two", "divs", "ts"):
                # a part without repeat structure unfolds to an equal part (musical content)
                inc = ("notes", "measures", "ts", "ks", "clefs", "slurs", "tuplets")
                a, b = canon.canon_part(part, inc), canon.canon_part(up, inc)
                if a != b:
                    res.fail("no-structure-identity", expected="equal part", observed=canon.diff_canon(a, b)[:3], where="unfold_part_minimal", detail=ctx)
    else:
        outcomes.append("min-exc")
    # ---- all variants (not enumerated in the long-chain space: 2^r of them)
    if case.get("light"):
        ok, paths = False, []
        outcomes.append("var-skipped")
    else:
        ok, paths = call("variants-total", S.get_paths, part, no_repeats=False, all_repeats=False, ignore_leap_info=True)
    nvar = len(paths) if ok else 0
    if ok:
        res.traces += len(paths)
        outcomes.append("var:%d" % len(paths))
        seqs = []
        for p in paths:
            visits = path_visits(p)
            segs, seq = to_measure_seq(visits, bt)
            seqs.append(tuple(seq) if seq is not None else None)
            if segs is not None:
                why = accept_path(M, struct, segs, bt)
                if why:
                    res.fail("path-valid", expected="a path permitted by the notation", observed=[seq, why], where="get_paths[all]", detail=ctx)
                    break
        kinds = sorted(set(s[0] for s in struct))
        if kinds in ([], ["repeat"]):
            reps = sorted((s[1], s[2]) for s in struct)
            indep = all(b1 <= a2 for (a1, b1), (a2, b2) in zip(reps, reps[1:]))
            if indep:
                r = len(reps)
                exp = set()
                for mask in itertools.product((1, 2), repeat=r):
                    seq = []
                    i = 0
                    while i < M:
                        hit = [k for k, (a, b) in enumerate(reps) if a == i]
                        if hit:
                            a, b = reps[hit[0]]
                            seq += list(range(a, b)) * mask[hit[0]]
                            i = b
                        else:
                            seq.append(i)
                            i += 1
                    exp.add(tuple(seq))
                if len(paths) != 2 ** r or set(seqs) != exp:
                    res.fail("variants-2^r", expected=sorted(exp), observed=seqs, where="get_paths[all]", detail=ctx)
        # every variant is materialised up to MAX_MATERIALISED paths (all of them in the spaces up to 5 measures);
        # beyond that (many-segment spaces) the paths are checked, the copies are those of maximal / minimal only
        for uid in (True, False) if len(paths) <= MAX_MATERIALISED else ():
            ok2, ups = call("variants-total", lambda: list(S.iter_unfolded_parts(part, update_ids=uid)))
            if ok2:
                if len(ups) != len(paths):
                    res.fail("variants-2^r", expected=len(paths), observed=len(ups), where="iter_unfolded_parts", detail=ctx)
                else:
                    for p, up in zip(paths, ups):
                        check_copy(res, "", up, orig_notes, path_visits(p), uid, ctx + " iter_unfolded_parts(update_ids=%r)" % uid)
                if not arg_unchanged("iter_unfolded_parts"):
                    return _done(res, outcomes, struct)
        ok3, svs = call("variants-total", S.make_score_variants, part) if len(paths) <= MAX_MATERIALISED else (False, None)
        if ok3 and [sv.segment_times for sv in svs] != [path_visits(p) for p in paths]:
            res.fail("second-call-equal", expected=[path_visits(p) for p in paths][:2], observed=[sv.segment_times for sv in svs][:2], where="make_score_variants", detail=ctx)
    elif not case.get("light"):
        outcomes.append("var-exc")
    if seg_left:
        res.fail("argument-unchanged", expected="argument fingerprint unchanged", observed="Segment objects registered on the argument part",
                 where="segments-left-on-argument", detail=ctx)
    # ---- score argument
    sc = S.Score([fresh()])
    fps = F.fp_score(sc)
    for il in (True, False):
        for uid in (True, False):
            ok, usc = call("maximal-total", S.unfold_part_maximal, sc, update_ids=uid, ignore_leaps=il)
            if ok:
                ok_p, paths = call("maximal-total", S.get_paths, fresh(), no_repeats=False, all_repeats=True, ignore_leap_info=il)
                if ok_p:
                    check_copy(res, "", usc.parts[0], orig_notes, path_visits(paths[0]), uid,
                               ctx + " unfold_part_maximal(Score, update_ids=%r, ignore_leaps=%r)" % (uid, il))
                if F.fp_score(sc) != fps:
                    res.fail("argument-unchanged", expected="score argument unchanged", observed=F.diff(fps, F.fp_score(sc))[:2], where="unfold_part_maximal[score]", detail=ctx)
    ok, usc = call("minimal-total", S.unfold_part_minimal, sc)
    if ok and F.fp_score(sc) != fps:
        res.fail("argument-unchanged", expected="score argument unchanged", observed=F.diff(fps, F.fp_score(sc))[:2], where="unfold_part_minimal[score]", detail=ctx)
    # ---- alignment-driven unfolding picks one of the variants
    if case.get("content", ["plain"])[0] == "plain" and nvar <= MAX_MATERIALISED and not case.get("light"):  # (it materialises every variant)
        p2 = fresh()
        okp, paths = call("variants-total", S.get_paths, p2, no_repeats=False, all_repeats=True, ignore_leap_info=True)
        if okp:
            visits = path_visits(paths[0])
            ids = [x[2] for x in expected_notes(orig_notes, visits, True)]
            al = [dict(label="match", score_id=i, performance_id="p%d" % k) for k, i in enumerate(ids)]
            p3 = fresh()
            ok, up = call("alignment-total", S.unfold_part_alignment, p3, al)
            if ok:
                got = sorted(o.id for o in notes_of(up))
                if not set(ids) <= set(got):
                    res.fail("alignment-variant", expected="a variant containing every aligned id", observed=[ids, got], where="unfold_part_alignment", detail=ctx)
    return _done(res, outcomes, struct)


MAX_MATERIALISED = 32


def _done(res, outcomes, struct):
    o = "|".join(outcomes)
    res.outcome = o if len(o) <= 80 else o[:60] + "#" + hashlib.sha1(o.encode()).hexdigest()[:12]
    res.nontrivial = bool(struct)
    return res


# ---------------------------------------------------------------------------------------------
# enumeration


def structures(M):
    """yield (class name, struct) for M measures"""
    yield "none", []
    B = list(range(M + 1))
    reps = [(a, b) for a in range(M) for b in range(a + 1, M + 1)]
    for r in reps:
        yield "repeat1", [["repeat", r[0], r[1]]]
    for r1, r2 in itertools.combinations(reps, 2):
        if r1[1] <= r2[0]:
            yield "repeat2", [["repeat", r1[0], r1[1]], ["repeat", r2[0], r2[1]]]
        elif r1[0] <= r2[0] and r2[1] <= r1[1] and r1 != r2:
            yield "nested", [["repeat", r1[0], r1[1]], ["repeat", r2[0], r2[1]]]
    # voltas a<b<c<d
    for a, b, c, d in itertools.combinations(B, 4):
        yield "volta12", [["repeat", a, c], ["ending", b, c, "1"], ["ending", c, d, "2"]]
        yield "volta123", [["repeat", a, c], ["ending", b, c, "1,2"], ["ending", c, d, "3"]]
    for a, b, c, d, e in itertools.combinations(B, 5):
        yield "volta1-2-3", [["repeat", a, c], ["repeat", a, d], ["ending", b, c, "1"], ["ending", c, d, "2"], ["ending", d, e, "3"]]
    # a volta group strictly inside an outer simple repeat
    for o1, a, b, c, d, o2 in itertools.combinations(B, 6):
        yield "volta12-in-repeat", [["repeat", o1, o2], ["repeat", a, c], ["ending", b, c, "1"], ["ending", c, d, "2"]]
        yield "volta123-in-repeat", [["repeat", o1, o2], ["repeat", a, c], ["ending", b, c, "1,2"], ["ending", c, d, "3"]]
    # navigation at the end
    yield "dc", [["dacapo", M]]
    for f in range(1, M):
        yield "dc-fine", [["fine", f], ["dacapo", M]]
    for s in range(1, M):
        yield "ds", [["segno", s], ["dalsegno", M]]
        for f in range(s + 1, M):
            yield "ds-fine", [["segno", s], ["fine", f], ["dalsegno", M]]
    # coda forms (jump in the middle of the piece)
    for t, d in itertools.combinations(range(1, M), 2):
        yield "dc-coda", [["tocoda", t], ["dacapo", d], ["coda", d]]
    for s, t, d in itertools.combinations(range(1, M), 3):
        yield "ds-coda", [["segno", s], ["tocoda", t], ["dalsegno", d], ["coda", d]]
    # combinations: one simple repeat or volta before a D.C. (al fine)
    for r in reps:
        yield "repeat+dc", [["repeat", r[0], r[1]], ["dacapo", M]]
        for f in range(1, M):
            if not (r[0] < f < r[1]):
                yield "repeat+dc-fine", [["repeat", r[0], r[1]], ["fine", f], ["dacapo", M]]
    for a, b, c, d in itertools.combinations(B, 4):
        yield "volta+dc", [["repeat", a, c], ["ending", b, c, "1"], ["ending", c, d, "2"], ["dacapo", M]]


def repeat_chains(M, kmin=3):
    """every set of at least `kmin` pairwise disjoint simple repeats over M measures (many segments: the
    segment ids run past 'E', where they sort after "END" as strings)"""
    out = []

    def rec(start, cur):
        if len(cur) >= kmin:
            out.append([["repeat", a, b] for a, b in cur])
        for a in range(start, M):
            for b in range(a + 1, M + 1):
                cur.append((a, b))
                rec(b, cur)
                cur.pop()

    rec(0, [])
    return out


def shifted(st, k):
    """the structure `st` moved k measures to the right, behind k measures that are each repeated on their own
    (k segments before the first segment of `st`)"""
    pre = [["repeat", i, i + 1] for i in range(k)]
    return pre + [[x + k if isinstance(x, int) else x for x in s] for s in st]


def contents(M):
    yield ["plain"]
    yield ["two"]
    for b in range(M - 1):
        yield ["tie", b]
        yield ["slur", b]
        yield ["tuplet", b]
    for j in range(M):
        yield ["divs", j]
        yield ["ts", j]
        yield ["grace", j]


def spaces(tier, seed):
    sp = []
    Ms = [1, 2, 3, 4, 5] if tier == "quick" else [1, 2, 3, 4, 5, 6]
    core = []
    for M in Ms:
        for cls, st in structures(M):
            core.append(dict(M=M, struct=st, content=["plain"], cls=cls))
    sp.append(Space("structures-plain", core, True, "every structure of every class over M=%s measures, one note per measure" % Ms))
    if tier == "quick":
        nest = [dict(M=6, struct=st, content=["plain"], cls=cls) for cls, st in structures(6) if cls.endswith("-in-repeat")]
        sp.append(Space("volta-in-repeat-M6", nest, True, "M=6: every 1|2 and 1,2|3 volta group strictly inside an outer repeat"))
    chainMs = [3, 4, 5, 6, 7] if tier == "quick" else [3, 4, 5, 6, 7, 8]
    chains = [dict(M=M, struct=st, content=["plain"], cls="repeat-chain") for M in chainMs for st in repeat_chains(M)]
    sp.append(Space("repeat-chains", chains, True, "M=%s: every set of 3 or more pairwise disjoint simple repeats (up to M segments)" % chainMs))
    K = 5
    lateMs = [1, 2, 3] if tier == "quick" else [1, 2, 3, 4]
    late = [dict(M=M + K, struct=shifted(st, K), content=["plain"], cls=cls + "-late") for M in lateMs for cls, st in structures(M)]
    sp.append(Space("late-segments", late, True,
                    "every structure of every class over M=%s measures, placed behind %d measures that are each repeated on "
                    "their own (all its segments have ids from 'F' on)" % (lateMs, K)))
    Ps = [24, 25, 26, 27] if tier == "quick" else [23, 24, 25, 26, 27, 28, 30, 40, 60]
    longc = [dict(M=M + P, struct=shifted(st, P), content=["plain"], cls=cls + "-long", light=True)
             for P in Ps for M in (1, 2) for cls, st in structures(M)]
    sp.append(Space("long-chains", longc, True,
                    "every structure over M=1,2 measures behind P=%s measures that are each repeated on their own (segment ids run "
                    "past 'Z'); maximal and minimal unfolding only, the 2^P variants are not enumerated" % Ps))
    cv = []
    for M in ([2, 3] if tier == "quick" else [2, 3, 4, 5]):
        for cls, st in structures(M):
            for c in contents(M):
                if c != ["plain"]:
                    cv.append(dict(M=M, struct=st, content=c, cls=cls))
    sp.append(Space("structures-x-content", cv, True,
                    "M=%s: every structure x every content variant (two voices, tie / slur / tuplet bracket over each barline, divisions / "
                    "time-signature change at each measure, grace chain in each measure)" % ([2, 3] if tier == "quick" else [2, 3, 4, 5])))
    if tier == "quick":
        B = 3
        cv4 = []
        for cls, st in structures(4):
            for c in contents(4):
                if c != ["plain"]:
                    case = dict(M=4, struct=st, content=c, cls=cls)
                    if block_of(case, B) == seed % B:
                        cv4.append(case)
        sp.append(Space("structures-x-content-M4-block", cv4, True, "M=4: block seed%%%d of %d of structures x content variants" % (B, B)))
    return sp


def _struct_has(case, *kinds):
    return any(s[0] in kinds for s in case["struct"])


def _leap_both(case):
    """a segment both starts at a leap destination (part start, segno, coda) and ends at a leap origin
    (tocoda, dalsegno, dacapo): Segment.type can hold only one of leap_start / leap_end"""
    st = case["struct"]
    marks = sorted(set([0] + [s[1] for s in st if s[0] not in ("repeat", "ending")] + [s[1] for s in st if s[0] in ("repeat", "ending")] + [s[2] for s in st if s[0] in ("repeat", "ending")] + [case["M"]]))
    dest = {0} | {s[1] for s in st if s[0] in ("segno", "coda")}
    orig = {s[1] for s in st if s[0] in ("tocoda", "dalsegno", "dacapo")}
    for a, b in zip(marks, marks[1:]):
        if a in dest and b in orig:
            return True
    return False


def _repeat_ends_at_jump(case):
    st = case["struct"]
    jumps = {s[1] for s in st if s[0] in ("dacapo", "dalsegno")}
    return any(s[0] == "repeat" and s[2] in jumps for s in st)


TRIGGERS = {
    "repeat_ends_at_jump": lambda case, v: _repeat_ends_at_jump(case),
    "segment_is_leap_start_and_end": lambda case, v: _leap_both(case),
    "has_coda_form": lambda case, v: _struct_has(case, "tocoda", "coda"),
    "has_navigation": lambda case, v: _struct_has(case, "dacapo", "dalsegno", "fine", "segno", "tocoda", "coda"),
}


if __name__ == "__main__":
    import checks.c09 as _m

    run_check(_m)
