"""C07 - match-file lines survive format/parse round trips in every version.

Bounded-exhaustive enumeration of line objects of every line class of format versions 0.1.0-0.5.0
and 1.0.0 over small per-field alphabets (mc/c07_alpha.py).  On every case the real classes write
the line, parse it back (class parser and the public dispatcher `parse_matchline` with the
version's method list), write it again, and - for pre-1.0 lines - convert it with `to_v1`; every
result is compared with reference values computed from the case description (exact arithmetic with
`fractions.Fraction` / `decimal.Decimal`).

Space `history`: the same line oracle after every sequence of up to 3 loads of match files of every
version (`load_matchfile` / `load_match`), each case in a forked child of the worker; after every
`load_matchfile` the loaded lines are compared with the lines written into the file.

Space `parse-pos`: the text of a line embedded in a longer string and parsed with the `pos` option of the
class parsers (every class that has it) gives the same object as the text alone.

Space `duration-trees`: sums of durations built by expressions of every association shape (not only left folds), as values
and as Duration/Offset of score-note lines.

Space `duration-sequences`: duration texts are parsed (directly or as fields of lines), the parsed objects are added up
(+, +=, from the right, sum()), then the operands, their lines and the texts parsed again must be what they were; each
case in a forked child of the worker.

Space `signed-times`: the line oracle (including to_v1) on every line that carries a performed note or a pedal
time, with the full product of its time fields over a signed alphabet (times before the reference point of the
performance are negative numbers).
"""
import contextlib
import copy
import gc
import io
import itertools
import math
import os
import pickle
import signal
import tempfile
import traceback
import warnings
from decimal import Decimal, ROUND_HALF_EVEN
from fractions import Fraction
from types import SimpleNamespace

import numpy as np

from mc.core import CaseResult, Space, run_check, innermost_partitura_frame, exc_text, Hang, CASE_TIMEOUT
from mc import c07_alpha as A
from mc.c07_alpha import D

PID = "C07"
RULE = (
    "one case = one line object (kind, version, field values) or one value object; sub-spaces are "
    "full products of the per-field alphabets where small, otherwise all pairs of fields complete "
    "with the remaining fields cycled; free text of info lines = all token sequences up to a length over "
    "the characters that structure a line; every case is distinct by construction; non-trivial = the "
    "line was written and parsed back (all cases); a history case = a sequence of file loads followed by the "
    "line oracle on the lines of one version (non-trivial: always); a parse-pos case = one line x what stands before "
    "and after it in the parsed string (non-trivial: always - either pos > 0 or text follows the line); a signed-times "
    "case = one line with a performed note or pedal x one element of the product of its time fields over the signed alphabet; "
    "a duration-trees case = one expression tree of additions with its leaves (non-trivial: always - at least one addition); a "
    "duration-sequences case = operand sequence x way of adding x channel (non-trivial: always - texts are parsed, added, parsed again)"
)
ASSUMPTIONS = [
    "field values are given in the canonical types of the line classes (upper-case step, int or None "
    "modifier/octave, int ticks, float beat times, FractionalSymbolicDuration, Match*Signature objects)",
    "floats with more decimals than the version writes are only required to come back within one unit "
    "of the last written decimal and to reach a text fixpoint; floats on the grid must come back exactly",
    "durations are compared by exact value, additive components and text; numerator/denominator above "
    "1024 are bounded by design and only required to reach a fixpoint",
    "a sum of durations whose components are all zero has no text form (str gives '') and is not generated",
    "to_v1: kind = the 1.0.0 class documented for the source class (variants of deletion/insertion map to "
    "deletion/insertion, trill to ornament[trill], key/time signature info and meta lines to scoreprop); "
    "musical content = anchor/id, pitch spelling, MIDI pitch, measure/beat/offset/duration/beat times, "
    "ticks (rounded to the nearest integer, either neighbour accepted at an exact half), velocity, pedal "
    "time/value, key and time signature values; adjusted offsets, channel and track are not compared",
    "info attributes partSequence and mergedFrom have no 1.0.0 equivalent (to_v1 may raise MatchError); "
    "text-valued list attributes (subtitle, tempoIndication, beatSubDivision) are only checked for kind",
    "free text is given without outer white space (the formats strip it); the empty string inside the quotes "
    "of a 0.x value and as a list element is not generated (its text is not distinguishable from other values)",
    "the statement holds for a line whatever match files or lines were read before in the same process (the parser "
    "lists and field tables are shared module state); a file whose lines are distinct, of one version, start with "
    "the version line and have unique anchors/ids is read line by line with the dispatcher of its version, so "
    "load_matchfile returns one object of the same kind and text per line; a file without version line is 0.1.0",
    "parsing the text of a line includes the documented `pos` option of the class parsers ('Position of the matchline in "
    "the input string'): the text embedded in a longer string (other lines, comments or white space before it; a line "
    "ending or further lines after a line break behind it) and parsed with pos = its position gives the same object as the "
    "text alone; what may follow the line on the same physical line is not specified and not generated",
    "tick values are signed: the times of performed notes (onset, offset, adjusted offset) and of pedal lines are relative "
    "to the reference point of the performance and every version writes them with str()/a fixed number of decimals and reads "
    "them with int()/float(), so negative times are field values the formats allow (the onsets of a 1.0.0 ptime line are "
    "not: its text admits digits only); to_v1 keeps them (float times of 0.1.0/0.2.0: nearest integer, either neighbour "
    "at an exact half)",
    "duration addition is every form of + the class supports: a + b in any association, int operands on either side, the "
    "augmented assignment acc += b and sum(); a sum writes the components of its operands in operand order; where an int stands "
    "on the left of a duration (reflected addition) only the value and the multiset of components are compared",
    "string round trips keep the value whatever was parsed or added before in the same process: durations and lines that were "
    "parsed earlier keep their value and text when they are used as operands of additions, and the same text parsed again gives "
    "the same value",
    "trusted: Python re/str/float formatting, decimal, fractions, numpy integer arithmetic",
]
CHUNK = 50

# ------------------------------------------------------------------------------------------------
# lazy access to the implementation

_M = None


def M():
    global _M
    if _M is None:
        import partitura.io.matchlines_v0 as v0
        import partitura.io.matchlines_v1 as v1
        import partitura.io.matchfile_utils as U
        import partitura.io.matchfile_base as B
        import partitura.io.importmatch as I

        _M = SimpleNamespace(v0=v0, v1=v1, U=U, B=B, I=I)
    return _M


_SINK = io.StringIO()


@contextlib.contextmanager
def quiet():
    """the dispatcher and to_v1 print diagnostics; keep the run silent"""
    _SINK.seek(0)
    _SINK.truncate()
    with contextlib.redirect_stdout(_SINK):
        yield


def ver(v):
    return M().U.Version(*A.vt(v))


def is_v1(v):
    return A.vt(v) >= (1, 0, 0)


def mod_for(v):
    return M().v1 if is_v1(v) else M().v0


# ------------------------------------------------------------------------------------------------
# builders (public constructors only)


def is_tree(enc):
    """a duration given as an expression: {"tree": T}, T = [n, d, td] (a plain duration) | int (a Python int
    operand) | ["+", T, T]; the encoding as list of components is the left fold of its components"""
    return isinstance(enc, dict)


def tree_eval(t):
    """the expression evaluated with the implementation's `+` (int leaves stay Python ints)"""
    if isinstance(t, int):
        return t
    if t[0] == "+":
        return tree_eval(t[1]) + tree_eval(t[2])
    if isinstance(t[0], list):
        return mk_dur(t)  # a leaf that is itself a sum (left fold of its components)
    return M().U.FractionalSymbolicDuration(t[0], t[1], t[2])


def tree_ref(t):
    """reference of an expression: a Python int (only int operands) or the list of components, in the order of
    the leaves (an int operand n of a duration is the component n/1; int + int is one int)"""
    if isinstance(t, int):
        return t
    if t[0] == "+":
        return ref_add(tree_ref(t[1]), tree_ref(t[2]))
    if isinstance(t[0], list):
        return [list(c) for c in t]
    return [list(t)]


def order_open(t):
    """an int stands on the left of a duration somewhere in the expression: the reflected addition is only
    specified by its value ("the sum of sd + self"), not by the order in which the components are written"""
    if isinstance(t, int) or t[0] != "+":
        return False
    return (isinstance(tree_ref(t[1]), int) and not isinstance(tree_ref(t[2]), int)) or order_open(t[1]) or order_open(t[2])


def ref_add(l, r):
    if isinstance(l, int) and isinstance(r, int):
        return l + r
    return (l if isinstance(l, list) else [[l, 1, None]]) + (r if isinstance(r, list) else [[r, 1, None]])


def dur_comps(enc):
    """the components of a duration in either encoding"""
    if is_tree(enc):
        c = tree_ref(enc["tree"])
        if not isinstance(c, list):
            raise ValueError("expression without a duration operand: %r" % (enc,))
        return c
    return enc


def mk_dur(comps):
    if is_tree(comps):
        return tree_eval(comps["tree"])
    F = M().U.FractionalSymbolicDuration
    d = F(comps[0][0], comps[0][1], comps[0][2])
    for c in comps[1:]:
        d = d + F(c[0], c[1], c[2])
    return d


def mk_key(k):
    K = M().U.MatchKeySignature
    return K(fifths=k[0], mode=k[1], fifths_alt=k[2], mode_alt=k[3],
             other_components=[mk_key(o) for o in k[4]])


def mk_time(ts):
    F = M().U.FractionalSymbolicDuration
    return M().U.MatchTimeSignature(ts[0], ts[1], [F(n, d) for n, d in ts[2]])


def mk_value(val):
    t, x = val["t"], val["x"]
    if t == "key":
        return mk_key(x)
    if t == "time":
        return mk_time(x)
    if t == "tempo":
        return M().U.MatchTempoIndication(x)
    if t == "version":
        return M().U.Version(*x)
    if t in ("list", "ilist"):
        return list(x)
    return x


def mk_snote(v, a):
    cls = mod_for(v).MatchSnote
    p = a["pitch"]
    return cls(version=ver(v), anchor=a["anchor"], note_name=p[0], modifier=p[1], octave=p[2],
               measure=a["measure"], beat=a["beat"], offset=mk_dur(a["offset"]), duration=mk_dur(a["dur"]),
               onset_in_beats=a["on"], offset_in_beats=a["off"], score_attributes_list=list(a["attrs"]))


def mk_note(v, a):
    if is_v1(v):
        return M().v1.MatchNote(version=ver(v), id=a["id"], midi_pitch=a["mp"], onset=a["on"], offset=a["off"],
                                velocity=a["vel"], channel=a["ch"], track=a["tr"])
    p = a["pitch"]
    kw = {}
    if A.has_adj_offset(v):
        kw["adj_offset"] = a["adj"]
    return M().v0.MatchNote(version=ver(v), id=a["id"], note_name=p[0], modifier=p[1], octave=p[2],
                            onset=a["on"], offset=a["off"], velocity=a["vel"], **kw)


def mk_info(v, a):
    val = mk_value(a["val"])
    if is_v1(v):
        return M().v1.make_info(ver(v), a["attr"], val)
    _, fmt, typ = M().v0.INFO_LINE[ver(v)][a["attr"]]
    return M().v0.MatchInfo(version=ver(v), attribute=a["attr"], value=val, value_type=typ, format_fun=fmt)


V0_CLASS = {
    "pair": "MatchSnoteNote", "deletion": "MatchSnoteDeletion", "trailing_score": "MatchSnoteTrailingScore",
    "no_played": "MatchSnoteNoPlayedNote", "insertion": "MatchInsertionNote",
    "hammer_bounce": "MatchHammerBounceNote", "trailing_played": "MatchTrailingPlayedNote",
    "trill": "MatchTrillNote", "sustain": "MatchSustainPedal", "soft": "MatchSoftPedal",
    "info": "MatchInfo", "meta": "MatchMeta", "snote": "MatchSnote", "note": "MatchNote",
}
V1_CLASS = {
    "pair": "MatchSnoteNote", "deletion": "MatchSnoteDeletion", "insertion": "MatchInsertionNote",
    "ornament": "MatchOrnamentNote", "sustain": "MatchSustainPedal", "soft": "MatchSoftPedal",
    "info": "MatchInfo", "scoreprop": "MatchScoreProp", "section": "MatchSection", "stime": "MatchStime",
    "ptime": "MatchPtime", "stimeptime": "MatchStimePtime", "snote": "MatchSnote", "note": "MatchNote",
}
NOT_DISPATCHED = ("snote", "note", "stime", "ptime")
DELETIONS = ("deletion", "trailing_score", "no_played")
INSERTIONS = ("insertion", "hammer_bounce", "trailing_played")


def line_class(k, v):
    return getattr(mod_for(v), (V1_CLASS if is_v1(v) else V0_CLASS)[k])


def build(case):
    k, v, a = case["k"], case["v"], case["a"]
    cls = line_class(k, v)
    V = ver(v)
    if k == "snote":
        return mk_snote(v, a)
    if k == "note":
        return mk_note(v, a)
    if k == "pair":
        return cls(version=V, snote=mk_snote(v, a["s"]), note=mk_note(v, a["n"]))
    if k in DELETIONS:
        return cls(version=V, snote=mk_snote(v, a["s"]))
    if k in INSERTIONS:
        return cls(version=V, note=mk_note(v, a["n"]))
    if k == "trill":
        return cls(version=V, anchor=a["anchor"], note=mk_note(v, a["n"]))
    if k == "ornament":
        return cls(version=V, anchor=a["anchor"], ornament_type=list(a["types"]), note=mk_note(v, a["n"]))
    if k in ("sustain", "soft"):
        return cls(version=V, time=a["time"], value=a["value"])
    if k == "info":
        return mk_info(v, a)
    if k == "meta":
        _, fmt, typ = M().v0.META_LINE[V][a["attr"]]
        return cls(version=V, attribute=a["attr"], value=mk_value(a["val"]), value_type=typ, format_fun=fmt,
                   measure=a["measure"], time_in_beats=a["time"])
    if k == "scoreprop":
        return M().v1.make_scoreprop(version=V, attribute=a["attr"], value=mk_value(a["val"]), measure=a["measure"],
                                     beat=a["beat"], offset=mk_dur(a["offset"]), time_in_beats=a["time"])
    if k == "section":
        return M().v1.make_section(V, a["s1"], a["e1"], a["s2"], a["e2"], list(a["rep"]))
    if k == "stime":
        return cls(version=V, measure=a["measure"], beat=a["beat"], offset=mk_dur(a["offset"]),
                   onset_in_beats=a["on"], annotation_type=list(a["ann"]))
    if k == "ptime":
        return cls(version=V, onsets=list(a["onsets"]))
    if k == "stimeptime":
        s, p = a["st"], a["pt"]
        st = M().v1.MatchStime(version=V, measure=s["measure"], beat=s["beat"], offset=mk_dur(s["offset"]),
                               onset_in_beats=s["on"], annotation_type=list(s["ann"]))
        return cls(version=V, stime=st, ptime=M().v1.MatchPtime(version=V, onsets=list(p["onsets"])))
    raise ValueError(k)


def parse_with_class(case, text):
    return line_class(case["k"], case["v"]).from_matchline(text, version=ver(case["v"]))


def dispatch(text, v):
    methods = M().v1.FROM_MATCHLINE_METHODS if is_v1(v) else M().v0.FROM_MATCHLINE_METHODS
    with quiet():
        return M().I.parse_matchline(text, methods, ver(v))


# ------------------------------------------------------------------------------------------------
# reference values and comparators

MIDI_BASE = {"C": 0, "D": 2, "E": 4, "F": 5, "G": 7, "A": 9, "B": 11}


def ref_midi(p):
    if p[2] is None or p[0] == "R":
        return None
    return (p[2] + 1) * 12 + MIDI_BASE[p[0]] + (p[1] or 0)


def is_int(x):
    return isinstance(x, (int, np.integer)) and not isinstance(x, (bool, np.bool_))


def is_float(x):
    return isinstance(x, (float, np.floating))


def eq_exact(obs, exp):
    if exp is None:
        return obs is None
    if isinstance(exp, int):
        return is_int(obs) and int(obs) == exp
    if isinstance(exp, float):
        return is_float(obs) and float(obs) == exp
    if isinstance(exp, str):
        return isinstance(obs, str) and obs == exp
    if isinstance(exp, (list, tuple)):
        return isinstance(obs, (list, tuple)) and len(obs) == len(exp) and all(eq_exact(o, e) for o, e in zip(obs, exp))
    return obs == exp


def on_grid(x, places):
    """True when x is the double nearest to a decimal with `places` decimals (the format can carry it)"""
    if places is None:
        return True
    q = Decimal(x).quantize(Decimal(1).scaleb(-places), rounding=ROUND_HALF_EVEN)
    return float(q) == x


def eq_float(obs, exp, places):
    if not is_float(obs):
        return False
    if on_grid(exp, places):
        return float(obs) == exp
    return abs(Fraction(float(obs)) - Fraction(exp)) <= Fraction(1, 10 ** places)


def dur_ref(comps):
    """(exact value or None when bounded, non-zero components, bounded?)"""
    comps = dur_comps(comps)
    val = Fraction(0)
    den = 1
    bounded = False
    for i, (n, d, td) in enumerate(comps):
        if n > 1024 or d > 1024:
            bounded = True
        dd = d * (td or 1)
        val += Fraction(n, dd)
        if i == 0:
            den = dd if len(comps) > 1 else d
        else:
            den = den * dd // math.gcd(den, dd)
        if len(comps) > 1 and (den > 1024 or val * den > 1024):
            bounded = True
    nz = [(n, d, td) for n, d, td in comps if n != 0]
    return val, nz, bounded


def dur_value(obs):
    return Fraction(int(obs.numerator), int(obs.denominator) * int(obs.tuple_div or 1))


def norm_comps(ac):
    if ac is None:
        return None
    # components with a zero numerator carry no value; whether they are kept is not compared
    return [(int(n), int(d), None if t is None else int(t)) for n, d, t in ac if int(n) != 0]


def eq_dur(obs, comps):
    if not isinstance(obs, M().U.FractionalSymbolicDuration):
        return False
    ordered = not (is_tree(comps) and order_open(comps["tree"]))
    comps = dur_comps(comps)
    val, nz, bounded = dur_ref(comps)
    if bounded:
        return True  # only the text fixpoint is required (checked by the caller)
    if dur_value(obs) != val:
        return False
    if not ordered:
        oc = norm_comps(obs.add_components)
        return (oc is None and len(nz) <= 1) or (oc is not None and sorted(oc, key=repr) == sorted(nz, key=repr))
    if len(comps) == 1:
        n, d, td = comps[0]
        return (int(obs.numerator), int(obs.denominator), None if obs.tuple_div is None else int(obs.tuple_div)) == (n, d, td) \
            and obs.add_components is None
    if len(nz) >= 2:
        return norm_comps(obs.add_components) == nz
    # one non-zero component left of a sum: the text is that of the plain duration
    return obs.add_components is None or norm_comps(obs.add_components) == nz


def eq_key(obs, k):
    if not isinstance(obs, M().U.MatchKeySignature):
        return False
    if not (eq_exact(obs.fifths, k[0]) and obs.mode == k[1] and eq_exact(obs.fifths_alt, k[2]) and obs.mode_alt == k[3]):
        return False
    oc = obs.other_components
    return isinstance(oc, list) and len(oc) == len(k[4]) and all(eq_key(o, e) for o, e in zip(oc, k[4]))


def eq_time(obs, ts):
    if not isinstance(obs, M().U.MatchTimeSignature):
        return False
    if not (eq_exact(obs.numerator, ts[0]) and eq_exact(obs.denominator, ts[1])):
        return False
    oc = obs.other_components or []
    return len(oc) == len(ts[2]) and all(eq_dur(o, [[n, d, None]]) for o, (n, d) in zip(oc, ts[2]))


def eq_value(obs, val, places=None):
    t, x = val["t"], val["x"]
    if t == "key":
        return eq_key(obs, x)
    if t == "time":
        return eq_time(obs, x)
    if t == "tempo":
        return isinstance(obs, M().U.MatchTempoIndication) and obs.value == x
    if t == "version":
        return isinstance(obs, M().U.Version) and tuple(obs) == tuple(x)
    if t == "float":
        return eq_float(obs, x, places)
    return eq_exact(obs, x)


def eq_round(obs, x):
    """integer nearest to x; both neighbours at an exact half"""
    return is_int(obs) and abs(Fraction(int(obs)) - Fraction(x)) <= Fraction(1, 2)


def show(x):
    U = M().U
    if isinstance(x, U.FractionalSymbolicDuration):
        return "FSD(%s|%s/%s/%s|%s)" % (str(x), x.numerator, x.denominator, x.tuple_div, x.add_components)
    if isinstance(x, U.MatchKeySignature):
        return "Key(%s,%s,%s,%s,%s)" % (x.fifths, x.mode, x.fifths_alt, x.mode_alt, [show(o) for o in x.other_components])
    if isinstance(x, U.MatchTimeSignature):
        return "Time(%s/%s,%s)" % (x.numerator, x.denominator, [show(o) for o in (x.other_components or [])])
    if isinstance(x, U.MatchTempoIndication):
        return "Tempo(%r)" % (x.value,)
    return repr(x)


# ------------------------------------------------------------------------------------------------
# field specifications: (field name, type, expected, extra)
#   x exact | f float with `extra` written decimals | d duration | v typed value | r rounded tick


def snote_spec(v, a, places="fmt"):
    pl = A.snote_float_places(v) if places == "fmt" else places
    p = a["pitch"]
    return [
        ("Anchor", "x", a["anchor"], None), ("NoteName", "x", p[0], None), ("Modifier", "x", p[1], None),
        ("Octave", "x", p[2], None), ("Measure", "x", a["measure"], None), ("Beat", "x", a["beat"], None),
        ("Offset", "d", a["offset"], None), ("Duration", "d", a["dur"], None),
        ("OnsetInBeats", "f", a["on"], pl), ("OffsetInBeats", "f", a["off"], pl),
        ("ScoreAttributesList", "x", a["attrs"], None), ("MidiPitch", "x", ref_midi(p), None),
    ]


def note_spec(v, a):
    if is_v1(v):
        return [("Id", "x", a["id"], None), ("MidiPitch", "x", a["mp"], None), ("Onset", "x", a["on"], None),
                ("Offset", "x", a["off"], None), ("Velocity", "x", a["vel"], None), ("Channel", "x", a["ch"], None),
                ("Track", "x", a["tr"], None)]
    p = a["pitch"]
    tt = "f" if A.note_time_places(v) else "x"
    pl = A.note_time_places(v) or None
    sp = [("Id", "x", a["id"], None), ("NoteName", "x", p[0], None), ("Modifier", "x", p[1], None),
          ("Octave", "x", p[2], None), ("Onset", tt, a["on"], pl), ("Offset", tt, a["off"], pl)]
    if A.has_adj_offset(v):
        sp.append(("AdjOffset", "x", a["adj"], None))
    sp += [("Velocity", "x", a["vel"], None), ("MidiPitch", "x", ref_midi(p), None)]
    return sp


def note_spec_converted(v, a):
    """1.0.0 performed note expected from a pre-1.0 note"""
    p = a["pitch"]
    tt = "r" if A.note_time_places(v) else "x"
    return [("Id", "x", a["id"], None), ("MidiPitch", "x", ref_midi(p), None), ("Onset", tt, a["on"], None),
            ("Offset", tt, a["off"], None), ("Velocity", "x", a["vel"], None)]


def stime_spec(a):
    return [("Measure", "x", a["measure"], None), ("Beat", "x", a["beat"], None), ("Offset", "d", a["offset"], None),
            ("OnsetInBeats", "f", a["on"], 4), ("AnnotationType", "x", a["ann"], None)]


def info_places(v, attr):
    return 4 if is_v1(v) else None


SELF = lambda o: o  # noqa
SN = lambda o: o.snote  # noqa
NT = lambda o: o.note  # noqa


def views(case):
    """[(label, getter, spec)] - where every field of the line lives"""
    k, v, a = case["k"], case["v"], case["a"]
    if k == "snote":
        return [("", SELF, snote_spec(v, a))]
    if k == "note":
        return [("", SELF, note_spec(v, a))]
    if k == "pair":
        return [("snote.", SN, snote_spec(v, a["s"])), ("note.", NT, note_spec(v, a["n"]))]
    if k in DELETIONS:
        sp = snote_spec(v, a["s"])
        return [("snote.", SN, sp), ("", SELF, sp[:-1])]
    if k in INSERTIONS:
        sp = note_spec(v, a["n"])
        return [("note.", NT, sp), ("", SELF, [s for s in sp if s[0] != "MidiPitch" or is_v1(v)])]
    if k in ("trill", "ornament"):
        sp = note_spec(v, a["n"])
        own = [("Anchor", "x", a["anchor"], None)]
        if k == "ornament":
            own.append(("OrnamentType", "x", a["types"], None))
        return [("", SELF, own), ("note.", NT, sp), ("", SELF, [s for s in sp if s[0] != "MidiPitch" or is_v1(v)])]
    if k in ("sustain", "soft"):
        return [("", SELF, [("Time", "x", a["time"], None), ("Value", "x", a["value"], None)])]
    if k == "info":
        return [("", SELF, [("Attribute", "x", a["attr"], None), ("Value", "v", a["val"], info_places(v, a["attr"]))])]
    if k == "meta":
        return [("", SELF, [("Attribute", "x", a["attr"], None), ("Value", "v", a["val"], None),
                            ("Measure", "x", a["measure"], None), ("TimeInBeats", "f", a["time"], None)])]
    if k == "scoreprop":
        return [("", SELF, [("Attribute", "x", a["attr"], None), ("Value", "v", a["val"], None),
                            ("Measure", "x", a["measure"], None), ("Beat", "x", a["beat"], None),
                            ("Offset", "d", a["offset"], None), ("TimeInBeats", "f", a["time"], 4)])]
    if k == "section":
        return [("", SELF, [("StartInBeatsUnfolded", "f", a["s1"], 4), ("EndInBeatsUnfolded", "f", a["e1"], 4),
                            ("StartInBeatsOriginal", "f", a["s2"], 4), ("EndInBeatsOriginal", "f", a["e2"], 4),
                            ("RepeatEndType", "x", a["rep"], None)])]
    if k == "stime":
        return [("", SELF, stime_spec(a))]
    if k == "ptime":
        return [("", SELF, [("Onsets", "x", a["onsets"], None)])]
    if k == "stimeptime":
        return [("stime.", lambda o: o.stime, stime_spec(a["st"])),
                ("ptime.", lambda o: o.ptime, [("Onsets", "x", a["pt"]["onsets"], None)])]
    raise ValueError(k)


def field_ok(obs, typ, exp, extra):
    if typ == "x":
        return eq_exact(obs, exp)
    if typ == "f":
        return eq_float(obs, exp, extra)
    if typ == "d":
        return eq_dur(obs, exp)
    if typ == "v":
        return eq_value(obs, exp, extra)
    if typ == "r":
        return eq_round(obs, exp)
    raise ValueError(typ)


def carried(typ, exp, extra):
    """the written text can carry the value exactly (so objects before and after must be ==)"""
    if typ == "f":
        return on_grid(exp, extra)
    if typ == "v" and exp["t"] == "float":
        return on_grid(exp["x"], extra)
    if typ == "d":
        val, nz, bounded = dur_ref(exp)
        return not bounded and (len(dur_comps(exp)) == 1 or len(nz) >= 2)
    return True


MISSING = object()


def compare_fields(res, clause, obj, vws, ctx, where):
    """every specified field of `obj` against the reference; returns number of mismatches"""
    bad = 0
    for label, get, spec in vws:
        try:
            sub = get(obj)
        except Exception as ex:
            res.fail(clause, kind="exception", where=innermost_partitura_frame(ex) or where, observed=exc_text(ex), detail=ctx)
            return bad + 1
        for name, typ, exp, extra in spec:
            try:
                obs = getattr(sub, name, MISSING)
            except Exception as ex:
                res.fail(clause, kind="exception", where=innermost_partitura_frame(ex) or where,
                         observed=exc_text(ex), detail="%s field %s%s" % (ctx, label, name))
                bad += 1
                continue
            if obs is MISSING or not field_ok(obs, typ, exp, extra):
                bad += 1
                res.fail(clause, expected="%s%s = %r" % (label, name, exp),
                         observed="missing" if obs is MISSING else show(obs), where="%s:%s%s" % (where, label, name), detail=ctx)
    return bad


def same_objects(res, clause, x, y, vws, ctx, where):
    """field-wise == between the written and the parsed object (the implementation's own equality)
    for every field named by the class whose value the text can carry"""
    merged = {}
    for label, get, spec in vws:
        merged.setdefault(get, (label, {}))[1].update((n, (t, e, ex)) for n, t, e, ex in spec)
    for get, (label, known) in merged.items():
        sx, sy = get(x), get(y)
        names = list(getattr(sx, "field_names", ()))
        if list(getattr(sy, "field_names", ())) != names:
            res.fail(clause, expected="%sfield_names %r" % (label, names), observed=list(getattr(sy, "field_names", ())),
                     where=where, detail=ctx)
            continue
        for n in names:
            if n in known and not carried(*known[n]):
                continue
            if not hasattr(sx, n):
                continue  # composite lines name the fields of their parts
            try:
                a, b = getattr(sx, n), getattr(sy, n, MISSING)
                same = b is not MISSING and bool(a == b) and not bool(a != b)
            except Exception as ex:
                res.fail(clause, kind="exception", where=innermost_partitura_frame(ex) or where, observed=exc_text(ex),
                         detail="%s field %s%s" % (ctx, label, n))
                continue
            if not same:
                res.fail(clause, expected="%s%s == %s" % (label, n, show(a)),
                         observed="missing" if b is MISSING else show(b), where="%s:%s%s" % (where, label, n), detail=ctx)


# ------------------------------------------------------------------------------------------------
# the line oracle


def call(res, clause, ctx, fn, *a):
    """run one implementation operation; exception/hang -> violation. Returns (ok, value)."""
    res.transitions += 1
    try:
        return True, fn(*a)
    except Hang:
        raise
    except Exception as ex:
        res.fail(clause, kind="exception", where=innermost_partitura_frame(ex), observed=exc_text(ex), detail=ctx)
        return False, None


def matchline_of(o):
    return o.matchline


def eval_line(case, res, pre=""):
    k, v = case["k"], case["v"]
    ctx = "%s%s %s" % (pre, k, v)
    vws = views(case)
    ok, x = call(res, "construct", ctx, build, case)
    if not ok:
        return "construct-exc"
    if compare_fields(res, "constructed-fields", x, vws, ctx, "constructor"):
        return "construct-bad"
    ok, t = call(res, "write", ctx, matchline_of, x)
    if not ok:
        return "write-exc"
    if not isinstance(t, str) or "\n" in t or not t:
        res.fail("write", expected="one line of text", observed=repr(t), where="MatchLine.matchline", detail=ctx)
        return "write-bad"
    ctx = "%s text=%r" % (ctx, t)
    # parse with the class's own parser
    ok, y = call(res, "parse", ctx, parse_with_class, case, t)
    if not ok:
        return "parse-exc"
    if type(y) is not type(x):
        res.fail("parse-same-kind", expected=type(x).__name__, observed=type(y).__name__, where="from_matchline", detail=ctx)
        return "parse-kind"
    nbad = compare_fields(res, "parse-equal-fields", y, vws, ctx, "from_matchline")
    same_objects(res, "parse-equal-fields", x, y, vws, ctx, "from_matchline")
    ok, t2 = call(res, "rewrite", ctx, matchline_of, y)
    if ok and t2 != t:
        res.fail("rewrite-fixpoint", expected=t, observed=t2, where="MatchLine.matchline", detail=ctx)
    # the public dispatcher with the version's ordered method list
    if k not in NOT_DISPATCHED:
        ok, z = call(res, "dispatch", ctx, dispatch, t, v)
        if ok:
            if type(z) is not type(x):
                res.fail("dispatch-same-kind", expected=type(x).__name__, observed=type(z).__name__,
                         where="importmatch.parse_matchline", detail=ctx)
            else:
                compare_fields(res, "dispatch-equal-fields", z, vws, ctx, "importmatch.parse_matchline")
                ok, t3 = call(res, "dispatch-rewrite", ctx, matchline_of, z)
                if ok and t3 != t:
                    res.fail("rewrite-fixpoint", expected=t, observed=t3, where="importmatch.parse_matchline", detail=ctx)
    # version detection on version lines
    if k == "info" and case["a"]["attr"] == "matchFileVersion":
        ok, gv = call(res, "get_version", ctx, M().I.get_version, t)
        if ok and tuple(gv) != tuple(case["a"]["val"]["x"]):
            res.fail("get_version", expected=case["a"]["val"]["x"], observed=list(gv), where="importmatch.get_version", detail=ctx)
    if not is_v1(v) and k not in ("snote", "note"):
        convert(case, res, x, ctx)
    return "ok" if not res.violations else "violation"


# ------------------------------------------------------------------------------------------------
# conversion to 1.0.0

V1_INFO_NAMES = set(sum(A.INFO_V1.values(), []))


def conv_expect(case):
    """(expected 1.0.0 class name, views with expected content, reparse?) or None when there is no equivalent"""
    k, v, a = case["k"], case["v"], case["a"]
    if k == "pair":
        return "MatchSnoteNote", [("snote.", SN, snote_spec(v, a["s"], None)), ("note.", NT, note_spec_converted(v, a["n"]))], True
    if k in DELETIONS:
        sp = snote_spec(v, a["s"], None)
        return "MatchSnoteDeletion", [("snote.", SN, sp), ("", SELF, sp[:-1])], True
    if k in INSERTIONS:
        sp = note_spec_converted(v, a["n"])
        return "MatchInsertionNote", [("note.", NT, sp), ("", SELF, sp)], True
    if k == "trill":
        sp = note_spec_converted(v, a["n"])
        return "MatchOrnamentNote", [("", SELF, [("Anchor", "x", a["anchor"], None), ("OrnamentType", "x", ["trill"], None)]),
                                     ("note.", NT, sp), ("", SELF, sp)], True
    if k == "sustain":
        return "MatchSustainPedal", views(case), True
    if k == "soft":
        return "MatchSoftPedal", views(case), True
    if k == "meta":
        return "MatchScoreProp", [("", SELF, [("Attribute", "x", a["attr"], None), ("Value", "v", a["val"], None),
                                              ("Measure", "x", a["measure"], None), ("TimeInBeats", "f", a["time"], None)])], True
    if k == "info":
        attr, val = a["attr"], a["val"]
        if attr in ("keySignature", "timeSignature"):
            return "MatchScoreProp", [("", SELF, [("Attribute", "x", attr, None), ("Value", "v", val, None)])], True
        if attr in ("tempoIndication", "beatSubDivision", "beatSubdivision"):
            name = "beatSubDivision" if attr.startswith("beatSub") else attr
            return "MatchScoreProp", [("", SELF, [("Attribute", "x", name, None)])], False
        name = "midiFileName" if attr == "midiFilename" else attr
        if name not in V1_INFO_NAMES:
            return None
        if name == "subtitle":
            return "MatchInfo", [("", SELF, [("Attribute", "x", name, None)])], False
        return "MatchInfo", [("", SELF, [("Attribute", "x", name, None), ("Value", "v", val, None)])], True
    raise ValueError(k)


def to_v1_quiet(x):
    with quiet():
        return M().v1.to_v1(x)


def loosen(vws, places):
    """views for the re-parsed 1.0.0 text: floats are written with `places` decimals"""
    out = []
    for label, get, spec in vws:
        sp = []
        for n, t, e, ex in spec:
            if t == "f":
                ex = places
            elif t == "v" and e["t"] == "float":
                ex = places
            elif t == "v" and e["t"] == "time":
                e = dict(t="time", x=[e["x"][0], e["x"][1], []])  # one signature per 1.0.0 line
            elif t == "v" and e["t"] == "key":
                e = dict(t="key", x=e["x"][:4] + [[]])
            sp.append((n, t, e, ex))
        out.append((label, get, sp))
    return out


def convert(case, res, x, ctx):
    exp = conv_expect(case)
    if exp is None:
        # no 1.0.0 equivalent: raising MatchError is the documented answer; anything else is not compared
        res.transitions += 1
        try:
            to_v1_quiet(x)
        except Exception:
            pass
        return
    cname, vws, reparse = exp
    ok, w = call(res, "to_v1", ctx, to_v1_quiet, x)
    if not ok:
        return
    cls = getattr(M().v1, cname)
    if type(w) is not cls:
        res.fail("to_v1-kind", expected="matchlines_v1." + cname, observed="%s.%s" % (type(w).__module__, type(w).__name__),
                 where="matchlines_v1.to_v1", detail=ctx)
        return
    if tuple(w.version) != (1, 0, 0):
        res.fail("to_v1-kind", expected="version 1.0.0", observed=list(w.version), where="matchlines_v1.to_v1", detail=ctx)
    if compare_fields(res, "to_v1-content", w, vws, ctx, "matchlines_v1.to_v1"):
        return
    if not reparse:
        return
    # the converted line is a 1.0.0 line: it can be written, is recognised as the same kind and keeps the content
    ok, tw = call(res, "to_v1-write", ctx, matchline_of, w)
    if not ok:
        return
    ctx2 = "%s v1text=%r" % (ctx, tw)
    ok, z = call(res, "to_v1-parse", ctx2, dispatch, tw, A.V1)
    if not ok:
        return
    if type(z) is not cls:
        res.fail("to_v1-parse-same-kind", expected=cname, observed=type(z).__name__, where="importmatch.parse_matchline", detail=ctx2)
        return
    compare_fields(res, "to_v1-parse-content", z, loosen(vws, 4), ctx2, "importmatch.parse_matchline")
    ok, tz = call(res, "to_v1-rewrite", ctx2, matchline_of, z)
    if ok and tz != tw:
        res.fail("rewrite-fixpoint", expected=tw, observed=tz, where="matchlines_v1.to_v1", detail=ctx2)


# ------------------------------------------------------------------------------------------------
# value objects: durations, key and time signatures, versions


def eval_fsd(case, res):
    F = M().U.FractionalSymbolicDuration
    enc = case["a"]["c"]
    comps = dur_comps(enc)
    ctx = "duration %r" % (enc["tree"] if is_tree(enc) else comps,)
    ok, x = call(res, "duration-construct", ctx, mk_dur, enc)
    if not ok:
        return "exc"
    if not isinstance(x, F):
        res.fail("duration-construct", expected="FractionalSymbolicDuration", observed=type(x).__name__,
                 where="FractionalSymbolicDuration.__add__", detail=ctx)
        return "kind"
    val, nz, bounded = dur_ref(comps)
    if not nz and len(comps) > 1:
        return "zero-sum"  # not generated
    if not bounded:
        if dur_value(x) != val:
            res.fail("duration-addition-exact" if len(comps) > 1 else "duration-value", expected=val,
                     observed=show(x), where="FractionalSymbolicDuration.__add__" if len(comps) > 1 else "FractionalSymbolicDuration", detail=ctx)
        ok, fl = call(res, "duration-float", ctx, float, x)
        if ok and fl != float(val):
            res.fail("duration-float", expected=float(val), observed=fl, where="FractionalSymbolicDuration.__float__", detail=ctx)
        if len(comps) > 1:
            # float(a + b) equals the exact sum of the exact operands
            parts = Fraction(0)
            for c in comps:
                ok, p = call(res, "duration-float", ctx, lambda c=c: dur_value(F(c[0], c[1], c[2])))
                if ok:
                    parts += p
            if parts != val:
                res.fail("duration-addition-exact", expected=val, observed=parts, where="FractionalSymbolicDuration", detail=ctx)
        if not eq_dur(x, enc):
            res.fail("duration-value", expected=comps, observed=show(x), where="FractionalSymbolicDuration", detail=ctx)
    ok, s = call(res, "duration-write", ctx, str, x)
    if not ok:
        return "exc"
    if not bounded:
        # addition is exact and leaves its operands alone: adding to x (twice) must not change x's value or
        # text, and both sums must be equal (a sum that shares state with an operand shows up here)
        for oc in ([1, 8, None], [1, 16, 3], 1):
            other = 1 if oc == 1 else F(oc[0], oc[1], oc[2])
            val2, nz2, bounded2 = dur_ref(list(comps) + [[1, 1, None] if oc == 1 else oc])
            ok1, z1 = call(res, "duration-addition-exact", ctx, lambda: x + other)
            ok2, z2 = call(res, "duration-addition-exact", ctx, lambda: x + other)
            if not (ok1 and ok2):
                break
            if str(z1) != str(z2) or (not bounded2 and (dur_value(z1) != val2 or dur_value(z2) != val2)):
                res.fail("duration-addition-exact", expected="%s twice" % (val2,), observed=[show(z1), show(z2)],
                         where="FractionalSymbolicDuration.__add__", detail="%s + %s" % (ctx, oc))
                break
            ok3, s3 = call(res, "duration-write", ctx, str, x)
            if ok3 and (s3 != s or dur_value(x) != val):
                res.fail("duration-addition-operand-unchanged", expected=s, observed=s3, where="FractionalSymbolicDuration.__add__",
                         detail="%s after adding %s to it" % (ctx, oc))
                break
    ctx = "%s text=%r" % (ctx, s)
    ok, y = call(res, "duration-parse", ctx, F.from_string, s)
    if not ok:
        return "exc"
    if not isinstance(y, F):
        res.fail("duration-parse", expected="FractionalSymbolicDuration", observed=type(y).__name__, where="FractionalSymbolicDuration.from_string", detail=ctx)
        return "kind"
    if not bounded and (dur_value(y) != dur_value(x) or float(y) != float(x)):
        res.fail("duration-roundtrip-value", expected=show(x), observed=show(y), where="FractionalSymbolicDuration.from_string", detail=ctx)
    if not bounded and not eq_dur(y, enc):
        res.fail("duration-roundtrip-value", expected=comps, observed=show(y), where="FractionalSymbolicDuration.from_string", detail=ctx)
    if carried("d", comps, None) and not (bool(x == y) and not bool(x != y)):
        res.fail("duration-roundtrip-equal", expected=show(x), observed=show(y), where="FractionalSymbolicDuration.__eq__", detail=ctx)
    ok, s2 = call(res, "duration-rewrite", ctx, str, y)
    if ok and s2 != s:
        res.fail("rewrite-fixpoint", expected=s, observed=s2, where="FractionalSymbolicDuration.__str__", detail=ctx)
    # the interpreter used by the line classes
    ok, y2 = call(res, "duration-parse", ctx, M().U.interpret_as_fractional, s)
    if ok and not (isinstance(y2, F) and (bounded or dur_value(y2) == dur_value(x)) and str(y2) == s):
        res.fail("duration-roundtrip-value", expected=show(x), observed=show(y2), where="interpret_as_fractional", detail=ctx)
    return "bounded" if bounded else ("sum%d" % len(nz) if len(comps) > 1 else "plain")


# ------------------------------------------------------------------------------------------------
# durations built by expressions of every association shape, and sequences parse - add - parse again


def probe_snote(v, dur, offset):
    return dict(k="snote", v=v, a=dict(anchor="n1", pitch=["C", 0, 4], measure=1, beat=1, offset=offset, dur=dur,
                                       on=0.0, off=1.0, attrs=["s"]))


def tree_is_right(t):
    """some right operand of the expression is itself a sum"""
    if isinstance(t, int) or t[0] != "+":
        return False
    r = t[2]
    return (not isinstance(r, int) and r[0] == "+") or tree_is_right(t[1]) or tree_is_right(t[2])


def eval_fsd_tree(case, res):
    """the duration oracle on the value of the expression, then the line oracle on score-note lines that carry
    the value as Duration and as Offset"""
    a = case["a"]
    out = eval_fsd(case, res)
    if out in ("exc", "kind", "zero-sum") or res.violations:
        return out
    n = 1
    for v in a["lines"]:
        n += 1
        eval_line(probe_snote(v, a["c"], a["c"]), res, "duration %r as Duration and Offset of " % (a["c"]["tree"],))
        if res.violations:
            break
    res.states = res.traces = n
    t = a["c"]["tree"]
    return "%s-%s%s" % (out, "right-nested" if tree_is_right(t) else "left-nested", "-int-left" if order_open(t) else "")


def dur_text(comps):
    """the text of a duration: n | n/d | n/d/t, components joined by + (reference formatter; zero components of a
    sum are not generated)"""
    def one(n, d, td):
        if d == 1 and td is None:
            return "%d" % n
        return "%d/%d" % (n, d) if td is None else "%d/%d/%d" % (n, d, td)
    return "+".join(one(*c) for c in comps)


SEQ_FIELDS = {"Duration": "dur", "Offset": "offset"}


def seq_parse(chan, comps):
    """one duration text read through a channel -> (duration object, text, line object or None, line text or None)"""
    U = M().U
    text = dur_text(comps)
    if chan == "from_string":
        return U.FractionalSymbolicDuration.from_string(text), text, None, None
    if chan == "interpret":
        return U.interpret_as_fractional(text), text, None, None
    what, v = chan.split("@")
    kind, field = what.split(".")
    zero = [[0, 1, None]]
    if kind == "snote":
        c = probe_snote(v, comps if field == "Duration" else [[1, 4, None]], comps if field == "Offset" else zero)
    elif kind == "stime":
        c = dict(k="stime", v=v, a=dict(measure=1, beat=1, offset=comps, on=0.0, ann=["beat"]))
    else:
        raise ValueError(chan)
    t = build(c).matchline
    if text not in t:
        raise ValueError("the text %r of the line does not contain the duration text %r" % (t, text))
    y = parse_with_class(c, t)
    return getattr(y, field), text, y, t


def seq_tree(fold, leaves):
    """the expression a fold computes"""
    if fold == "add-right":
        t = leaves[-1]
        for lf in reversed(leaves[:-1]):
            t = ["+", lf, t]
        return t
    t = ["+", 0, leaves[0]] if fold == "sum" else leaves[0]
    for lf in leaves[1:]:
        t = ["+", t, lf]
    return t


def seq_fold(fold, objs):
    if fold == "sum":
        return sum(objs)
    if fold == "add-right":
        acc = objs[-1]
        for o in reversed(objs[:-1]):
            acc = o + acc
        return acc
    acc = objs[0]
    for o in objs[1:]:
        if fold == "iadd":
            acc += o
        else:
            acc = acc + o
    return acc


def seq_check_dur(res, clause, obs, comps, text, where, ctx):
    """a parsed duration has the value, components and text of its text"""
    F = M().U.FractionalSymbolicDuration
    if not isinstance(obs, F) or not eq_dur(obs, comps):
        res.fail(clause, expected="%s = %r" % (text, comps), observed=show(obs), where=where, detail=ctx)
        return False
    ok, s = call(res, clause, ctx, str, obs)
    if ok and s != text:
        res.fail(clause, expected=text, observed=s, where=where, detail=ctx)
        return False
    return ok


def eval_durseq(case, res):
    """every way of adding up, one after the other in the same process (stops at the first violation)"""
    a = case["a"]
    n = 0
    outs = []
    for fold in (SEQ_FOLDS if len(a["ops"]) > 1 else ["sum"]):
        sub = CaseResult(states=1, transitions=0, traces=1)
        outs.append(eval_durseq_fold(a, fold, sub))
        n += sub.states
        res.transitions += sub.transitions
        res.violations.extend(sub.violations)
        if res.violations:
            break
    res.states = res.traces = n
    kinds = "int" if any(isinstance(o, int) for o in a["ops"]) else "texts"
    return "%d-%s-%s-%s" % (len(a["ops"]), kinds, a["chan"].split("@")[0], "ok" if all(o == "ok" for o in outs) else outs[-1])


def eval_durseq_fold(a, fold, res):
    """parse duration texts (directly or as fields of lines), add the parsed objects up, then: the sum is exact, the
    parsed objects and their lines are what they were, and parsing the texts of the alphabet again gives their values"""
    chan = a["chan"]
    F = M().U.FractionalSymbolicDuration
    texts = [o for o in a["ops"] if not isinstance(o, int)]
    ctx = "%s over %s read with %s" % (fold, " , ".join(repr(o) if isinstance(o, int) else dur_text(o) for o in a["ops"]), chan)
    objs, held = [], []
    for o in a["ops"]:
        if isinstance(o, int):
            objs.append(o)
            continue
        ok, got = call(res, "duration-parse", ctx, seq_parse, chan, o)
        if not ok:
            return "exc"
        d, text, line, ltext = got
        if not seq_check_dur(res, "duration-roundtrip-value", d, o, text, chan, ctx):
            return "parse-bad"
        objs.append(d)
        held.append((d, o, text, line, ltext))
    enc = dict(tree=seq_tree(fold, [o if isinstance(o, int) else [list(c) for c in o] for o in a["ops"]]))
    ok, acc = call(res, "duration-addition-exact", ctx, seq_fold, fold, objs)
    if not ok:
        return "exc"
    val, nz, bounded = dur_ref(enc)
    if not isinstance(acc, F) or not (bounded or (dur_value(acc) == val and eq_dur(acc, enc))):
        res.fail("duration-addition-exact", expected="%s = %r" % (val, dur_comps(enc)), observed=show(acc),
                 where="FractionalSymbolicDuration.__add__", detail=ctx)
        return "sum-bad"
    # addition leaves its operands alone: the parsed objects and the lines they belong to are what they were
    for d, o, text, line, ltext in held:
        if not seq_check_dur(res, "duration-addition-operand-unchanged", d, o, text, "FractionalSymbolicDuration.__add__",
                             ctx + ": parsed operand after the additions"):
            return "operand-changed"
        if line is not None:
            ok, t2 = call(res, "rewrite", ctx, matchline_of, line)
            if ok and t2 != ltext:
                res.fail("duration-addition-operand-unchanged", expected=ltext, observed=t2, where="MatchLine.matchline",
                         detail=ctx + ": line of a parsed operand after the additions")
                return "operand-changed"
    # the sum survives the string round trip
    ok, s = call(res, "duration-write", ctx, str, acc)
    if not ok:
        return "exc"
    ok, y = call(res, "duration-parse", ctx, F.from_string, s)
    if not ok:
        return "exc"
    if not isinstance(y, F) or not (bounded or (dur_value(y) == val and eq_dur(y, enc))) or str(y) != s:
        res.fail("duration-roundtrip-value", expected="%s = %s" % (s, val), observed=show(y),
                 where="FractionalSymbolicDuration.from_string", detail=ctx)
        return "sum-roundtrip"
    # every text of the alphabet parsed again: through the channel of the case and directly
    for o in a["alphabet"]:
        for ch in ([chan] if chan == "from_string" else [chan, "from_string"]):
            c2 = "%s, then %r read again with %s" % (ctx, dur_text(o), ch)
            ok, got = call(res, "duration-parse", c2, seq_parse, ch, o)
            if not ok:
                return "exc"
            d, text, line, ltext = got
            if not seq_check_dur(res, "duration-roundtrip-value", d, o, text, ch, c2):
                return "reparse-bad"
            if line is not None:
                ok, t2 = call(res, "rewrite", c2, matchline_of, line)
                if ok and t2 != ltext:
                    res.fail("rewrite-fixpoint", expected=ltext, observed=t2, where="MatchLine.matchline", detail=c2)
                    return "reparse-bad"
    # and the complete line oracle on score-note lines with the texts of the case
    v = chan.split("@")[1] if "@" in chan else A.V1
    n = 1
    for o in texts[:2]:
        n += 1
        eval_line(probe_snote(v, o, texts[-1]), res, ctx + ", then ")
        if res.violations:
            return "line-bad"
    res.states = res.traces = n
    return "ok"


def eval_durseq_isolated(case, res):
    """in a forked child of the worker: what a sequence leaves behind in the classes cannot reach the next case"""
    M()
    return run_isolated(eval_durseq, case, res)


def key_formatter(sp):
    U = M().U
    return {"v1": U.format_key_signature_v1_0_0, "v03": U.format_key_signature_v0_3_0,
            "v03l": U.format_key_signature_v0_3_0_list, "v01": U.format_key_signature_v0_1_0}[sp]


def eval_key(case, res):
    a = case["a"]
    fmt = key_formatter(a["sp"])
    K = M().U.MatchKeySignature
    ctx = "key %r spelling %s" % (a["key"], a["sp"])
    if "text" in a:
        t0 = a["text"]
        ctx += " historical text %r" % t0
        ok, x = call(res, "key-parse", ctx, K.from_string, t0)
        if not ok:
            return "exc"
        if not eq_key(x, a["key"]):
            res.fail("key-roundtrip-value", expected=a["key"], observed=show(x), where="MatchKeySignature.from_string", detail=ctx)
            return "bad"
    else:
        ok, x = call(res, "key-construct", ctx, mk_key, a["key"])
        if not ok:
            return "exc"
    ok, t = call(res, "key-write", ctx, fmt, x)
    if not ok:
        return "exc"
    ctx = "%s text=%r" % (ctx, t)
    ok, y = call(res, "key-parse", ctx, K.from_string, t)
    if not ok:
        return "exc"
    if not eq_key(y, a["key"]):
        res.fail("key-roundtrip-value", expected=a["key"], observed=show(y), where="MatchKeySignature.from_string", detail=ctx)
    elif not bool(x == y):
        res.fail("key-roundtrip-value", expected=show(x), observed=show(y), where="MatchKeySignature.__eq__", detail=ctx)
    ok, t2 = call(res, "key-rewrite", ctx, fmt, y)
    if ok and t2 != t:
        res.fail("rewrite-fixpoint", expected=t, observed=t2, where="MatchKeySignature.__str__", detail=ctx)
    return "ok"


def eval_time(case, res):
    a = case["a"]
    U = M().U
    fmt = U.format_time_signature_list if a["list"] else U.format_time_signature
    ctx = "time signature %r list=%r" % (a["ts"], a["list"])
    ok, x = call(res, "time-construct", ctx, mk_time, a["ts"])
    if not ok:
        return "exc"
    ok, t = call(res, "time-write", ctx, fmt, x)
    if not ok:
        return "exc"
    ctx = "%s text=%r" % (ctx, t)
    ok, y = call(res, "time-parse", ctx, U.interpret_as_time_signature, t)
    if not ok:
        return "exc"
    if not eq_time(y, a["ts"]):
        res.fail("time-roundtrip-value", expected=a["ts"], observed=show(y), where="MatchTimeSignature.from_string", detail=ctx)
    elif not bool(x == y):
        res.fail("time-roundtrip-value", expected=show(x), observed=show(y), where="MatchTimeSignature.__eq__", detail=ctx)
    ok, t2 = call(res, "time-rewrite", ctx, fmt, y)
    if ok and t2 != t:
        res.fail("rewrite-fixpoint", expected=t, observed=t2, where="MatchTimeSignature.__str__", detail=ctx)
    return "ok"


def eval_version(case, res):
    U = M().U
    tup = case["a"]["ver"]
    ctx = "version %r" % (tup,)
    ok, t = call(res, "version-write", ctx, U.format_version, U.Version(*tup))
    if not ok:
        return "exc"
    ok, y = call(res, "version-parse", ctx, U.interpret_version, t)
    if ok and tuple(y) != tuple(tup):
        res.fail("version-roundtrip", expected=tup, observed=list(y), where="interpret_version", detail="%s text=%r" % (ctx, t))
    if ok:
        ok, t2 = call(res, "version-write", ctx, U.format_version, y)
        if ok and t2 != t:
            res.fail("rewrite-fixpoint", expected=t, observed=t2, where="format_version", detail=ctx)
    if tup[0] == 0:  # historical two-number spelling of pre-1.0 versions
        ok, y = call(res, "version-parse", ctx, U.interpret_version, "%d.%d" % (tup[1], tup[2]))
        if ok and tuple(y) != tuple(tup):
            res.fail("version-roundtrip", expected=tup, observed=list(y), where="interpret_version", detail=ctx + " old spelling")
    return "ok"


# ------------------------------------------------------------------------------------------------
# call histories: match files of every version loaded one after the other, then lines parsed
#
# The statement holds for every line whatever was read before: the parser lists and field tables are
# per-version module state shared by all calls of a process.  A history case loads files of given
# versions in sequence with the public loaders and then evaluates the complete line oracle
# (eval_line) on lines of every kind of one version.

FILE_FORMS = ["none"] + A.ALL_VERSIONS  # "none" = 0.1.0 content without a version line
LOADERS = ["matchfile", "match"]
PROBE_DIAG = 2
NBLOCKS_HISTORY = 32
_PROBES = {}
_FILES = {}


def form_version(form):
    return "0.1.0" if form == "none" else form


def probe_cases(v):
    """lines of version v: of every family (kind, version[, attribute]) of the line spaces the first
    PROBE_DIAG cases of the diagonal of its alphabets (every field takes its j-th value, j < PROBE_DIAG)"""
    if v not in _PROBES:
        out = []
        for name, kind, fv, fields, fixed in family_specs(False):
            if fv != v:
                continue
            prev = None
            for j in range(PROBE_DIAG):
                idx = tuple(j % len(vals) for _, vals in fields)
                if idx == prev:
                    continue
                prev = idx
                a = nest(dict((n, vals[i]) for (n, vals), i in zip(fields, idx)))
                if fixed:
                    a.update(fixed)
                out.append(dict(k=kind, v=v, a=a))
        _PROBES[v] = out
    return _PROBES[v]


def file_cases(form):
    """the lines of the file of one version: the version line (unless form is "none") and every probe
    line of the version that is a line of its own in a file, with score anchors and performed-note ids
    renumbered so that they are unique in the file (the loader removes duplicated ids by design)"""
    if form not in _FILES:
        v = form_version(form)
        lines = []
        if form != "none":
            lines.append(dict(k="info", v=v, a=dict(attr="matchFileVersion", val=dict(t="version", x=list(A.vt(v))))))
        n = 0
        for c in probe_cases(v):
            if c["k"] in NOT_DISPATCHED or (c["k"] == "info" and c["a"]["attr"] == "matchFileVersion"):
                continue
            if c["k"] == "info" and c["a"]["attr"] in ("midiClockUnits", "midiClockRate") and c["a"]["val"]["x"] == 0:
                continue  # a header without a MIDI clock: load_match would stop before it has built anything
            c = copy.deepcopy(c)
            a = c["a"]
            n += 1
            if "s" in a:
                a["s"]["anchor"] = "s%d" % n
            if "n" in a:
                a["n"]["id"] = "p%d" % n
            if "anchor" in a:
                a["anchor"] = "s%d" % n
            lines.append(c)
        _FILES[form] = lines
    return _FILES[form]


def load_quiet(loader, fn):
    with quiet(), warnings.catch_warnings():
        warnings.simplefilter("ignore")
        if loader == "matchfile":
            return M().I.load_matchfile(fn)
        return M().I.load_match(fn, create_score=True)


def loaded_lines(mf):
    return [(type(ln).__name__, ln.matchline) for ln in mf.lines]


def eval_history(case, res):
    a = case["a"]
    done = []
    marks = []
    nstates = 0
    with tempfile.TemporaryDirectory(prefix="c07-") as tmp:
        for step, (form, loader) in enumerate(a["ops"]):
            name = "%s(%s)" % ("load_matchfile" if loader == "matchfile" else "load_match", form)
            ctx = "history [%s] then %s" % (", ".join(done), name)
            expected = []
            for c in file_cases(form):
                ok, x = call(res, "construct", ctx, build, c)
                if not ok:
                    return "construct-exc"
                ok, t = call(res, "write", ctx, matchline_of, x)
                if not ok:
                    return "write-exc"
                expected.append((type(x).__name__, t))
            fn = os.path.join(tmp, "f%d.match" % step)
            with open(fn, "w") as f:
                f.write("\n".join(t for _, t in expected) + "\n")
            if loader == "matchfile":
                ok, mf = call(res, "file-load", ctx, load_quiet, loader, fn)
                if not ok:
                    return "load-exc"
                ok, obs = call(res, "file-load", ctx, loaded_lines, mf)
                if not ok:
                    return "load-exc"
                # every line of the file is a line of its kind with the written text (duplicates are
                # dropped by design: the file has none; the order of the lines is not compared)
                exp = sorted(set(expected))
                nstates += len(exp)
                if sorted(obs) != exp:
                    missing = [e for e in exp if e not in obs]
                    extra = [o for o in obs if o not in exp]
                    res.fail("file-lines-same-kind-and-text", expected=missing[:4] or "%d lines" % len(exp),
                             observed=(extra[:4] or "%d lines" % len(obs)) if extra or not missing else "not in the loaded file",
                             where="importmatch.load_matchfile", detail="%s: %d of %d lines differ" % (ctx, len(missing) + len(extra), len(exp)))
                    return "file-lines"
                marks.append("F")
            else:
                # load_match = load_matchfile + performance/score construction; what it builds belongs to other
                # properties and is not compared here (it may reject these synthetic files): it is a history step
                res.transitions += 1
                try:
                    load_quiet(loader, fn)
                    marks.append("M")
                except Hang:
                    raise
                except Exception:
                    marks.append("Mx")
            done.append(name)
    pre = "history [%s] then " % ", ".join(done)
    for c in probe_cases(a["probe"]):
        nstates += 1
        eval_line(c, res, pre)
        if res.violations:
            break
    res.states = max(1, nstates)
    res.traces = max(1, nstates)
    return "len%d-%s" % (len(done), "".join(sorted(set(marks))) or "-")


# ------------------------------------------------------------------------------------------------
# the `pos` option of the class parsers: the line is part of a longer string
#
# The parsers of the line classes that are not composed of other lines take the position of the line in the
# input string (`from_matchline(matchline, pos=..., version=...)`; "Position of the matchline in the input
# string").  A case embeds the written text of a line in a buffer (something before it, something after it)
# and parses the buffer with pos = length of what stands before the line: the result is the line.

# kinds whose class parser documents `pos` (the composite lines - pairs, deletions, insertions, ornaments,
# stime-ptime - do not have the option)
POS_KINDS_V0 = ("info", "meta", "snote", "note", "sustain", "soft")
POS_KINDS_V1 = ("info", "scoreprop", "section", "snote", "note", "stime", "ptime", "sustain", "soft")
OTHER = None  # stands for the text of the other line of the case
POS_PREFIXES = {
    "none": [],                          # pos=0 (the default), something follows the line
    "space": [" "],
    "indent": ["\t  "],
    "comment": ["% comment\n"],
    "newline": ["\n"],
    "line": [OTHER, "\n"],               # second line of a buffer
    "adjacent": [OTHER],                 # directly behind another line
    "two-lines": [OTHER, "\n", OTHER, "\n"],  # third line: pos is larger than the rest of the buffer
}
POS_SUFFIXES = {
    "none": [],
    "newline": ["\n"],
    "crlf": ["\r\n"],
    "line": ["\n", OTHER, "\n"],         # another line follows
}
NBLOCKS_POS = 32


def pos_kinds(v):
    return POS_KINDS_V1 if is_v1(v) else POS_KINDS_V0


def diagonal(fields, fixed):
    """every value of every field at least once: the j-th case takes the j-th value (cyclic) of every field"""
    n = max(len(vals) for _, vals in fields)
    for j in range(n):
        a = nest(dict((name, vals[j % len(vals)]) for name, vals in fields))
        if fixed:
            a.update(fixed)
        yield a


def pos_lines(tier_x, pairs):
    """(line, other line) of every family whose class parser has the option: the diagonal of the family's
    alphabets (pairs=False) or the enumeration of the line spaces (pairs=True: full product when small, else
    all pairs of fields); the other line is the preceding line of the same family (cyclic)"""
    for name, kind, v, fields, fixed in family_specs(tier_x):
        if kind not in pos_kinds(v):
            continue
        if pairs:
            lines = list(gen(kind, v, fields, QUICK_LIMIT, fixed))
        else:
            lines = [dict(k=kind, v=v, a=a) for a in diagonal(fields, fixed)]
        for i, ln in enumerate(lines):
            yield ln, lines[i - 1]


POS_COMBOS = [(pre, suf) for pre in POS_PREFIXES for suf in POS_SUFFIXES if (pre, suf) != ("none", "none")]
# ("none", "none") is the plain parse of the line spaces


def pos_case(ln, other, pre, suf):
    return dict(k="pos", v=ln["v"], a=dict(line=ln, other=other, pre=pre, suf=suf))


def pos_cases(tier_x, pairs):
    for ln, other in pos_lines(tier_x, pairs):
        for pre, suf in POS_COMBOS:
            yield pos_case(ln, other, pre, suf)


def pos_scope_rest(block=0, nblocks=1):
    """the thorough scope without the quick core: the lines of the enumeration of the line spaces over the
    extended alphabets that are not on the diagonal of the core alphabets, x every prefix/suffix combination;
    (block, nblocks) = every nblocks-th case of this enumeration starting with case number `block`"""
    core = set(repr(ln) for ln, _ in pos_lines(False, False))
    n = 0
    for ln, other in pos_lines(True, True):
        if repr(ln) in core:
            continue
        for pre, suf in POS_COMBOS:
            if n % nblocks == block:
                yield pos_case(ln, other, pre, suf)
            n += 1


def parse_at(line, buffer, pos):
    return line_class(line["k"], line["v"]).from_matchline(buffer, pos=pos, version=ver(line["v"]))


def eval_pos(case, res):
    a = case["a"]
    line, other = a["line"], a["other"]
    ctx = "%s %s in a buffer (before: %s, after: %s)" % (line["k"], line["v"], a["pre"], a["suf"])
    vws = views(line)
    ok, x = call(res, "construct", ctx, build, line)
    if not ok:
        return "construct-exc"
    ok, t = call(res, "write", ctx, matchline_of, x)
    if not ok:
        return "write-exc"
    ok, o = call(res, "construct", ctx, build, other)
    if not ok:
        return "construct-exc"
    ok, to = call(res, "write", ctx, matchline_of, o)
    if not ok:
        return "write-exc"
    if not isinstance(t, str) or not isinstance(to, str) or not t or "\n" in t or "\n" in to:
        res.fail("write", expected="one line of text", observed=repr((t, to)), where="MatchLine.matchline", detail=ctx)
        return "write-bad"
    prefix = "".join(to if p is OTHER else p for p in POS_PREFIXES[a["pre"]])
    suffix = "".join(to if p is OTHER else p for p in POS_SUFFIXES[a["suf"]])
    buffer = prefix + t + suffix
    pos = len(prefix)
    ctx = "%s buffer=%r pos=%d" % (ctx, buffer, pos)
    ok, y = call(res, "parse-pos", ctx, parse_at, line, buffer, pos)
    if not ok:
        return "parse-exc"
    if type(y) is not type(x):
        res.fail("parse-pos-same-kind", expected=type(x).__name__, observed=type(y).__name__, where="from_matchline", detail=ctx)
        return "parse-kind"
    compare_fields(res, "parse-pos-equal-fields", y, vws, ctx, "from_matchline")
    same_objects(res, "parse-pos-equal-fields", x, y, vws, ctx, "from_matchline")
    ok, t2 = call(res, "rewrite", ctx, matchline_of, y)
    if ok and t2 != t:
        res.fail("rewrite-fixpoint", expected=t, observed=t2, where="MatchLine.matchline", detail=ctx)
    if res.violations:
        return "violation"
    return "ok-pos0" if pos == 0 else ("ok-line-before" if OTHER in POS_PREFIXES[a["pre"]] else "ok-text-before")


def eval_case(case):
    res = CaseResult(states=1, transitions=0, traces=1)
    k = case["k"]
    if k == "pos":
        out = eval_pos(case, res)
    elif k == "fsd":
        out = eval_fsd(case, res)
    elif k == "fsdtree":
        out = eval_fsd_tree(case, res)
    elif k == "durseq":
        out = eval_durseq_isolated(case, res)
    elif k == "keysig":
        out = eval_key(case, res)
    elif k == "timesig":
        out = eval_time(case, res)
    elif k == "version":
        out = eval_version(case, res)
    elif k == "history":
        out = eval_history_isolated(case, res)
    else:
        out = eval_line(case, res)
    if k == "info" and out == "ok" and case["a"]["val"]["t"] in ("str", "list"):
        # free text that contains the sequence closing an info line is a class of its own
        x = case["a"]["val"]["x"]
        if any(")." in s for s in ([x] if isinstance(x, str) else x)):
            out = "ok-text-with-closing-sequence"
    res.nontrivial = out not in ("zero-sum",)
    res.outcome = "%s:%s" % (k, "violation" if res.violations else out)
    return res


# ------------------------------------------------------------------------------------------------
# sub-spaces


def f_snote(v, x, small, pre=""):
    pl = A.snote_float_places(v)
    fl = (A.FLOATS_S if small else A.FLOATS)[pl]
    return [
        (pre + "anchor", A.IDS_X if x and not small else A.IDS),
        (pre + "pitch", A.PITCHES_SR if small else A.PITCHES_R),
        (pre + "measure", A.MEASURES if not small else [0, 12]),
        (pre + "beat", A.BEATS if not small else [1, 12]),
        (pre + "offset", A.DURS_S if small else (A.DURS_X if x else A.DURS)),
        (pre + "dur", A.DURS_S if small else (A.DURS_X if x else A.DURS)),
        (pre + "on", fl), (pre + "off", fl),
        (pre + "attrs", A.ATTRS if not small else A.ATTRS[:3]),
    ]


def f_note(v, x, small, pre=""):
    if is_v1(v):
        return [(pre + "id", A.IDS_X if x and not small else A.IDS), (pre + "mp", A.MIDIP if not small else [0, 60, 127]),
                (pre + "on", A.TICKS), (pre + "off", A.TICKS), (pre + "vel", A.VEL if not small else A.CTRL),
                (pre + "ch", A.CHANNEL if not small else [0, 15]), (pre + "tr", A.TRACK if not small else [0, 9])]
    tm = (A.FLOATS_S if small else A.FLOATS)[2] if A.note_time_places(v) else A.TICKS
    fs = [(pre + "id", A.IDS_X if x and not small else A.IDS), (pre + "pitch", A.PITCHES_S if small else A.PITCHES),
          (pre + "on", tm), (pre + "off", tm)]
    if A.has_adj_offset(v):
        fs.append((pre + "adj", A.TICKS))
    fs.append((pre + "vel", A.VEL if not small else A.CTRL))
    return fs


def nest(flat):
    out = {}
    for key, val in flat.items():
        if "." in key:
            g, n = key.split(".", 1)
            out.setdefault(g, {})[n] = val
        else:
            out[key] = val
    return out


def val_fields(name, tag, values):
    return (name, [dict(t=tag, x=x) for x in values])


def info_fields(v, x):
    """[(attribute, value alphabet)] for one version"""
    out = []
    if is_v1(v):
        for at in A.INFO_V1["str"]:
            out.append((at, val_fields("val", "str", A.STRS)))
        for at in A.INFO_V1["float4"]:
            out.append((at, val_fields("val", "float", A.FLOATS[4])))
        for at in A.INFO_V1["int"]:
            out.append((at, val_fields("val", "int", A.INTS)))
        out.append(("matchFileVersion", val_fields("val", "version", [list(A.vt(v))])))
        return out
    for at in A.INFO_V0["qstr"] + A.INFO_V0["str"]:
        out.append((at, val_fields("val", "str", A.STRS)))
    for at in A.INFO_V0["floatN"]:
        out.append((at, val_fields("val", "float", A.FLOATS[None])))
    for at in A.INFO_V0["int"]:
        out.append((at, val_fields("val", "int", A.INTS)))
    for at in A.INFO_V0["list"]:
        out.append((at, val_fields("val", "list", A.STRLISTS)))
    out.append(("matchFileVersion", val_fields("val", "version", [list(A.vt(w)) for w in A.V0])))
    out.append(("keySignature", val_fields("val", "key", A.keys_for(A.key_spelling(v, "info")))))
    out.append(("timeSignature", val_fields("val", "time", A.times_for(A.time_is_list(v, "info")))))
    return out


def text_attrs(v):
    """(string-valued attributes, text-list attributes) of the info lines of one version"""
    if is_v1(v):
        return list(A.INFO_V1["str"]), []
    return A.INFO_V0["qstr"] + A.INFO_V0["str"], list(A.INFO_V0["list"])


def text_pick(s, vi, n):
    """index in 0..n-1: a fixed function of the text and the version (stable over tiers)"""
    return (sum((j + 1) * ord(ch) for j, ch in enumerate(s)) + len(s) + vi) % n


def info_text_cases(x):
    """free text in info lines; yields (case, in_quick_core).

    string values: every concatenation of 1-3 tokens of the core token set (thorough: also of the extended
    set, and 4 tokens of the core set); up to 2 tokens (thorough: 3) with every string attribute of every
    version, the longest length with one attribute picked by a fixed function of text and version.  The
    empty string is enumerated where the format has a text for it (1.0.0 and the unquoted partSequence).
    list values (0.x): one element of 1-2 tokens (thorough: 1-3) without the separating comma, alone and
    before/after a plain element; single-element lists with every list attribute of every 0.x version,
    two-element lists with one picked attribute."""
    toks = A.TEXT_TOKENS_X if x else A.TEXT_TOKENS
    extra = set(A.TEXT_TOKENS_X) - set(A.TEXT_TOKENS)
    full_len = 3 if x else 2

    def is_core(s):
        return not any(ch in extra for ch in s)

    def sval(s):
        return dict(t="str", x=s)

    for vi, v in enumerate(A.ALL_VERSIONS):
        sattrs, lattrs = text_attrs(v)
        for at in sattrs:
            if is_v1(v) or at in A.INFO_V0["str"]:
                yield dict(k="info", v=v, a=dict(attr=at, val=sval(""))), True
        for n in range(1, full_len + 1):
            for s in A.text_strings(toks, n):
                picked = sattrs[text_pick(s, vi, len(sattrs))]
                for at in sattrs:
                    yield dict(k="info", v=v, a=dict(attr=at, val=sval(s))), (is_core(s) and (n <= 2 or at == picked))
        # the longest strings: one attribute each
        n = full_len + 1
        for s in A.text_strings(A.TEXT_TOKENS, n):
            yield dict(k="info", v=v, a=dict(attr=sattrs[text_pick(s, vi, len(sattrs))], val=sval(s))), n == 3
        if not lattrs:
            continue
        for n in range(1, full_len + 1):
            for s in A.text_strings(toks, n, exclude=(",",)):
                c = n <= 2 and is_core(s)
                for at in lattrs:
                    yield dict(k="info", v=v, a=dict(attr=at, val=dict(t="list", x=[s]))), c
                at = lattrs[text_pick(s, vi, len(lattrs))]
                yield dict(k="info", v=v, a=dict(attr=at, val=dict(t="list", x=[s, "x"]))), c
                yield dict(k="info", v=v, a=dict(attr=at, val=dict(t="list", x=["x", s]))), c


def scoreprop_values(small):
    return [
        ("timeSignature", val_fields("val", "time", A.times_for(False, small))),
        ("keySignature", val_fields("val", "key", A.keys_for("v1", small))),
        ("tempoIndication", val_fields("val", "tempo", A.TEMPI)),
        ("beatSubDivision", val_fields("val", "ilist", A.INTLISTS)),
        ("directions", val_fields("val", "list", A.STRLISTS)),
    ]


def gen(kind, v, fields, limit, fixed=None):
    """cases of one (kind, version) family"""
    it, how = A.auto_cases(fields, limit)
    for flat in it:
        a = nest(flat)
        if fixed:
            a.update(fixed)
        yield dict(k=kind, v=v, a=a)


def family_specs(tier_x):
    """[(space name, kind, version, fields, fixed)] - one entry per (kind, version[, attribute]) family;
    tier_x = extended alphabets (thorough scope)"""
    x = tier_x
    specs = []

    def add(name, kind, v, fields, fixed=None):
        specs.append((name, kind, v, fields, fixed))

    for v in A.ALL_VERSIONS:
        add("snote", "snote", v, f_snote(v, x, False))
        add("note", "note", v, f_note(v, x, False))
        add("pair", "pair", v, f_snote(v, x, not x, "s.") + f_note(v, x, not x, "n."))
        dels = ["deletion"] if is_v1(v) else list(DELETIONS)
        for k in dels:
            add("deletion", k, v, f_snote(v, x, not x, "s."))
        inss = ["insertion"] if is_v1(v) else list(INSERTIONS)
        for k in inss:
            add("insertion", k, v, f_note(v, x, not x, "n."))
        if is_v1(v):
            add("ornament", "ornament", v, [("anchor", A.IDS_X if x else A.IDS), ("types", A.ORN)] + f_note(v, x, True, "n."))
        else:
            add("ornament", "trill", v, [("anchor", A.IDS_X if x else A.IDS)] + f_note(v, x, not x, "n."))
        for k in ("sustain", "soft"):
            add("pedal", k, v, [("time", A.TICKS + [12345]), ("value", A.CTRL + [1, 63])])
        for at, vf in info_fields(v, x):
            add("info", "info", v, [vf], dict(attr=at))
        if (0, 3, 0) <= A.vt(v) < (1, 0, 0):
            for at, vf in (("keySignature", val_fields("val", "key", A.keys_for("v03"))),
                           ("timeSignature", val_fields("val", "time", A.times_for(False)))):
                add("meta", "meta", v, [vf, ("measure", A.MEASURES), ("time", A.FLOATS[None])], dict(attr=at))
    v = A.V1
    for at, vf in scoreprop_values(not x):
        add("scoreprop", "scoreprop", v, [vf, ("measure", A.MEASURES), ("beat", A.BEATS),
                                          ("offset", A.DURS_X if x else A.DURS), ("time", A.FLOATS[4])], dict(attr=at))
    fl = A.FLOATS[4] if x else A.FLOATS[4][:8]
    add("section", "section", v, [("s1", fl), ("e1", fl), ("s2", fl), ("e2", fl), ("rep", A.REPEAT)])
    st = [("measure", A.MEASURES), ("beat", A.BEATS), ("offset", A.DURS_X if x else A.DURS), ("on", A.FLOATS[4]), ("ann", A.ANNOT)]
    onsets = [list(c) for n in (1, 2, 3) for c in itertools.product(A.TICKS, repeat=n)]
    add("stime-ptime", "stime", v, st)
    add("stime-ptime", "ptime", v, [("onsets", onsets)])
    add("stime-ptime", "stimeptime", v, [("st." + n, vals) for n, vals in st] + [("pt.onsets", onsets)])
    return specs


def families(tier_x, limit):
    """name -> list of zero-arg generators"""
    fam = {}
    for name, kind, v, fields, fixed in family_specs(tier_x):
        fam.setdefault(name, []).append(
            lambda kind=kind, v=v, fields=fields, fixed=fixed: gen(kind, v, fields, limit, fixed))
    return fam


# ------------------------------------------------------------------------------------------------
# signed times: the times of performed notes and pedals are signed numbers
#
# Performed-note times (onset, offset, adjusted offset) and pedal times are ticks relative to the reference
# point of the performance; every format version writes them with str()/a fixed number of decimals and reads
# them with int()/float(), so values before the reference point (negative) are values the formats allow.
# The space takes every family of the line spaces whose line carries such a time and enumerates the full
# product of its time fields over a signed alphabet (the other fields are cycled).

SIGNED_KINDS = ("note", "pair") + INSERTIONS + ("trill", "ornament", "sustain", "soft")
NBLOCKS_SIGNED = 8


def is_tick_field(kind, name):
    if kind in ("sustain", "soft"):
        return name == "time"
    if kind == "note":
        return name in ("on", "off", "adj")
    return name in ("n.on", "n.off", "n.adj")  # not s.on/s.off: the beat times of the score note


def signed_alphabet(kind, v, x):
    if kind not in ("sustain", "soft") and not is_v1(v) and A.note_time_places(v):
        return A.TIMES2_SIGNED_X if x else A.TIMES2_SIGNED
    return A.TICKS_SIGNED_X if x else A.TICKS_SIGNED


def signed_cases(x):
    """of every (kind, version) family with a performed-note or pedal time: the full product of its time fields over
    the signed alphabet; the j-th element of the product takes the (j+i)-th value (cyclic) of the i-th other field"""
    for name, kind, v, fields, fixed in family_specs(x):
        if kind not in SIGNED_KINDS:
            continue
        alpha = signed_alphabet(kind, v, x)
        tnames = [n for n, _ in fields if is_tick_field(kind, n)]
        others = [(n, vals) for n, vals in fields if not is_tick_field(kind, n)]
        for j, combo in enumerate(itertools.product(alpha, repeat=len(tnames))):
            flat = dict((n, vals[(j + i) % len(vals)]) for i, (n, vals) in enumerate(others))
            flat.update(zip(tnames, combo))
            a = nest(flat)
            if fixed:
                a.update(fixed)
            yield dict(k=kind, v=v, a=a)


def duration_cases(x):
    dens = list(range(1, 33)) + [48, 64, 96, 128, 256, 1000, 1024, 1025, 2048]
    nums = list(range(0, 13)) + [100, 1023, 1024, 1025, 2000]
    tds = [None, 1, 2, 3, 5, 7]
    for n in nums:
        for d in dens:
            for td in tds:
                yield dict(k="fsd", v="-", a=dict(c=[[n, d, td]]))
    # sums of two and three simple durations
    simple = [[n, d, td] for n in (0, 1, 3, 7) for d in (1, 2, 3, 4, 8, 12, 16, 32, 64) for td in (None, 3)]
    if x:
        simple += [[5, 6, 5], [1, 128, None], [1, 1024, None], [1023, 1024, None], [2, 5, 7]]
    for a in simple:
        for b in simple:
            if a[0] == 0 and b[0] == 0:
                continue
            yield dict(k="fsd", v="-", a=dict(c=[a, b]))
    tri = [[0, 1, None], [1, 4, None], [1, 16, None], [1, 32, None], [1, 8, 3], [3, 8, None], [2, 1, None], [1, 12, None]]
    for a in tri:
        for b in tri:
            for c in tri:
                if a[0] == 0 and b[0] == 0 and c[0] == 0:
                    continue
                yield dict(k="fsd", v="-", a=dict(c=[a, b, c]))


# expressions: every association shape of a sum (the line spaces and `duration` build sums by left folds only)
TREE_LEAVES = [[0, 1, None], [1, 4, None], [1, 4, 3], [3, 8, None], [1, 16, 5], 1]
TREE_LEAVES_X = TREE_LEAVES + [[2, 1, None], [7, 12, None]]
TREE_LEAVES_5 = [[0, 1, None], [1, 4, 3], [3, 8, None], 1]
NBLOCKS_TREE = 16
# Known defect of the unchanged tree (proposed_fixes/C07-s-rational-sum-components.diff): the score-note lines of 0.1.0 and
# 0.2.0 write a sum whose components are all whole numbers (1+1, 2+1+1: lowest common denominator 1) as one rational "n/1", so
# the additive components do not come back (the value does).  Until the fix is applied these sums are not put into 0.1.0/0.2.0
# lines (they are in the lines of every other version and in the value oracle); set to True to include them.
WHOLE_SUMS_IN_RATIONAL_LINES = True


def tree_shapes(n):
    """all binary trees with n leaves (None = a leaf), deterministic order"""
    if n == 1:
        return [None]
    out = []
    for k in range(1, n):
        for lt in tree_shapes(k):
            for rt in tree_shapes(n - k):
                out.append(["+", lt, rt])
    return out


def tree_fill(shape, leaves):
    """the shape with its leaves replaced left to right by the elements of the iterator `leaves`"""
    if shape is None:
        lf = next(leaves)
        return lf if isinstance(lf, int) else list(lf)
    lt = tree_fill(shape[1], leaves)
    return ["+", lt, tree_fill(shape[2], leaves)]


def tree_cases(sizes, alphabet, thorough):
    """every shape with n leaves (n in sizes) x every assignment of the alphabet to the leaves that has a duration
    and a non-zero operand; the value is also carried by score-note lines: of 1.0.0 and of one 0.x version (cycled
    over the cases; thorough: of every version)"""
    j = 0
    for n in sizes:
        for shape in tree_shapes(n):
            for leaves in itertools.product(alphabet, repeat=n):
                if all(isinstance(lf, int) for lf in leaves) or all(not isinstance(lf, int) and lf[0] == 0 for lf in leaves):
                    continue
                lines = list(A.ALL_VERSIONS) if thorough else [A.V1, A.V0[j % len(A.V0)]]
                j += 1
                if not WHOLE_SUMS_IN_RATIONAL_LINES and all(isinstance(lf, int) or (lf[1] == 1 and lf[2] is None) for lf in leaves):
                    lines = [v for v in lines if A.vt(v) >= (0, 3, 0)]
                yield dict(k="fsdtree", v="-", a=dict(c=dict(tree=tree_fill(shape, iter(leaves))), lines=lines))


def tree_scope(thorough):
    return itertools.chain(tree_cases((2, 3, 4), TREE_LEAVES_X, thorough), tree_cases((5,), TREE_LEAVES_5, thorough))


def tree_in_core(case):
    def leaves(t):
        if isinstance(t, int) or t[0] != "+":
            return [t]
        return leaves(t[1]) + leaves(t[2])
    lv = leaves(case["a"]["c"]["tree"])
    return len(lv) <= 4 and all(lf in TREE_LEAVES for lf in lv)


# sequences: duration texts are parsed, the parsed objects are added up, the texts are parsed again
SEQ_DURS = [D((0, 1, None)), D((1, 4, None)), D((1, 8, None)), D((1, 8, 3)), D((3, 1, None)), D((1, 4, None), (1, 16, None))]
SEQ_DURS_X = SEQ_DURS + [D((1, 16, None)), D((2, 4, 3)), D((1, 4, None), (1, 8, 3), (1, 32, None))]
SEQ_INT = 1
SEQ_FOLDS = ["add", "iadd", "add-right", "sum"]
SEQ_CHANNELS = ["from_string", "interpret", "snote.Duration@1.0.0", "snote.Duration@0.3.0"]
SEQ_CHANNELS_X = SEQ_CHANNELS + ["snote.Offset@1.0.0", "stime.Offset@1.0.0", "snote.Offset@0.5.0", "snote.Duration@0.1.0",
                                 "snote.Duration@0.2.0", "snote.Duration@0.4.0", "snote.Duration@0.5.0"]
NBLOCKS_SEQ = 32


def seq_cases(durs, channels):
    """all sequences of 1-3 operands over the texts and one Python int (at least one text, at most one int, not all
    zero) x every channel; a case runs every way of adding them up (one operand: only sum(), the other folds do nothing)"""
    ops = list(durs) + [SEQ_INT]
    for n in (1, 2, 3):
        for seq in itertools.product(ops, repeat=n):
            ints = sum(1 for o in seq if isinstance(o, int))
            if ints > 1 or ints == n:
                continue
            if all(not isinstance(o, int) and all(c[0] == 0 for c in o) for o in seq):
                continue
            for chan in channels:
                yield dict(k="durseq", v="-", a=dict(ops=[o if isinstance(o, int) else [list(c) for c in o] for o in seq],
                                                     chan=chan, alphabet=durs))


def seq_in_core(case):
    a = case["a"]
    return a["chan"] in SEQ_CHANNELS and all(isinstance(o, int) or o in SEQ_DURS for o in a["ops"])


def v01_text(k, variant):
    """historical 0.1.0 spellings of one key: [cn,minor] [c,minor] [C#,min] ..."""
    f, m = k[0], k[1]
    names_major = ["Cb", "Gb", "Db", "Ab", "Eb", "Bb", "F", "C", "G", "D", "A", "E", "B", "F#", "C#"]
    names_minor = ["Ab", "Eb", "Bb", "F", "C", "G", "D", "A", "E", "B", "F#", "C#", "G#", "D#", "A#"]
    name = (names_major if m == "major" else names_minor)[f + 7]
    step, alt = name[0], name[1:]
    if variant == 0:  # as written by the library
        return "[%s%s,%s]" % (step.lower(), alt or "n", m)
    if variant == 1:  # no natural sign
        return "[%s%s,%s]" % (step.lower(), alt, m)
    if variant == 2:  # upper-case step, short mode word
        return "[%s%s,%s]" % (step, alt or "n", "maj" if m == "major" else "min")
    return "[%s%s,%s]" % (step.lower(), alt or "n", m.capitalize())


def v03_text(k, variant):
    names_major = ["Cb", "Gb", "Db", "Ab", "Eb", "Bb", "F", "C", "G", "D", "A", "E", "B", "F#", "C#"]
    names_minor = ["Ab", "Eb", "Bb", "F", "C", "G", "D", "A", "E", "B", "F#", "C#", "G#", "D#", "A#"]

    def one(f, m):
        name = (names_major if m == "major" else names_minor)[f + 7]
        word = {0: {"major": "Maj", "minor": "min"}, 1: {"major": "major", "minor": "minor"},
                2: {"major": "maj", "minor": "Min"}}[variant][m]
        return "%s %s" % (name, word)

    t = one(k[0], k[1])
    if k[2] is not None:
        t += "/" + one(k[2], k[3])
    return t


def key_cases(x):
    for sp in ("v01", "v03", "v03l", "v1"):
        for k in A.keys_for(sp):
            yield dict(k="keysig", v="-", a=dict(key=k, sp=sp))
    # all pairs key / alternative key in the spellings that carry one
    for sp in ("v03", "v03l", "v1"):
        for k1 in A.KEYS30:
            for k2 in (A.KEYS30 if x else A.KEYS30[3::4]):
                yield dict(k="keysig", v="-", a=dict(key=A.key(k1[0], k1[1], k2[0], k2[1]), sp=sp))
    # historical spellings: read first, then write/read in every spelling that can carry the value
    for k in A.KEYS30:
        for variant in range(4):
            for sp in ("v01", "v03", "v03l", "v1"):
                yield dict(k="keysig", v="-", a=dict(key=k, sp=sp, text=v01_text(k, variant)))
    for k in A.KEYS30 + A.KEYS_ALT:
        for variant in range(3):
            for brackets in (False, True):
                t = v03_text(k, variant)
                for sp in ("v03", "v03l", "v1") + (("v01",) if k[2] is None else ()):
                    yield dict(k="keysig", v="-", a=dict(key=k, sp=sp, text="[%s]" % t if brackets else t))


def time_cases(x):
    dens = [1, 2, 4, 8, 16, 32, 64]
    for n in range(1, 33 if x else 17):
        for d in dens:
            for lst in (False, True):
                yield dict(k="timesig", v="-", a=dict(ts=[n, d, []], list=lst))
    for ts in A.TIMES_LIST:
        yield dict(k="timesig", v="-", a=dict(ts=ts, list=True))
    for n1 in (2, 3, 6, 12):
        for d1 in (2, 4, 8):
            for n2 in (2, 3, 9):
                for d2 in (4, 8, 16):
                    yield dict(k="timesig", v="-", a=dict(ts=[n1, d1, [[n2, d2]]], list=True))


def version_cases(x):
    for a in (0, 1, 2, 10):
        for b in (0, 1, 5, 12):
            for c in (0, 1, 7):
                yield dict(k="version", v="-", a=dict(ver=[a, b, c]))


_WARM = False


def eval_history_isolated(case, res):
    """eval_history in a forked child of the worker: whatever the loads of one history leave behind in the
    modules under test cannot reach the next case (same case => same verdict, also on a tree with a defect)"""
    global _WARM
    warm_worker()
    return run_isolated(eval_history, case, res)


def warm_worker():
    global _WARM
    if not _WARM:
        # once per worker: modules imported, case tables built and the line operations run once (only parse/format
        # calls, as in the line spaces; no file is loaded in the worker itself), so that the children start warm
        _WARM = True
        for form in FILE_FORMS:
            file_cases(form)
        scratch = CaseResult(states=1, transitions=0, traces=1)
        for v in A.ALL_VERSIONS:
            for c in probe_cases(v):
                eval_line(c, scratch)
        gc.collect()
        gc.freeze()


def run_isolated(fn, case, res):
    """fn(case, result) in a forked child of the worker; the child's result is copied into `res`"""
    rfd, wfd = os.pipe()
    pid = os.fork()
    if pid == 0:
        code = 1
        try:
            gc.disable()  # short-lived: a collection would only copy the pages shared with the worker
            os.close(rfd)
            # interval timers are not inherited: the child has its own CPU-time watchdog
            signal.setitimer(signal.ITIMER_REAL, 0)
            signal.setitimer(signal.ITIMER_PROF, CASE_TIMEOUT, 2.0)
            sub = CaseResult(states=1, transitions=0, traces=1)
            try:
                out = fn(case, sub)
            except Hang as ex:
                out = "hang"
                sub.fail("terminates", kind="hang", observed=str(ex), detail="%s %r" % (case["k"], case["a"]))
            finally:
                signal.setitimer(signal.ITIMER_PROF, 0)
            data = pickle.dumps((out, sub.states, sub.transitions, sub.traces, sub.violations))
            while data:
                n = os.write(wfd, data)
                data = data[n:]
            code = 0
        except BaseException:  # reported by the parent as a harness error (no result arrives)
            traceback.print_exc()
        finally:
            os._exit(code)
    os.close(wfd)
    buf = []
    try:
        try:
            while True:
                b = os.read(rfd, 1 << 16)
                if not b:
                    break
                buf.append(b)
        except BaseException:
            try:
                os.kill(pid, signal.SIGKILL)
            except OSError:
                pass
            raise
    finally:
        os.close(rfd)
        while True:
            try:
                os.waitpid(pid, 0)
                break
            except InterruptedError:
                continue
            except ChildProcessError:
                break
    if not buf:
        raise RuntimeError("%s child process returned nothing" % case["k"])
    out, res.states, res.transitions, res.traces, viols = pickle.loads(b"".join(buf))
    res.violations.extend(viols)
    return out


def history_cases(lengths, loaders):
    """all sequences of the given lengths over {file form} x loaders, each with every probe version"""
    ops = [[form, loader] for form in FILE_FORMS for loader in loaders]
    for n in lengths:
        for seq in itertools.product(ops, repeat=n):
            for pv in A.ALL_VERSIONS:
                yield dict(k="history", v="-", a=dict(ops=[list(o) for o in seq], probe=pv))


def history_in_core(case):
    ops = case["a"]["ops"]
    return len(ops) <= 2 and all(loader == "matchfile" for _, loader in ops)


def history_scope():
    """the thorough scope: 0-2 loads with either loader, 3 loads with load_matchfile"""
    return itertools.chain(history_cases((0, 1, 2), LOADERS), history_cases((3,), LOADERS[:1]))


QUICK_LIMIT = 1500
THOROUGH_LIMIT = 45000
NBLOCKS = 8
NBLOCKS_TEXT = 64

BOUNDS = {
    "snote": "score-note lines of 0.1.0-0.5.0 and 1.0.0: anchor x 105 pitch spellings + rest x measure x beat x offset x duration x two beat times x attribute list",
    "note": "performed-note lines: id x 105 pitch spellings (0.x) or MIDI pitch/channel/track (1.0.0) x onset x offset x adjusted offset x velocity",
    "pair": "snote-note lines, all versions (quick core: reduced alphabets - 7 pitches + rest, 4 durations, 4 floats per written precision; thorough scope: the full alphabets of snote and note)",
    "deletion": "deletion, trailing_score_note, no_played_note lines, all versions",
    "insertion": "insertion, hammer_bounce, trailing_played_note lines, all versions",
    "ornament": "trill lines (0.x) and ornament lines with type lists of length 0-3 (1.0.0)",
    "pedal": "sustain and soft lines, all versions: time {0,1,12345,10^6} x value {0,1,63,64,127}",
    "info": "info lines: every attribute of every version x its value alphabet (strings, floats, ints, lists of length 0-3, versions, 30 keys + alternative/list forms, time signatures)",
    "info-text": "free text in info lines, all versions: string values = all concatenations of 1-3 tokens of "
                 "{a 1 space ( ) . , ' [ ] - info(} without outer white space (<=2 tokens x every string attribute, 3 tokens x one "
                 "attribute picked by a fixed function of text and version), the empty string for 1.0.0 and partSequence; "
                 "text lists of 0.x (subtitle, tempoIndication, beatSubDivision, beatSubdivision, mergedFrom) = one element of "
                 "1-2 tokens without comma, alone (x every list attribute) and before/after a plain element (one picked attribute); "
                 "thorough scope: tokens + {\" \\ : / e-acute}, strings of <=3 tokens x every attribute, 4 core tokens x one "
                 "attribute, list elements of <=3 tokens. Not generated: the empty string in quoted 0.x values and as a list "
                 "element (their texts '' and [] are not distinguishable from other values)",
    "meta": "meta lines 0.3.0-0.5.0: key (30 + alternatives) / time signature x measure x time",
    "scoreprop": "scoreprop lines 1.0.0: attribute/value x measure x beat x offset x time",
    "section": "section lines 1.0.0: four 4-decimal times x repeat-end list",
    "stime-ptime": "stime, ptime and stime-ptime lines 1.0.0",
    "duration": "FractionalSymbolicDuration: numerators x denominators x tuplet divisors incl. values above the 1024 bound; all sums of two of 72 simple durations and of three of 8",
    "keysig": "key signatures: 30 keys, all key/alternative pairs, list forms, in the four spellings; four historical 0.1.0 and six 0.3.0 text variants read first",
    "timesig": "time signatures n/d with n<=16(32), d in 1..64, plain and list spelling, list tails",
    "version": "version numbers (a,b,c) and the historical two-number spelling",
    "duration-trees": "sums of durations in every association shape: all binary expression trees with 2-4 leaves (1 + 2 + 5 "
                      "shapes, e.g. a+(b+c), (a+b)+(c+d), a+(b+(c+d))) x every assignment of the leaf alphabet {0, 1/4, 1/4/3, "
                      "3/8, 1/16/5, the Python int 1} to the leaves that has at least one duration and one non-zero operand, "
                      "evaluated with the implementation's + (int operands: __add__ with an int and the reflected addition); "
                      "expected: exact value, the written components = the leaves in order (where an int stands left of a "
                      "duration only the multiset of components: the order written by the reflected addition is not specified; "
                      "int + int is one int), float, operands unchanged, str -> from_string -> str round trip with equal "
                      "object, interpret_as_fractional; then the complete line oracle on score-note lines carrying the value as "
                      "Duration and as Offset (1.0.0 and one 0.x version cycled over the cases; thorough: every version; "
                      "NOT in 0.1.0/0.2.0 lines: sums whose operands are all whole numbers - known defect, the always-rational "
                      "text n/1 of these versions drops the components, proposed_fixes/C07-s-rational-sum-components.diff); "
                      "thorough scope: leaf alphabet + {2, 7/12} and all 14 shapes with 5 leaves over {0, 1/4/3, 3/8, int 1}",
    "duration-sequences": "parse - add - parse again, each case in a forked child of the worker: all sequences of 1-3 operands "
                          "over the duration texts {0, 1/4, 1/8, 1/8/3, 3, 1/4+1/16} and the Python int 1 (at least one text, at "
                          "most one int, not all zero) x the channel the texts are read "
                          "through {FractionalSymbolicDuration.from_string, interpret_as_fractional, the Duration of a parsed "
                          "1.0.0 score-note line, the Duration of a parsed 0.3.0 score-note line}; a case runs, one after the "
                          "other in the same child process, every way of adding the parsed objects up {acc = acc + x, acc += x, "
                          "acc = x + acc (from the right), sum()} (one operand: sum() only), each with fresh parses and the "
                          "whole oracle; expected: every parsed object "
                          "has the value, components and text of its text; the sum is exact (components in operand order) and "
                          "survives the string round trip; afterwards the parsed operands still have their value and text and "
                          "their lines write the same text; every text of the alphabet read again (through the channel and "
                          "with from_string) has its value and text; the complete line oracle on score-note lines with the "
                          "texts of the case as Duration and Offset; thorough scope: texts + {1/16, 2/4/3, 1/4+1/8/3+1/32}, "
                          "channels + {Offset of 1.0.0 snote and stime lines, Offset of a 0.5.0 snote line, Duration of snote "
                          "lines of 0.1.0, 0.2.0, 0.4.0, 0.5.0}",
    "history": "call histories: all sequences of 0-2 loads over {0.1.0 file without version line, files of 0.1.0, 0.2.0, 0.3.0, "
               "0.4.0, 0.5.0, 1.0.0} x {load_matchfile, load_match(create_score=True)} and all sequences of 3 loads of these "
               "files with load_matchfile, followed by the complete line oracle (write, "
               "parse, dispatch, rewrite, to_v1) on the lines of one version, x every version 0.1.0-1.0.0; lines of a version = of "
               "every (kind, version, attribute) family of the line spaces the first 2 cases of the diagonal of its alphabets; the "
               "file of a version = its version line + all of these lines that stand alone in a file (without the header lines "
               "that set a MIDI clock of 0), anchors and note ids renumbered to be unique; after every load_matchfile the loaded "
               "lines are compared with the written lines (kind and text, order not compared); the result of load_match is not "
               "compared",
    "signed-times": "signed times of performed notes and pedals, all versions 0.1.0-1.0.0: every line kind that carries a "
                    "performed note (note, snote-note pair, insertion, hammer_bounce, trailing_played_note, trill, ornament) or a "
                    "pedal time (sustain, soft) x the full product of its time fields (onset x offset [x adjusted offset in "
                    "0.3.0-0.5.0]; pedal time) over a signed alphabet: integer ticks {-10^6, -481, -3, -1, 0, 1, 7}; the "
                    "two-decimal times of 0.1.0/0.2.0 notes {-5120.0, -200.5, -100.6, -100.4, -3.0, -0.5, -0.01, 0.0, 2.5, 100.4} "
                    "(on and off the grid, exact halves); the other fields of the line (id, pitch, velocity, score note, anchor, "
                    "ornament types, pedal value) are cycled through the alphabets of the line spaces; complete line oracle "
                    "(write, parse, dispatch, rewrite, to_v1 with content and re-parse); thorough scope: ticks + {-2^31-1, -12345, "
                    "-2, 2^31+1}, two-decimal times + {-99.99, -1/3, -0.005, -1.5, 1.5}, other fields over the extended alphabets. "
                    "Not generated: negative ptime onsets (the 1.0.0 ptime text admits digits only)",
    "parse-pos": "the `pos` option of the class parsers (line embedded in a longer string): every line class whose "
                 "from_matchline takes the position of the line (0.x: info, meta, snote, note, sustain, soft; 1.0.0: info, "
                 "scoreprop, section, snote, note, stime, ptime, sustain, soft; the composite lines have no such option), all "
                 "versions; buffer = prefix + text of the line + suffix parsed with pos=len(prefix); prefix in {nothing, one "
                 "space, tab and spaces, a comment line, an empty line, another line of the same class and a line break, "
                 "another line directly before, two other lines}; suffix in {nothing, LF, CR LF, LF + another line + LF}; all "
                 "31 combinations except the plain parse; the other line = the preceding line of the same (kind, version, "
                 "attribute) family (cyclic); expected: the object of the line (kind, fields against the reference and == the "
                 "written object, same text again). Lines: core = of every family the diagonal of its alphabets (every value "
                 "of every field at least once); thorough scope = of every family the enumeration of the line spaces (full "
                 "product when <= 1500 cases, else all pairs of fields) over the extended alphabets",
}


def spaces(tier, seed):
    out = []
    thorough = tier == "thorough"
    core = families(thorough, THOROUGH_LIMIT if thorough else QUICK_LIMIT)
    extra = None if thorough else families(True, THOROUGH_LIMIT)
    block = seed % NBLOCKS
    for name, fn in (("version", version_cases), ("timesig", time_cases), ("keysig", key_cases), ("duration", duration_cases)):
        out.append(Space(name, (lambda fn=fn: fn(thorough)), exhaustive=True, bounds=BOUNDS[name] + " - complete"))

    def text_cases():
        if thorough:
            for c, _ in info_text_cases(True):
                yield c
            return
        for c, _ in info_text_cases(False):
            yield c
        rest = (c for c, in_core in info_text_cases(True) if not in_core)
        for c in A.shard(rest, seed % NBLOCKS_TEXT, NBLOCKS_TEXT):
            yield c

    def tree_space_cases():
        if thorough:
            return tree_scope(True)
        rest = (c for c in tree_scope(False) if not tree_in_core(c))
        return itertools.chain(tree_cases((2, 3, 4), TREE_LEAVES, False), A.shard(rest, seed % NBLOCKS_TREE, NBLOCKS_TREE))

    out.append(Space("duration-trees", tree_space_cases, exhaustive=True, bounds=BOUNDS["duration-trees"] + (
        " - complete" if thorough else " - complete core; plus every %d-th case (offset VERIF_SEED mod %d) of the rest of the "
        "thorough enumeration" % (NBLOCKS_TREE, NBLOCKS_TREE))))

    def seq_space_cases():
        if thorough:
            return seq_cases(SEQ_DURS_X, SEQ_CHANNELS_X)
        rest = (c for c in seq_cases(SEQ_DURS_X, SEQ_CHANNELS_X) if not seq_in_core(c))
        return itertools.chain(seq_cases(SEQ_DURS, SEQ_CHANNELS), A.shard(rest, seed % NBLOCKS_SEQ, NBLOCKS_SEQ))

    out.append(Space("duration-sequences", seq_space_cases, exhaustive=True, bounds=BOUNDS["duration-sequences"] + (
        " - complete" if thorough else " - complete core; plus every %d-th case (offset VERIF_SEED mod %d) of the rest of the "
        "thorough enumeration" % (NBLOCKS_SEQ, NBLOCKS_SEQ))))

    out.append(Space("info-text", text_cases, exhaustive=True, bounds=BOUNDS["info-text"] + (
        " - complete" if thorough else " - complete core; plus every %d-th case (offset VERIF_SEED mod %d) of the rest of the "
        "thorough enumeration" % (NBLOCKS_TEXT, NBLOCKS_TEXT))))
    for name in ("pedal", "info", "meta", "scoreprop", "section", "stime-ptime", "ornament", "insertion", "note",
                 "snote", "deletion", "pair"):
        def cases(name=name):
            for g in core[name]:
                for c in g():
                    yield c
            if extra is not None:
                for g in extra[name]:
                    for c in A.shard(g(), block, NBLOCKS):
                        yield c
        how = ("full product per (kind, version) when <= %d cases, else all pairs of fields complete and the other fields cycled"
               % (THOROUGH_LIMIT if thorough else QUICK_LIMIT))
        if extra is not None:
            how += "; plus every %d-th case (offset VERIF_SEED mod %d) of the thorough enumeration" % (NBLOCKS, NBLOCKS)
        out.append(Space(name, cases, exhaustive=True, bounds=BOUNDS[name] + " - " + how))

    def signed_time_cases():
        if thorough:
            return signed_cases(True)
        return itertools.chain(signed_cases(False), A.shard(signed_cases(True), seed % NBLOCKS_SIGNED, NBLOCKS_SIGNED))

    out.append(Space("signed-times", signed_time_cases, exhaustive=True, bounds=BOUNDS["signed-times"] + (
        " - complete" if thorough else " - complete core; plus every %d-th case (offset VERIF_SEED mod %d) of the thorough "
        "enumeration" % (NBLOCKS_SIGNED, NBLOCKS_SIGNED))))

    def hist_cases():
        if thorough:
            return history_scope()
        rest = (c for c in history_scope() if not history_in_core(c))
        return itertools.chain(history_cases((0, 1, 2), LOADERS[:1]),
                               A.shard(rest, seed % NBLOCKS_HISTORY, NBLOCKS_HISTORY))

    def position_cases():
        if thorough:
            return itertools.chain(pos_cases(False, False), pos_scope_rest())
        return itertools.chain(pos_cases(False, False), pos_scope_rest(seed % NBLOCKS_POS, NBLOCKS_POS))

    out.append(Space("parse-pos", position_cases, exhaustive=True, bounds=BOUNDS["parse-pos"] + (
        " - complete" if thorough else " - complete core; plus every %d-th case (offset VERIF_SEED mod %d) of the rest of the "
        "thorough enumeration" % (NBLOCKS_POS, NBLOCKS_POS))))

    out.append(Space("history", hist_cases, exhaustive=True, bounds=BOUNDS["history"] + (
        " - complete" if thorough else " - complete core: 0-2 loads with load_matchfile; plus every %d-th case (offset VERIF_SEED "
        "mod %d) of the rest of the thorough enumeration" % (NBLOCKS_HISTORY, NBLOCKS_HISTORY))))
    return out


TRIGGERS = {}

if __name__ == "__main__":
    import checks.c07 as _m

    run_check(_m)
