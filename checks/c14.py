"""C14 - performed notes sound until release or later, exactly as the pedal dictates.

Bounded-exhaustive enumeration of note lists x control streams x thresholds x (ppq, mpq), of the numeric
types in which the times and controller values are handed over (Python / numpy integers and floats), of
the pitch as a value dimension (every MIDI pitch 0..127 and the ends of the pitch / velocity / channel ranges on the
small pedal families, `pitch-range`), of
threshold-assignment histories, of edit-then-query-again sequences on one part (in-place edits of the
notes / resolution / threshold with note_array() after every step, `mc/c14_edits.py`), of notes carrying a
stale sounding end (sound_off keys in the note dictionaries, in-place edits of the notes / the control stream
that leave sound_off behind) followed by threshold assignments (`mc/c14_stale.py`), and of track
layouts of multi-part performances.  The real
`PerformedPart` / `Performance` is executed on every case and compared with the reference pedal
model in `mc/c14_model.py` (exact `Fraction` arithmetic, written from the property statement).
"""
from fractions import Fraction as F
from itertools import combinations, product

from mc.core import CaseResult, Space, run_check, guarded, innermost_partitura_frame, exc_text
from mc import c14_model as M
from mc import c14_edits as E
from mc import c14_stale as S

PID = "C14"
RULE = (
    "every case is one (note list, control stream, ppq/mpq, tick-key flag[, numeric types of the note times / control "
    "times / controller values]) or one track layout, distinct by "
    "construction (ordered products over the stated alphabets); the property is evaluated for every threshold "
    "of the case's threshold set on a freshly built part and after every assignment of a threshold walk/history; "
    "non-trivial = at least one note and one sustain-pedal event (pedal spaces) or two parts (track space); "
    "note-array-edits: one case = (part configuration, prefix of editing operations), evaluated for the prefix and for "
    "every applicable next operation, each sequence on a fresh part with note_array() before the first and after every "
    "operation; non-trivial = at least one note and an operation that changes what the time columns have to report; "
    "stale-sound-ends: one case = (part configuration with optional sound_off keys, prefix of operations), evaluated for "
    "the prefix + every applicable next operation + every threshold assignment, each sequence on a fresh part; the "
    "sounding ends are judged on the fresh part and after every threshold assignment; non-trivial = at least one note"
)
ASSUMPTIONS = [
    "note dictionaries use the key midi_pitch (the reading of every partitura loader) and controls carry number/time/value",
    "a pedal event, or a re-strike of the pitch, exactly at the release time of a note: both readings accepted "
    "(sound end = release, or the first strictly later pedal-up/re-strike)",
    "several pedal events at one time: the state they leave is taken to be any of their values",
    "pedal never lifted again and pitch never struck again: the statement leaves the sounding end open; only "
    "sound_off >= note_off, threshold monotonicity and recomputation are required",
    "a time exactly half-way between two ticks may round either way; duration_tick may be the difference of the "
    "rounded end and onset ticks or the rounded duration",
    "f4 columns are compared after casting the reference to float32 (4 ulp)",
    "track renumbering: only the partition is compared (same part and same old track <=> same new track); "
    "the new numbers themselves and items without a track key are free",
    "note-array-edits: a part edited in place (assignment to note_on/note_off/sound_off of a PerformedNote, list "
    "operations on PerformedPart.notes, assignment of ppq/mpq) is a performed part like any other: its note array has to "
    "report the present times; edits keep 0 <= note_on <= note_off <= sound_off; an in-place edit or helper that raises is "
    "recorded in the outcome, not judged",
    "note-array-edits: utils.music.remove_silence_from_performed_part is used as an editing operation only: the note and "
    "control times it leaves in the part are read back (exactly) as the new reference state, the helper itself is not judged; "
    "it is not applied to parts with note_on_tick/note_off_tick keys (it leaves those keys unshifted on the present tree: "
    "reported with proposed_fixes/C14-s-remove-silence-tick-keys.diff; switch mc/c14_edits.SILENCE_WITH_TICK_KEYS)",
    "stale-sound-ends: a note dictionary with a sound_off key >= note_off is a note like any other (the loaders and "
    "from_note_array hand such dictionaries over): building the part sets the threshold, so the sounding end is the one "
    "the pedal dictates, not the given one; dictionaries with sound_off < note_off are not enumerated. A part whose notes "
    "or control list were edited in place (note_off / note_on / sound_off of a PerformedNote, list operations on / "
    "assignment of PerformedPart.controls, the value of a control dictionary) is a performed part like any other: "
    "'setting it recomputes every note' is read as: after the assignment every sounding end is the one the pedal model "
    "gives for the present notes, controls and threshold; the state between an edit and the next assignment is not judged; "
    "an in-place edit that raises is recorded in the outcome, not judged",
    "numeric-types: note_on/note_off, control times and controller values may be given as any real number type that holds "
    "the value (Python int/float, numpy integer and floating scalars): the statement quantifies over the notes and times, "
    "not over their representation; sound_off and the note array are read with float() and compared with the same "
    "reference as for Python floats",
    "pitch-range: every midi_pitch and velocity of 0..127 (the range PerformedNote validates) and every channel 0..15 is a "
    "valid note field; the sounding ends do not depend on the pitch value, only on which notes share a pitch",
    "mido/numpy are trusted",
]
CHUNK = 40

T5 = [0, 63, 64, 126, 127]
PQ = [[480, 500000], [96, 600000], [7, 2000000]]
K4 = [[64, 0], [64, 64], [64, 127], [67, 127]]
K5 = [[64, 0], [64, 64], [64, 65], [64, 127], [67, 127]]
K9 = [[64, 0], [64, 1], [64, 63], [64, 64], [64, 65], [64, 126], [64, 127], [67, 127], [67, 0]]
VEL = [1, 64, 127]


def fs(x):
    return str(F(x))


def H(x):
    return F(x, 2)


# ---------------------------------------------------------------------------------------------
# enumerators (pure, fixed order)


def intervals(grid):
    return [(a, b) for a in grid for b in grid if a <= b]


def note_lists(n, grid, pitch_patterns=None):
    """all ordered lists of n notes [pitch, channel, on, off]; the first pitch is 60 (pitch symmetry)."""
    iv = intervals(grid)
    if pitch_patterns is None:
        pitch_patterns = [(60,) + rest for rest in product((60, 61), repeat=n - 1)] if n else [()]
    out = []
    for pp in pitch_patterns:
        for ivs in product(iv, repeat=n):
            out.append([[pp[i], i % 2, fs(ivs[i][0]), fs(ivs[i][1])] for i in range(n)])
    return out


def control_streams(kmax, times, kinds, ordered=False, allow_equal=False):
    """all streams of <= kmax events [number, time, value]; times distinct and increasing unless
    ordered (every order of distinct times) / allow_equal (every tuple of times)."""
    out = [[]]
    for k in range(1, kmax + 1):
        if allow_equal:
            tsets = list(product(times, repeat=k))
        elif ordered:
            tsets = [p for p in product(times, repeat=k) if len(set(p)) == k]
        else:
            tsets = list(combinations(times, k))
        for ts in tsets:
            for ks in product(kinds, repeat=k):
                out.append([[ks[i][0], fs(ts[i]), ks[i][1]] for i in range(k)])
    return out


def ticks_exact(notes, pq):
    ppq, mpq = pq
    for n in notes:
        for t in (n[2], n[3]):
            if (F(t) * 1000000 * ppq / mpq).denominator != 1:
                return False
    return True


def pedal_case(notes, ctrl, counter, thr=None, walk=None, pq=None, ticks=None, exact=None):
    """walk: 'pairs' (25 assignments covering every ordered pair of thresholds), 'updown' (ascending then
    descending) or None = cycled: pairs on every 4th case of the space, updown on the others."""
    pq = PQ[counter % 3] if pq is None else pq
    if ticks is None:
        ticks = 1 if (counter // 3) % 2 == 1 else 0
    if ticks and not (exact[counter % 3] if exact is not None else ticks_exact(notes, pq)):
        ticks = 0
    if walk is None:
        walk = "pairs" if counter % 4 == 0 else "updown"
    c = {"k": "pedal", "notes": notes, "ctrl": ctrl, "pq": pq, "ticks": ticks, "walk": walk}
    if thr is not None:
        c["thr"] = thr
    return c


def product_space(nls, css, block=None, **kw):
    """cases for every (note list, control stream); block=(B, b) keeps the diagonal block
    (note index + stream index) % B == b of the product."""

    def gen():
        for ni, nl in enumerate(nls):
            exact = [ticks_exact(nl, pq) for pq in PQ]
            for ci, cs in enumerate(css):
                if block is not None and (ni + ci) % block[0] != block[1]:
                    continue
                yield pedal_case(nl, cs, 3 * ni + ci, exact=exact, **kw)

    return gen


G3 = [0, 1, 2]
G4 = [0, 1, 2, 3]
PT3 = [H(1), 1, H(3)]
PT5 = [H(1), 1, H(3), 2, H(5)]
PT6 = [H(1), 1, H(3), 2, H(5), H(7)]
PT8 = [0, H(1), 1, H(3), 2, H(5), 3, H(7)]
SAME3 = [(60, 60, 60)]


def hist_configs(tier):
    """small configurations on which every assignment history is run"""
    if tier == "thorough":
        nls = note_lists(1, G3) + note_lists(2, G3)
        vals = (64, 65, 127)
    else:
        iv = [(0, 1), (0, 2), (1, 1), (1, 2)]
        nls = [[[60, 0, fs(a), fs(b)]] for a, b in iv]
        nls += [[[60, 0, fs(a), fs(b)], [60, 1, fs(c), fs(d)]] for (a, b), (c, d) in product(iv, repeat=2)]
        vals = (65, 127)
    css = []
    for v in vals:
        css.append([[64, fs(H(1)), v]])
        for t2 in (H(3), H(5)):
            css.append([[64, fs(H(1)), v], [64, fs(t2), 0]])
    css.append([[64, fs(H(1)), 127], [64, fs(H(3)), 64], [64, fs(H(5)), 0]])
    css.append([[67, fs(H(1)), 127]])
    return nls, css


def track_layouts(tier):
    """per part: note tracks, control tracks (None = key missing), program tracks"""
    nt = [[0], [1], [7], [0, 0], [0, 1], [1, 0], [1, 7], [7, 7]]
    ct = [[], [0], [7], [None], [1, None]]
    pt = [[], [1]]
    full = [dict(nt=a, ct=b, pt=c) for a in nt for b in ct for c in pt]
    small = [dict(nt=a, ct=b, pt=c) for a in ([0], [0, 1], [7]) for b in ([], [0], [None]) for c in ([], [1])]
    tiny = [dict(nt=a, ct=b, pt=c) for a in ([0], [0, 1]) for b in ([], [1]) for c in ([], [0])]
    out = []
    for mode in ("init", "call"):
        for p in full:
            out.append({"k": "tracks", "parts": [p], "mode": mode})
        for p, q in product(full, small):
            out.append({"k": "tracks", "parts": [p, q], "mode": mode})
        third = small if tier == "thorough" else tiny
        for p, q, r in product(small, small, third):
            out.append({"k": "tracks", "parts": [p, q, r], "mode": mode})
    return out


def na_cases(tier):
    """non-dyadic times x every (ppq, mpq) x tick keys x three pedal situations"""
    times = [F(0), F(1, 10), F(1, 3), F(1, 2), F(41, 20)]
    if tier == "thorough":
        times += [F(1, 960), F(7, 4)]
    iv = [(a, b) for a in times for b in times if a <= b]
    pqs = PQ + [[1000, 1000000]] + ([[480, 451128], [384, 500000]] if tier == "thorough" else [])
    peds = [[], [[64, "1/20", 127], [64, "3", 0]], [[67, "0", 127], [64, "1/5", 100]]]
    out = []
    nls = []
    for a in iv:
        nls.append([[60, 0, fs(a[0]), fs(a[1])]])
    for pp in ((60, 60), (60, 61)):
        for a, b in product(iv, repeat=2):
            nls.append([[pp[0], 1, fs(a[0]), fs(a[1])], [pp[1], 0, fs(b[0]), fs(b[1])]])
    i = 0
    for nl in nls:
        for cs in peds:
            for pq in pqs:
                for ticks in (0, 1):
                    if ticks and not ticks_exact(nl, pq):
                        continue
                    i += 1
                    out.append(pedal_case(nl, cs, i, thr=[0, 64, 127], walk="updown", pq=pq, ticks=ticks))
    return out


NT_HOMOG = ["float", "int", "np.int64", "np.int32", "np.float64", "np.float32"]
NT_ONOFF = ["on-int/off-float", "on-float/off-int"]
NT_ALT = ["even-int/odd-float", "even-float/odd-int"]
CT_TYPES = ["float", "int", "np.int64", "np.float64", "np.float32"]
VT_TYPES = ["int", "np.int64", "float"]
GH4 = [0, H(1), 1, 2]
GH5 = [0, H(1), 1, H(3), 2]


def typed_note_lists(scheme):
    """1-2 notes [pitch, channel, on, off] (pitch patterns 60 / 60,60 / 60,61) whose times the scheme's types hold
    exactly: integer-typed fields over {0,1,2}, float fields of the mixed on/off schemes over {0,.5,1,1.5,2}, the
    numpy float types over {0,.5,1,2}, Python float over {0,1,2}"""
    if scheme in ("np.float64", "np.float32"):
        ons, offs = GH4, GH4
    elif scheme == "on-int/off-float":
        ons, offs = G3, GH5
    elif scheme == "on-float/off-int":
        ons, offs = GH5, G3
    else:
        ons, offs = G3, G3
    iv = [(a, b) for a in ons for b in offs if a <= b]
    out = []
    if scheme not in NT_ALT:  # with one note these two are the homogeneous int / float schemes
        out += [[[60, 0, fs(a), fs(b)]] for a, b in iv]
    for pp in ((60, 60), (60, 61)):
        for (a, b), (c, d) in product(iv, repeat=2):
            out.append([[pp[0], 0, fs(a), fs(b)], [pp[1], 1, fs(c), fs(d)]])
    return out


TYPE_SCHEMES = NT_HOMOG + NT_ONOFF + NT_ALT
CTVT = [(ct, vt) for ct in CT_TYPES for vt in VT_TYPES]
TYPE_KW = dict(thr=[0, 64, 127], walk="updown", pq=PQ[0], ticks=0)
TYPE_BLOCKS = 32


def type_cases(tier, seed):
    """every note-type scheme x its note lists x control streams; control-time / pedal-value types cycled"""
    css = control_streams(2, [H(1), 1, H(3), H(5)], K4[:3])
    k = 0
    for scheme in TYPE_SCHEMES:
        for ni, nl in enumerate(typed_note_lists(scheme)):
            for ci, cs in enumerate(css):
                k += 1
                if tier != "thorough" and (ni + ci) % TYPE_BLOCKS != seed % TYPE_BLOCKS:
                    continue
                c = pedal_case(nl, cs, k, **TYPE_KW)
                c["types"] = [scheme] + list(CTVT[k % len(CTVT)])
                yield c


def type_triple_cases(tier, seed):
    """every (note scheme, control-time type, pedal-value type) triple on a small core of parts"""
    iv3 = [(0, 1), (1, 2), (0, 2)]
    core = [[[60, 0, fs(a), fs(b)]] for a, b in intervals(G3)]
    core += [[[60, 0, fs(a), fs(b)], [60, 1, fs(c), fs(d)]] for (a, b), (c, d) in product(iv3, repeat=2)]
    css = control_streams(2, [H(1), 1, 2, H(5)], [[64, 127], [64, 0]])
    for scheme in TYPE_SCHEMES:
        nls = [nl for nl in core if len(nl) == 2 or scheme not in NT_ALT]
        for ti, (ct, vt) in enumerate(CTVT):
            for ni, nl in enumerate(nls):
                for ci, cs in enumerate(css):
                    if tier != "thorough" and (ti + ni + ci) % TYPE_BLOCKS != seed % TYPE_BLOCKS:
                        continue
                    c = pedal_case(nl, cs, 0, **TYPE_KW)
                    c["types"] = [scheme, ct, vt]
                    yield c


ET4 = [F(0), F(1, 3), F(1, 2), F(2)]
ET3 = [F(0), F(1, 2), F(2)]
EPQ = PQ + [[1000, 1000000]]
EPEDS = [[], [[64, "1/4", 127], [64, "5/2", 0]], [[67, "0", 127], [64, "3/4", 100]]]
ETHR0 = [64, 0, 127]


def edit_state0(notes, pq, thr):
    """model state of a freshly built part (notes as [pitch, channel, on, off])"""
    return {"notes": [{"id": "n%d" % i, "p": p, "ch": ch, "on": F(on), "off": F(off), "vel": VEL[i % 3]}
                      for i, (p, ch, on, off) in enumerate(notes)],
            "ppq": pq[0], "mpq": pq[1], "thr": thr}


def edit_cases(tier):
    """edit-then-query-again sequences on one performed part: (configuration, prefix of operations); the
    evaluation runs the prefix and then every applicable next operation, each sequence on a fresh part, with a
    note_array() call before the first and after every operation"""
    thorough = tier == "thorough"

    def lists(iv1, iv2):
        nls = [[[60, 0, fs(a), fs(b)]] for a, b in iv1]
        for pp in ((60, 60), (60, 61)):
            for (a, b), (c, d) in product(iv2, repeat=2):
                nls.append([[pp[0], 1, fs(a), fs(b)], [pp[1], 0, fs(c), fs(d)]])
        return nls

    def configs(nls, grid, all_pq):
        i = 0
        for nl in nls:
            for cs in EPEDS:
                for pq in (EPQ if all_pq else [None]):
                    i += 1
                    q = EPQ[i % 4] if pq is None else pq
                    exact = E.grid_exact(grid, q)
                    if all_pq:
                        tks = (0, 1) if exact else (0,)
                    else:
                        tks = (1,) if exact and (i // 4) % 2 == 1 else (0,)
                    for ticks in tks:
                        yield {"k": "edit", "notes": nl, "ctrl": cs, "pq": q, "ticks": ticks, "thr": ETHR0[(i // 3) % 3],
                               "grid": [fs(t) for t in grid], "pre": []}

    out = []
    # one operation: complete over the larger grid
    for c in configs(lists(intervals(ET4), intervals(ET4)), ET4, thorough):
        out.append(c)
    # two operations: every ordered pair (the second one enumerated by the evaluation)
    if thorough:
        iv2 = [(F(0), F(2)), (F(1, 3), F(1, 2)), (F(1, 2), F(2)), (F(1, 3), F(1, 3)), (F(0), F(1, 3))]
        cfg2 = configs(lists(intervals(ET4), iv2), ET4, False)
        g2 = ET4
    else:
        iv2 = [(F(0), F(2)), (F(1, 2), F(2)), (F(1, 2), F(1, 2))]
        cfg2 = configs(lists(iv2, iv2), ET3, False)
        g2 = ET3
    for c in cfg2:
        st0 = edit_state0(c["notes"], c["pq"], c["thr"])
        for op in E.ops_for(st0, g2, c["ticks"]):
            d = dict(c)
            d["pre"] = [op]
            out.append(d)
    return out


SCTRL = [[], [[67, "1/2", 127]], [[64, "1/2", 127]], [[64, "1/2", 127], [64, "5/2", 0]], [[64, "1/2", 127], [64, "3/2", 0]],
         [[67, "0", 127], [64, "3/2", 100]], [[64, "1/2", 0]]]
SCTRL_B = [[], [[67, "1/2", 127]], [[64, "1/2", 127], [64, "5/2", 0]], [[64, "1/2", 127]]]
SO_OPTS = [None, "=", "3"]  # "sound_off" key of the note dictionary: absent / equal to the release / 3 (after every release)
STALE_BLOCKS = 8


def stale_notes(ivs, sos):
    return [[p, ch, fs(a), fs(b), (fs(b) if so == "=" else so)] for (p, ch, (a, b)), so in zip(ivs, sos)]


def stale_cases(tier, seed):
    """(configuration, prefix of operations); the evaluation runs the prefix, then prefix + every applicable next
    operation, each followed by every threshold assignment, each sequence on a fresh part"""
    thorough = tier == "thorough"
    iv = intervals(G3)
    # (a) every single operation
    nls = [stale_notes([(60, 0, a)], [so]) for a in iv for so in SO_OPTS]
    k = 0
    for pp in ((60, 60), (60, 61)):
        for a, b in product(iv, repeat=2):
            for sos in product(SO_OPTS, repeat=2):
                k += 1
                if not thorough and sos != (None, None) and k % STALE_BLOCKS != seed % STALE_BLOCKS:
                    continue
                nls.append(stale_notes([(pp[0], 1, a), (pp[1], 0, b)], sos))
    i = 0
    for nl in nls:
        for cs in SCTRL:
            i += 1
            yield {"k": "stale", "notes": nl, "ctrl": cs, "pq": EPQ[i % 4], "thr": ETHR0[(i // 7) % 3], "pre": []}
    # (b) every ordered pair of operations
    iv1 = [(0, 1), (1, 2), (0, 2), (1, 1)]
    iv2 = [(0, 1), (1, 2), (0, 2)] if thorough else [(0, 1), (1, 2)]
    nls = [stale_notes([(60, 0, a)], [so]) for a in iv1 for so in (None, "3")]
    k = 0
    for pp in ((60, 60), (60, 61)):
        for a, b in product(iv2, repeat=2):
            k += 1
            nls.append(stale_notes([(pp[0], 1, a), (pp[1], 0, b)], [(None, None), (None, "3"), ("3", None)][k % 3]))
    i = 0
    for nl in nls:
        for cs in SCTRL_B:
            i += 1
            c = {"k": "stale", "notes": nl, "ctrl": cs, "pq": EPQ[i % 4], "thr": ETHR0[(i // 4) % 3], "pre": []}
            for op in S.ops_for(stale_state0(c)):
                d = dict(c)
                d["pre"] = [op]
                yield d


def stale_state0(case):
    return {"notes": [{"id": "n%d" % i, "p": p, "ch": ch, "on": F(on), "off": F(off), "vel": VEL[i % 3]}
                      for i, (p, ch, on, off, so) in enumerate(case["notes"])],
            "ctrl": [[num, F(t), v] for num, t, v in case["ctrl"]], "thr": case["thr"]}


VELX = [0, 127, 1]      # velocities of the pitch-range space: both ends of the valid range 0..127
CHX = (0, 15)           # channels of the pitch-range space: both ends of the MIDI channel range
PB2 = [0, 127]          # both ends of the MIDI pitch range
PB4 = [0, 1, 126, 127]
IVG = [(0, 1), (1, 2), (0, 2), (2, 3)]   # a later note after a gap: a re-strike strictly after a release
IVT = [(0, 1), (1, 2), (2, 2)]
PR_KW = dict(thr=[0, 64, 127], walk="updown")


def pitch_range_cases(tier):
    """the pitch as a value dimension of the small pedal families: (a) every MIDI pitch, (b) the ends of the range"""
    thorough = tier == "thorough"
    k = 0

    def case(pitches, ivs, cs):
        nl = [[pitches[i], CHX[i % 2], fs(ivs[i][0]), fs(ivs[i][1])] for i in range(len(pitches))]
        c = pedal_case(nl, cs, k, **PR_KW)
        c["vels"] = [VELX[i % 3] for i in range(len(pitches))]
        return c

    # (a) every pitch 0..127
    css = [[[64, "1/2", 127], [64, "5/2", 0]], [[64, "1/2", 127], [64, "3/2", 0]]]
    if thorough:
        css += [[[64, "1/2", 127]], [[64, "3/2", 127], [64, "7/2", 0]], [[67, "1/2", 127], [64, "1", 100], [64, "5/2", 64]]]
    for p in range(128):
        for pp in ((p, p), (p, 127 - p)):
            for ivs in product(IVG, repeat=2):
                for cs in css:
                    k += 1
                    yield case(pp, ivs, cs)
        if thorough:
            for pp in ((p, p, p), (p, 127 - p, p)):
                for ivs in product(IVT, repeat=3):
                    for cs in css[:2]:
                        k += 1
                        yield case(pp, ivs, cs)
    # (b) the ends of the range
    kinds = K4 if thorough else [[64, 127], [64, 0]]
    css2 = control_streams(2, [H(1), H(3), H(5)], kinds)
    css3 = css2 if thorough else control_streams(2, [H(1), H(5)], kinds)
    iv = intervals(G3)
    for p in PB2:
        for a in iv:
            for cs in css2:
                k += 1
                yield case((p,), (a,), cs)
    for pp in product(PB4 if thorough else PB2, repeat=2):
        for ivs in product(iv, repeat=2):
            for cs in css2:
                k += 1
                yield case(pp, ivs, cs)
    for pp in product(PB2, repeat=3):
        for ivs in product(IVT, repeat=3):
            for cs in css3:
                k += 1
                yield case(pp, ivs, cs)


def spaces(tier, seed):
    sp = []
    thorough = tier == "thorough"
    walks = "fresh part per threshold {0,63,64,126,127} + assignment walk (all 25 ordered threshold pairs on every 4th case, up/down on the others)"
    n012 = note_lists(0, G4) + note_lists(1, G4) + note_lists(2, G4)
    sp.append(Space(
        "pedal-core", product_space(note_lists(0, G3) + note_lists(1, G3) + note_lists(2, G3), control_streams(2, PT5, K4)), True,
        "0-2 notes (ordered, pitches 60/61, first 60, channels 0/1), on<=off on grid 0..2; <=2 control events at "
        "distinct increasing times from {.5,1,1.5,2,2.5}, kinds cc64 in {0,64,127} and cc67=127; " + walks +
        "; (ppq,mpq) and tick keys cycled"))
    sp.append(Space(
        "three-same-pitch", product_space(note_lists(3, G3, SAME3), control_streams(2, PT5, [[64, 127], [64, 0]])), True,
        "3 notes of pitch 60 (ordered), on<=off on grid 0..2; <=2 pedal events values {0,127} at distinct increasing "
        "times from {.5,1,1.5,2,2.5}; thresholds/walks as pedal-core"))
    KT = K4 if thorough else K4[:3]
    sp.append(Space(
        "pedal-ties", product_space(note_lists(1, G3) + note_lists(2, G3),
                                    [c for c in control_streams(2, PT3, KT, allow_equal=True) if len(c) == 2]), True,
        "1-2 notes on grid 0..2; exactly 2 control events, every ordered pair of times from {.5,1,1.5} including "
        "equal times and decreasing (unsorted) streams, kinds cc64 in {0,64,127}" + (" and cc67=127" if thorough else "")))
    B3 = 16
    blk = None if thorough else (B3, seed % B3)
    sp.append(Space(
        "three-notes", product_space(note_lists(3, G3), control_streams(2, PT5, K4), block=blk), True,
        "3 notes (pitch patterns 60xx over {60,61}), grid 0..2; <=2 control events at increasing times from "
        "{.5,1,1.5,2,2.5}, kinds as pedal-core" + ("" if blk is None else "; quick: diagonal block %d of %d of the product" % (blk[1], B3))))
    BW = 64
    blk = None if thorough else (BW, seed % BW)
    sp.append(Space(
        "pedal-wide", product_space(n012, control_streams(3, PT8, K4), block=blk), True,
        "0-2 notes on grid 0..3; <=3 control events at increasing times from {0,.5,...,3.5}, kinds cc64 in "
        "{0,64,127} and cc67=127" + ("" if blk is None else "; quick: diagonal block %d of %d of the product" % (blk[1], BW))))
    if thorough:
        sp.append(Space(
            "three-notes-grid4", product_space(note_lists(3, G4), control_streams(2, PT6, [[64, 127], [64, 0]]),
                                               walk="updown"), True,
            "3 notes (4 pitch patterns) on grid 0..3; <=2 pedal events values {0,127} at increasing times from "
            "{.5,1,1.5,2,2.5,3.5}; 9-assignment up/down walk"))
        sp.append(Space(
            "pedal-values9", product_space(note_lists(1, G3) + note_lists(2, G3), control_streams(2, PT5, K9, ordered=True),
                                           thr=[0, 1, 62, 63, 64, 65, 125, 126, 127], walk="updown"), True,
            "1-2 notes on grid 0..2; <=2 control events in every order of distinct times from {.5,..,2.5}, kinds cc64 in "
            "{0,1,63,64,65,126,127}, cc67 in {0,127}; thresholds {0,1,62,63,64,65,125,126,127}"))
        sp.append(Space(
            "unsorted-three", product_space(note_lists(1, G3) + note_lists(2, G3, [(60, 60)]),
                                            [c for c in control_streams(3, PT3, [[64, 0], [64, 127], [67, 127]], allow_equal=True) if len(c) == 3],
                                            walk="updown"), True,
            "1-2 notes of one pitch on grid 0..2; exactly 3 control events, every triple of times from {.5,1,1.5} "
            "(equal and unsorted included), kinds cc64 {0,127}, cc67 127"))
    # thresholds x pedal values, complete
    sp.append(Space(
        "threshold-x-value", [{"k": "tv", "pat": p, "v": v} for p in range(3) for v in range(128)], True,
        "3 fixed notes, 3 pedal patterns with one value v in 0..127; every threshold 0..127 on a fresh part and along an "
        "ascending+descending assignment walk"))
    sp.append(Space(
        "pitch-range", (lambda: pitch_range_cases(tier)), True,
        "the pitch (and velocity / channel) as a value dimension of the small pedal families, over the whole valid range "
        "instead of 60/61: (a) EVERY MIDI pitch p in 0..127 x pitch patterns (p,p) and (p,127-p) x every ordered pair of "
        "intervals from {(0,1),(1,2),(0,2),(2,3)} (re-strikes at and strictly after a release, overlaps, unsorted order) x "
        + ("5 control streams (pedal pressed at .5 and lifted at 2.5 / at 1.5 / never lifted; pressed at 1.5, lifted at 3.5; cc67 + "
           "pedal values 100, 64), + patterns (p,p,p) and (p,127-p,p) x every triple of intervals from {(0,1),(1,2),(2,2)} x the "
           "first 2 streams" if thorough else "2 control streams (pedal pressed at .5, lifted at 2.5 / at 1.5)") +
        "; (b) the ends of the range: 1 note of pitch 0 / 127 x the 6 intervals of grid 0..2; 2 notes, every ordered pitch pair "
        "over " + ("{0,1,126,127}" if thorough else "{0,127}") + " x every ordered pair of the 6 intervals; 3 notes, every pitch "
        "triple over {0,127} x every triple of intervals from {(0,1),(1,2),(2,2)}; x every stream of <=2 control events at "
        "increasing times from {.5,1.5,2.5}" + ("" if thorough else " ({.5,2.5} for 3 notes)") + ", kinds cc64 in " +
        ("{0,64,127} and cc67=127" if thorough else "{0,127}") +
        ". Velocities 0,127,1 and channels 0,15 by note position (both ends of their ranges); thresholds {0,64,127} on a fresh "
        "part + up/down assignment walk, note array + rebuild; (ppq,mpq) and tick keys cycled"))
    sp.append(Space(
        "note-array", na_cases(tier), True,
        "1-2 notes with on<=off over times {0,1/10,1/3,1/2,41/20}" + (" + {1/960,7/4}" if thorough else "") +
        "; 3 control streams (none / extending pedal / other controller + never lifted pedal); every (ppq,mpq) of "
        "{(480,500000),(96,600000),(7,2000000),(1000,1000000)}" + (" + {(480,451128),(384,500000)}" if thorough else "") +
        "; with and without note_on_tick/note_off_tick keys; thresholds {0,64,127}"))
    blk_txt = "" if thorough else "; quick: diagonal block %d of %d of the product" % (seed % TYPE_BLOCKS, TYPE_BLOCKS)
    sp.append(Space(
        "numeric-types", (lambda: type_cases(tier, seed)), True,
        "numeric representation of the note times handed to PerformedPart: every scheme of {all note_on/note_off Python "
        "float, Python int, np.int64, np.int32, np.float64, np.float32; onsets int + releases float; onsets float + releases "
        "int; notes alternately int / float (both orders, 2 notes)} x every list of 1-2 notes (pitch patterns 60 / 60,60 / "
        "60,61, on<=off) whose times the types hold exactly (integer-typed fields over {0,1,2}; the float fields of the two "
        "onset/release schemes over {0,.5,1,1.5,2}; np.float64/np.float32 over {0,.5,1,2}; Python float over {0,1,2}) x <=2 "
        "control events at distinct increasing times from {.5,1,1.5,2.5}, cc64 values {0,64,127}; control-time type "
        "(float, np.float64, np.float32, Python int / np.int64 on integral times and float / np.float64 on the others) and "
        "pedal-value type (int, np.int64, float) cycled over their 15 combinations; thresholds {0,64,127} on a fresh part + "
        "up/down assignment walk; ppq/mpq 480/500000, no tick keys" + blk_txt))
    sp.append(Space(
        "numeric-type-triples", (lambda: type_triple_cases(tier, seed)), True,
        "every triple (note-type scheme of 10, control-time type of 5, pedal-value type of 3) as in numeric-types x a core "
        "of 15 parts (1 note: the 6 intervals of {0,1,2}; 2 notes of one pitch: ordered pairs of {(0,1),(1,2),(0,2)}) x <=2 "
        "pedal events values {0,127} at increasing times from {.5,1,2,2.5}; thresholds {0,64,127} + up/down walk" + blk_txt))
    sp.append(Space(
        "note-array-edits", edit_cases(tier), True,
        "edit-then-query-again sequences on ONE performed part: note_array() on the fresh part, then after every "
        "operation; operation alphabet = in-place assignment of every other interval of the grid to a note "
        "(note_on/note_off/sound_off; onset only, release only or both), replacing a list item by a new PerformedNote "
        "(2 intervals), appending a note, deleting a note, notes.reverse(), assigning a rotated new list, "
        "utils.music.remove_silence_from_performed_part, assigning another threshold of {0,64,127} (sounding ends "
        "compared with the pedal model on the edited notes), assigning another ppq / mpq. "
        "(a) every single operation on every part of 1-2 notes (pitch patterns 60 / 60,60 / 60,61) with on<=off over "
        "{0,1/3,1/2,2} x 3 control streams (none / extending pedal / other controller + never lifted pedal)" +
        (" x every (ppq,mpq) of 4 x with/without tick keys" if thorough else "; (ppq,mpq) of 4, tick keys and the initial threshold cycled") +
        "; (b) every ordered pair of operations on parts of 1-2 notes over " +
        ("10 (one note) / 5 (two notes) intervals of {0,1/3,1/2,2}" if thorough else "the intervals {(0,2),(1/2,2),(1/2,1/2)}, operations over the grid {0,1/2,2}") +
        " x the 3 control streams ((ppq,mpq), tick keys, initial threshold cycled). Parts with note_on_tick/"
        "note_off_tick keys (kept consistent by the edits) get no remove_silence and no ppq/mpq operation"))
    sp.append(Space(
        "stale-sound-ends", (lambda: stale_cases(tier, seed)), True,
        "notes that carry a sounding end the pedal does not dictate, then (re)assignment of the threshold: parts of 1-2 notes "
        "(pitch patterns 60 / 60,60 / 60,61, on<=off on grid 0..2) whose note dictionaries come with a sound_off key "
        "{absent, equal to the release, 3} per note, x 7 control streams (none / only cc67 / pedal pressed and never lifted / "
        "pressed and lifted at 2.5 / at 1.5 / cc67 + one pedal event of value 100 / one pedal event of value 0), initial "
        "threshold and (ppq,mpq) cycled. Operation alphabet on the built part: in-place assignment of note_off alone / "
        "note_on alone (other grid times, on<=off kept, sound_off left behind) / sound_off alone ({1,2,3} >= release), "
        "del controls[j], controls.clear(), controls = new list without cc64 events, controls[j]['value'] = other value of "
        "{0,64,127} (cc64 events), controls.append(cc64 event at .5 or 2.5, value 127 or 0), sustain_pedal_threshold = every "
        "value of {0,64,127} (the present one included). The sounding ends of the fresh part and after EVERY threshold "
        "assignment are compared with the pedal model on the present notes and controls (+ threshold stored, note array). "
        "(a) fresh part + every threshold assignment, and every single operation followed by every threshold assignment, on "
        + ("every such part" if thorough else "every 1-note part, every 2-note part without sound_off keys and block %d of %d of the 2-note "
           "parts with sound_off keys" % (seed % STALE_BLOCKS, STALE_BLOCKS)) +
        "; (b) every ordered pair of operations followed by every threshold assignment on parts of 1 note (intervals "
        "(0,1),(1,2),(0,2),(1,1); sound_off absent / 3) or 2 notes (ordered pairs of " +
        ("(0,1),(1,2),(0,2)" if thorough else "(0,1),(1,2)") +
        ", sound_off keys cycled over none / second / first note) x 4 control streams; every sequence on a fresh part"))
    nls, css = hist_configs(tier)
    inits = T5 if thorough else [64, 0, 127]
    sp.append(Space(
        "histories", [{"k": "hist", "notes": nl, "ctrl": cs, "init": i0} for nl in nls for cs in css for i0 in inits], True,
        ("per configuration (%d note lists: 1 note or 2 notes%s on grid 0..2; %d control streams) and initial threshold in %r: "
         "every sequence of 1..3 assignments over {0,63,64,126,127} (155 histories), each on a fresh part")
        % (len(nls), "" if thorough else " of one pitch", len(css), inits)))
    sp.append(Space(
        "tracks", track_layouts(tier), True,
        "performances of 1-3 parts; per part note tracks from 8 lists over {0,1,7}, control tracks from 5 lists "
        "(including a missing key), program tracks {none,[1]} (reduced alphabets for the 2nd/3rd part); renumbering by "
        "the constructor and by an explicit call, applied twice"))
    return sp


# ---------------------------------------------------------------------------------------------
# evaluation

TOL = 1e-9


def close(a, b):
    return abs(a - b) <= TOL * max(1.0, abs(b))


def typed(tname, x):
    """the exact value x (a Fraction) as an object of the named numeric type; the integer types are only
    asked for integral x by the note enumerators; for control times "int"/"np.int64" mean that type on
    integral times and float / np.float64 on the others (stated in the bounds)"""
    import numpy as np

    x = F(x)
    if tname == "float":
        return float(x)
    if tname in ("int", "np.int64", "np.int32"):
        if x.denominator != 1:
            return float(x) if tname == "int" else np.float64(float(x))
        return int(x) if tname == "int" else getattr(np, tname[3:])(int(x))
    v = getattr(np, tname[3:])(float(x))
    if F(float(v)) != x:
        raise ValueError("%s cannot hold %s exactly" % (tname, x))
    return v


def note_types(scheme, i):
    """(type of note_on, type of note_off) of note i under a note-type scheme"""
    if scheme in NT_HOMOG:
        return scheme, scheme
    if scheme == "on-int/off-float":
        return "int", "float"
    if scheme == "on-float/off-int":
        return "float", "int"
    if scheme == "even-int/odd-float":
        return ("int", "int") if i % 2 == 0 else ("float", "float")
    if scheme == "even-float/odd-int":
        return ("float", "float") if i % 2 == 0 else ("int", "int")
    raise ValueError(scheme)


def build_part(notes, ctrl, thr, pq, ticks, types=None, sos=None, vels=None):
    from partitura.performance import PerformedPart

    if vels is None:
        vels = [VEL[i % 3] for i in range(len(notes))]

    if types is not None:
        ppq, mpq = pq
        scheme, ct, vt = types
        nd = []
        for i, (p, ch, on, off) in enumerate(notes):
            ton, toff = note_types(scheme, i)
            nd.append(dict(id="n%d" % i, midi_pitch=p, note_on=typed(ton, on), note_off=typed(toff, off), velocity=vels[i],
                           channel=ch, track=0))
        cd = [dict(type="sustain_pedal" if num == 64 else "soft_pedal", number=num, time=typed(ct, t), value=typed(vt, v),
                   track=0, channel=0) for num, t, v in ctrl]
        return PerformedPart(nd, id="P", controls=cd, sustain_pedal_threshold=thr, ppq=ppq, mpq=mpq)

    ppq, mpq = pq
    nd = []
    for i, (p, ch, on, off) in enumerate(notes):
        d = dict(id="n%d" % i, midi_pitch=p, note_on=float(on), note_off=float(off), velocity=vels[i], channel=ch, track=0)
        if ticks:
            d["note_on_tick"] = int(on * 1000000 * ppq / mpq)
            d["note_off_tick"] = int(off * 1000000 * ppq / mpq)
        if sos is not None and sos[i] is not None:
            d["sound_off"] = float(sos[i])  # the note dictionary comes with its own sounding end
        nd.append(d)
    cd = [dict(type="sustain_pedal" if num == 64 else "soft_pedal", number=num, time=float(t), value=v, track=0, channel=0)
          for num, t, v in ctrl]
    return PerformedPart(nd, id="P", controls=cd, sustain_pedal_threshold=thr, ppq=ppq, mpq=mpq)


def sound_offs(pp):
    return [float(n["sound_off"]) for n in pp.notes]


def check_sound(res, notes, so, ref, ctx):
    """clauses on the sounding ends of one part state; returns number of extended notes"""
    ext = 0
    if len(so) != len(notes):
        res.fail("notes-kept", expected=len(notes), observed=len(so), where="PerformedPart.notes", detail=ctx)
        return 0
    for i, (x, (acc, open_, why)) in enumerate(zip(so, ref)):
        r = float(notes[i][3])
        if not (x == x) or abs(x) == float("inf"):
            res.fail("sound-end-finite", expected="finite", observed=x, where="sound_off", detail="%s note %d" % (ctx, i))
            continue
        if x > r + TOL:
            ext += 1
        if x < r - TOL * max(1.0, abs(r)):
            res.fail("sound-end-not-before-release", expected=">= %s" % r, observed=x, where="sound_off",
                     detail="%s note %d" % (ctx, i))
            continue
        if any(close(x, float(a)) for a in acc):
            continue
        if open_:
            continue
        res.fail(M.CLAUSE[why], expected=[float(a) for a in acc], observed=x, where="sound_off",
                 detail="%s note %d (%s)" % (ctx, i, why))
    return ext


def f32(x):
    import numpy as np

    return float(np.float32(x))


def close32(a, b):
    import numpy as np

    b32 = np.float32(b)
    return abs(float(np.float32(a)) - float(b32)) <= 4 * float(np.spacing(np.abs(b32))) + 1e-30


def check_note_array(res, pp, notes, pq, ctx, rebuild=True, vels=None):
    from partitura.performance import PerformedPart

    if vels is None:
        vels = [VEL[i % 3] for i in range(len(notes))]

    ppq, mpq = pq
    ok, na = guarded(res, "note-array-never-fails", pp.note_array)
    if not ok:
        return 1
    ops = 1
    if len(na) != len(notes):
        res.fail("note-array-rows", expected=len(notes), observed=len(na), where="PerformedPart.note_array", detail=ctx)
        return ops
    so = sound_offs(pp)
    for i, (p, ch, on, off) in enumerate(notes):
        row = na[i]
        d = "%s note %d ppq=%d mpq=%d" % (ctx, i, ppq, mpq)
        if not close32(row["onset_sec"], float(on)):
            res.fail("note-array-onset-sec", expected=float(on), observed=float(row["onset_sec"]),
                     where="note_array.onset_sec", detail=d)
        if not close32(row["duration_sec"], so[i] - float(on)):
            res.fail("note-array-duration-sec-to-sounding-end", expected=so[i] - float(on), observed=float(row["duration_sec"]),
                     where="note_array.duration_sec", detail=d)
        ex_on = on * 1000000 * ppq / mpq
        ex_off = off * 1000000 * ppq / mpq
        ot = int(row["onset_tick"])
        dt = int(row["duration_tick"])
        if abs(F(ot) - ex_on) > F(1, 2) + F(1, 10**6):
            res.fail("note-array-onset-tick-agrees", expected=float(ex_on), observed=ot, where="note_array.onset_tick", detail=d)
        elif close(so[i], float(off)):
            # no pedal extends the note: ticks agree with the seconds
            if abs(F(ot + dt) - ex_off) > F(1, 2) + F(1, 10**6) and abs(F(dt) - (ex_off - ex_on)) > F(1, 2) + F(1, 10**6):
                res.fail("note-array-duration-tick-agrees", expected=float(ex_off - ex_on), observed=dt,
                         where="note_array.duration_tick", detail=d)
    if not rebuild:
        return ops
    ok, pp2 = guarded(res, "rebuild-from-note-array-never-fails", PerformedPart.from_note_array, na)
    ops += 1
    if not ok:
        return ops
    exp = sorted((p, vels[i], f32(float(on)), f32(so[i])) for i, (p, ch, on, off) in enumerate(notes))
    try:
        got = sorted((int(n.get("midi_pitch", n["pitch"])), int(n["velocity"]), float(n["note_on"]), float(n["sound_off"]))
                     for n in pp2.notes)
    except Exception as e:  # noqa
        res.fail("rebuild-from-note-array", kind="exception", where=innermost_partitura_frame(e), observed=exc_text(e), detail=ctx)
        return ops
    same = len(exp) == len(got) and all(
        a[0] == b[0] and a[1] == b[1] and close32(b[2], a[2]) and close32(b[3], a[3]) for a, b in zip(exp, got))
    if not same:
        res.fail("rebuild-from-note-array", expected=exp, observed=got, where="PerformedPart.from_note_array",
                 detail=ctx + " (pitch, velocity, onset, sounding end)")
    return ops


def de_bruijn_pairs(alpha, start):
    """sequence starting at `start` in which every ordered pair (a, b) of alpha (a == b included)
    occurs as consecutive elements exactly once (Eulerian circuit of the complete digraph with loops)"""
    adj = {a: list(alpha) for a in alpha}
    stack, out = [start], []
    while stack:
        v = stack[-1]
        if adj[v]:
            stack.append(adj[v].pop())
        else:
            out.append(stack.pop())
    return out[::-1]


def walk_of(kind, thr, start):
    if kind == "pairs":
        return de_bruijn_pairs(thr, start)[1:]
    s = sorted(thr)
    return s + s[-2::-1]


def parse(case):
    notes = [(p, ch, F(on), F(off)) for p, ch, on, off in case["notes"]]
    ctrl = [(num, F(t), v) for num, t, v in case["ctrl"]]
    ped = [(t, v) for num, t, v in ctrl if num == 64]
    return notes, ctrl, ped


def eval_pedal(case):
    notes, ctrl, ped = parse(case)
    thr_list = case.get("thr", T5)
    pq = case["pq"]
    ticks = case["ticks"]
    types = case.get("types")
    vels = case.get("vels")
    res = CaseResult(states=0, transitions=0, traces=0)
    mnotes = [(p, on, off) for p, ch, on, off in notes]
    refs = {}
    fresh = {}
    exts = []
    rebuild_at = (min(thr_list), 64)
    for thr in thr_list:
        refs[thr] = M.ref_sound(mnotes, ped, thr)
        ctx = "fresh part, threshold %d" % thr
        ok, pp = guarded(res, "construction-never-fails", build_part, notes, ctrl, thr, pq, ticks, types, None, vels)
        res.transitions += 1
        res.states += 1
        res.traces += 1
        if not ok:
            res.violations[-1]["detail"] = ctx
            exts.append("x")
            continue
        if pp.sustain_pedal_threshold != thr:
            res.fail("threshold-stored", expected=thr, observed=pp.sustain_pedal_threshold, where="sustain_pedal_threshold", detail=ctx)
        so = sound_offs(pp)
        exts.append(str(check_sound(res, notes, so, refs[thr], ctx)))
        fresh[thr] = so
        res.transitions += check_note_array(res, pp, notes, pq, ctx, rebuild=thr in rebuild_at, vels=vels)
    # raising the threshold never lengthens a note
    st = sorted(fresh)
    for a, b in zip(st, st[1:]):
        for i, (x, y) in enumerate(zip(fresh[a], fresh[b])):
            if y > x + TOL * max(1.0, abs(x)):
                res.fail("raising-threshold-never-lengthens", expected="sound_off(thr=%d) <= sound_off(thr=%d) = %r" % (b, a, x),
                         observed=y, where="sound_off", detail="note %d" % i)
    # assignment walk on one part
    if fresh and len(fresh) == len(thr_list):
        start = thr_list[(len(notes) + len(ctrl)) % len(thr_list)]
        ok, pp = guarded(res, "construction-never-fails", build_part, notes, ctrl, start, pq, ticks, types, None, vels)
        res.transitions += 1
        if ok:
            hist = [start]
            for thr in walk_of(case["walk"], thr_list, start):
                hist.append(thr)
                res.transitions += 1
                res.states += 1
                try:
                    pp.sustain_pedal_threshold = thr
                except Exception as e:  # noqa
                    res.fail("assignment-never-fails", kind="exception", where=innermost_partitura_frame(e), observed=exc_text(e),
                             detail="thresholds %r" % (hist[-4:],))
                    break
                so = sound_offs(pp)
                if len(so) != len(fresh[thr]) or not all(close(x, y) for x, y in zip(so, fresh[thr])):
                    res.fail("assignment-recomputes-every-note", expected=fresh[thr], observed=so, where="sustain_pedal_threshold.setter",
                             detail="after assigning %r (last of %d assignments) the notes differ from a fresh part with threshold %d"
                                    % (hist[-4:], len(hist) - 1, thr))
                    break
                check_sound(res, notes, so, refs[thr], "after assignments ..%r" % (hist[-3:],))
            if not res.violations:
                res.transitions += check_note_array(res, pp, notes, pq, "after walk, threshold %d" % hist[-1], rebuild=False, vels=vels)
    res.nontrivial = bool(notes) and bool(ped)
    res.outcome = "n%d ext=%s" % (len(notes), ",".join(exts))
    if types is not None:
        res.outcome = "types " + res.outcome
    return res


_TV_NOTES = [(60, 0, F(0), F(1)), (60, 1, F(3), F(4)), (61, 0, F(1), F(2))]


def tv_ctrl(pat, v):
    if pat == 0:
        return [(64, H(1), v), (64, F(2), 0)]
    if pat == 1:
        return [(64, H(1), 127), (64, F(2), v)]
    return [(64, H(1), v), (64, H(3), 127 - v), (64, H(5), 0), (67, F(3), v)]


def eval_tv(case):
    notes = _TV_NOTES
    ctrl = tv_ctrl(case["pat"], case["v"])
    ped = [(t, v) for num, t, v in ctrl if num == 64]
    mnotes = [(p, on, off) for p, ch, on, off in notes]
    res = CaseResult(states=0, transitions=0, traces=0)
    fresh = {}
    refs = {}
    nx = 0
    for thr in range(128):
        refs[thr] = M.ref_sound(mnotes, ped, thr)
        ok, pp = guarded(res, "construction-never-fails", build_part, notes, ctrl, thr, PQ[0], 0)
        res.transitions += 1
        res.states += 1
        res.traces += 1
        if not ok:
            res.violations[-1]["detail"] = "threshold %d" % thr
            return res
        fresh[thr] = sound_offs(pp)
        nx += check_sound(res, notes, fresh[thr], refs[thr], "fresh part, threshold %d" % thr)
        if thr and any(y > x + TOL for x, y in zip(fresh[thr - 1], fresh[thr])):
            res.fail("raising-threshold-never-lengthens", expected=fresh[thr - 1], observed=fresh[thr], where="sound_off",
                     detail="threshold %d -> %d" % (thr - 1, thr))
    ok, pp = guarded(res, "construction-never-fails", build_part, notes, ctrl, 64, PQ[0], 0)
    if ok:
        for thr in list(range(128)) + list(range(126, -1, -1)):
            res.transitions += 1
            res.states += 1
            try:
                pp.sustain_pedal_threshold = thr
            except Exception as e:  # noqa
                res.fail("assignment-never-fails", kind="exception", where=innermost_partitura_frame(e), observed=exc_text(e),
                         detail="threshold %d" % thr)
                break
            so = sound_offs(pp)
            if not all(close(x, y) for x, y in zip(so, fresh[thr])):
                res.fail("assignment-recomputes-every-note", expected=fresh[thr], observed=so, where="sustain_pedal_threshold.setter",
                         detail="after assigning threshold %d" % thr)
                break
    res.outcome = "tv pat%d ext=%d" % (case["pat"], nx)
    return res


def eval_hist(case):
    notes, ctrl, ped = parse(case)
    mnotes = [(p, on, off) for p, ch, on, off in notes]
    res = CaseResult(states=0, transitions=0, traces=0)
    init = case["init"]
    fresh = {}
    refs = {}
    for thr in T5:
        refs[thr] = M.ref_sound(mnotes, ped, thr)
        ok, pp = guarded(res, "construction-never-fails", build_part, notes, ctrl, thr, PQ[0], 0)
        res.transitions += 1
        if not ok:
            return res
        fresh[thr] = sound_offs(pp)
    differing = len(set(tuple(v) for v in fresh.values()))
    for n in (1, 2, 3):
        for seq in product(T5, repeat=n):
            ok, pp = guarded(res, "construction-never-fails", build_part, notes, ctrl, init, PQ[0], 0)
            res.transitions += 1
            if not ok:
                return res
            try:
                for thr in seq:
                    res.transitions += 1
                    pp.sustain_pedal_threshold = thr
            except Exception as e:  # noqa
                res.fail("assignment-never-fails", kind="exception", where=innermost_partitura_frame(e), observed=exc_text(e),
                         detail="init %d, assignments %r" % (init, list(seq)))
                return res
            res.states += 1
            res.traces += 1
            so = sound_offs(pp)
            last = seq[-1]
            if pp.sustain_pedal_threshold != last:
                res.fail("threshold-stored", expected=last, observed=pp.sustain_pedal_threshold, where="sustain_pedal_threshold",
                         detail="init %d, assignments %r" % (init, list(seq)))
            if len(so) != len(fresh[last]) or not all(close(x, y) for x, y in zip(so, fresh[last])):
                res.fail("assignment-recomputes-every-note", expected=fresh[last], observed=so, where="sustain_pedal_threshold.setter",
                         detail="init %d, assignments %r: notes differ from a fresh part with threshold %d" % (init, list(seq), last))
                return res
            check_sound(res, notes, so, refs[last], "init %d, assignments %r" % (init, list(seq)))
            if res.violations:
                return res
    res.nontrivial = bool(ped)
    res.outcome = "hist distinct-sound-end-vectors=%d" % differing
    return res


def eval_tracks(case):
    from partitura.performance import PerformedPart, Performance

    res = CaseResult(states=1, transitions=0, traces=1)
    parts = []
    items = []  # (part index, kind, old track or None)
    for pi, spec in enumerate(case["parts"]):
        notes = [dict(id="p%dn%d" % (pi, i), midi_pitch=60 + i, note_on=float(i), note_off=float(i + 1), velocity=64, track=t)
                 for i, t in enumerate(spec["nt"])]
        ctrls = []
        for i, t in enumerate(spec["ct"]):
            c = dict(type="sustain_pedal", number=64, time=0.5 + i, value=100 if i % 2 == 0 else 0)
            if t is not None:
                c["track"] = t
            ctrls.append(c)
        progs = [dict(time=0.0, program=1, channel=0, track=t) for t in spec["pt"]]
        ok, pp = guarded(res, "construction-never-fails", PerformedPart, notes, id="P%d" % pi, controls=ctrls, programs=progs)
        res.transitions += 1
        if not ok:
            return res
        parts.append(pp)
        items += [(pi, "note", t) for t in spec["nt"]] + [(pi, "control", t) for t in spec["ct"]] + [(pi, "program", t) for t in spec["pt"]]

    def current():
        out = []
        for pp in perf.performedparts:
            out += [n.get("track", None) for n in pp.notes] + [c.get("track", None) for c in pp.controls] + \
                   [p.get("track", None) for p in pp.programs]
        return out

    def verify(new, ctx):
        if len(new) != len(items):
            res.fail("tracks-items-kept", expected=len(items), observed=len(new), where="Performance.sanitize_track_numbers", detail=ctx)
            return
        for a in range(len(items)):
            ta = new[a]
            if items[a][2] is None:
                continue  # an item without a track key has no number to keep apart: free
            if ta is None or int(ta) != ta:
                res.fail("tracks-numbered", expected="an integer track on every note/control/program", observed=repr(ta),
                         where="Performance.sanitize_track_numbers", detail="%s item %r" % (ctx, items[a]))
                return
        for a in range(len(items)):
            for b in range(a + 1, len(items)):
                pa, _, oa = items[a]
                pb, _, ob = items[b]
                if oa is None or ob is None:
                    continue
                if pa != pb:
                    if new[a] == new[b]:
                        res.fail("tracks-unique-across-parts", expected="different track numbers for %r and %r" % (items[a], items[b]),
                                 observed=[None if x is None else int(x) for x in new], where="Performance.sanitize_track_numbers", detail=ctx)
                        return
                else:
                    if (oa == ob) != (new[a] == new[b]):
                        res.fail("tracks-partition-kept-within-part",
                                 expected="%r and %r %s" % (items[a], items[b], "share a track" if oa == ob else "stay on different tracks"),
                                 observed=[None if x is None else int(x) for x in new], where="Performance.sanitize_track_numbers", detail=ctx)
                        return

    arg = parts[0] if len(parts) == 1 and case["mode"] == "init" else parts
    if case["mode"] == "init":
        ok, perf = guarded(res, "performance-construction-never-fails", Performance, arg, id="x")
        res.transitions += 1
        if not ok:
            return res
        verify(current(), "after Performance(...)")
    else:
        ok, perf = guarded(res, "performance-construction-never-fails", Performance, arg, id="x", ensure_unique_tracks=False)
        res.transitions += 1
        if not ok:
            return res
        before = current()
        exp = [t for _, _, t in items]
        if before != exp:
            res.fail("tracks-untouched-without-renumbering", expected=exp, observed=before, where="Performance.__init__",
                     detail="ensure_unique_tracks=False")
        ok, _ = guarded(res, "renumbering-never-fails", perf.sanitize_track_numbers)
        res.transitions += 1
        if not ok:
            return res
        verify(current(), "after sanitize_track_numbers()")
    ok, _ = guarded(res, "renumbering-never-fails", perf.sanitize_track_numbers)
    res.transitions += 1
    if ok:
        verify(current(), "after a second sanitize_track_numbers()")
    ntr = len(set(current())) if not res.violations else -1
    res.nontrivial = len(parts) > 1
    res.outcome = "tracks parts=%d distinct=%d" % (len(parts), ntr)
    return res


def edit_apply(pp, op, st, ticks):
    """apply one editing operation to the real part (st = model state before the operation)"""
    from partitura.performance import PerformedNote

    ppq, mpq = st["ppq"], st["mpq"]

    def tk(t):
        return int(F(t) * 1000000 * ppq / mpq)

    def new_note(nid, ch, on, off):
        d = dict(id=nid, midi_pitch=E.NEW_PITCH, note_on=float(F(on)), note_off=float(F(off)), velocity=E.NEW_VEL,
                 channel=ch, track=0)
        if ticks:
            d["note_on_tick"] = tk(on)
            d["note_off_tick"] = tk(off)
        return PerformedNote(d)

    k = op[0]
    if k == "set":
        n = pp.notes[op[1]]
        n["note_on"] = float(F(op[2]))
        n["note_off"] = float(F(op[3]))
        n["sound_off"] = float(F(op[3]))
        if ticks:
            n["note_on_tick"] = tk(op[2])
            n["note_off_tick"] = tk(op[3])
    elif k == "replace":
        pp.notes[op[1]] = new_note(E.fresh_id(st), st["notes"][op[1]]["ch"], op[2], op[3])
    elif k == "append":
        pp.notes.append(new_note(E.fresh_id(st), 0, op[1], op[2]))
    elif k == "delete":
        del pp.notes[op[1]]
    elif k == "reverse":
        pp.notes.reverse()
    elif k == "rotate":
        pp.notes = pp.notes[1:] + pp.notes[:1]
    elif k == "silence":
        from partitura.utils.music import remove_silence_from_performed_part

        remove_silence_from_performed_part(pp)
    elif k == "thr":
        pp.sustain_pedal_threshold = op[1]
    elif k == "ppq":
        pp.ppq = op[1]
    elif k == "mpq":
        pp.mpq = op[1]
    else:
        raise ValueError(op)


def eval_edit(case):
    notes, ctrl, ped0 = parse(case)
    grid = [F(t) for t in case["grid"]]
    ticks = case["ticks"]
    pq = case["pq"]
    res = CaseResult(states=0, transitions=0, traces=0)
    st0 = edit_state0(notes, pq, case["thr"])
    flags = {"raised": 0, "moved": 0}

    def query(pp, st, ctx, last):
        n4 = [(n["p"], n["ch"], n["on"], n["off"]) for n in st["notes"]]
        res.states += 1
        res.transitions += check_note_array(res, pp, n4, (st["ppq"], st["mpq"]), ctx, rebuild=last,
                                            vels=[n["vel"] for n in st["notes"]])

    def run(seq):
        """the sequence on a fresh part; returns the model state after it, None after a violation / unjudged stop"""
        nv = len(res.violations)
        ok, pp = guarded(res, "construction-never-fails", build_part, notes, ctrl, case["thr"], pq, ticks)
        res.transitions += 1
        res.traces += 1
        if not ok:
            return None
        st = st0
        ped = ped0
        query(pp, st, "fresh part, before %r" % (seq,), not seq)
        for j, op in enumerate(seq):
            if len(res.violations) > nv:
                return None
            ctx = "fresh part + note_array() + %s (note_array() after every operation)" % " + ".join(repr(o) for o in seq[:j + 1])
            res.transitions += 1
            try:
                edit_apply(pp, op, st, ticks)
            except Exception as e:  # noqa
                if op[0] == "thr":
                    res.fail("assignment-never-fails", kind="exception", where=innermost_partitura_frame(e), observed=exc_text(e), detail=ctx)
                elif op[0] in ("replace", "append"):
                    res.fail("construction-never-fails", kind="exception", where=innermost_partitura_frame(e), observed=exc_text(e), detail=ctx)
                else:
                    flags["raised"] += 1  # in-place edits / helpers are not judged by this property
                return None
            st = E.apply_model(st, op)
            if op[0] == "silence":
                # the helper is an editing operation here: the times it leaves in the part are read back
                for m, n in zip(st["notes"], pp.notes):
                    m["on"] = F(float(n["note_on"]))
                    m["off"] = F(float(n["note_off"]))
                ped = [(F(float(c["time"])), int(c["value"])) for c in pp.controls if c["number"] == 64]
            if op[0] == "thr":
                n4 = [(n["p"], n["ch"], n["on"], n["off"]) for n in st["notes"]]
                ref = M.ref_sound([(n["p"], n["on"], n["off"]) for n in st["notes"]], ped, op[1])
                if pp.sustain_pedal_threshold != op[1]:
                    res.fail("threshold-stored", expected=op[1], observed=pp.sustain_pedal_threshold, where="sustain_pedal_threshold", detail=ctx)
                check_sound(res, n4, sound_offs(pp), ref, ctx)
            query(pp, st, ctx, j == len(seq) - 1)
        if len(res.violations) > nv:
            return None
        return st

    pre = case["pre"]
    st = run(pre)
    nseq = 0
    if st is not None:
        for op in E.ops_for(st, grid, ticks):
            nseq += 1
            if E.changes_times(op):
                flags["moved"] += 1
            if run(pre + [op]) is None and res.violations:
                break
    res.nontrivial = flags["moved"] > 0 and bool(st0["notes"])
    res.outcome = "edit d%d n%d%s%s" % (len(pre) + 1, len(notes), " pedal" if ped0 else "", " edit-raised" if flags["raised"] else "")
    return res


def eval_stale(case):
    notes5 = case["notes"]
    notes = [(p, ch, F(on), F(off)) for p, ch, on, off, so in notes5]
    sos = [None if so is None else F(so) for p, ch, on, off, so in notes5]
    ctrl = [(num, F(t), v) for num, t, v in case["ctrl"]]
    pq = case["pq"]
    res = CaseResult(states=0, transitions=0, traces=0)
    st0 = stale_state0(case)
    flags = {"raised": 0, "nopedal": 0, "pedal": 0, "ext": 0}

    def judge(pp, st, ctx):
        n4 = [(n["p"], n["ch"], n["on"], n["off"]) for n in st["notes"]]
        ped = [(c[1], c[2]) for c in st["ctrl"] if c[0] == 64]
        ref = M.ref_sound([(n["p"], n["on"], n["off"]) for n in st["notes"]], ped, st["thr"])
        res.states += 1
        flags["pedal" if ped else "nopedal"] += 1
        if pp.sustain_pedal_threshold != st["thr"]:
            res.fail("threshold-stored", expected=st["thr"], observed=pp.sustain_pedal_threshold, where="sustain_pedal_threshold", detail=ctx)
        flags["ext"] += check_sound(res, n4, sound_offs(pp), ref, ctx)
        return n4

    def run(seq):
        """the sequence on a fresh part; False after a violation"""
        nv = len(res.violations)
        ok, pp = guarded(res, "construction-never-fails", build_part, notes, ctrl, case["thr"], pq, 0, None, sos)
        res.transitions += 1
        res.traces += 1
        if not ok:
            return False
        st = st0
        n4 = None
        if not seq:
            n4 = judge(pp, st, "fresh part (sound_off keys of the note dictionaries: %r)" % ([so for *_, so in notes5],))
        for j, op in enumerate(seq):
            if len(res.violations) > nv:
                return False
            ctx = "fresh part + %s" % " + ".join(repr(o) for o in seq[:j + 1])
            res.transitions += 1
            try:
                S.apply_real(pp, op)
            except Exception as e:  # noqa
                if op[0] == "thr":
                    res.fail("assignment-never-fails", kind="exception", where=innermost_partitura_frame(e), observed=exc_text(e), detail=ctx)
                else:
                    flags["raised"] += 1  # in-place edits are not judged by this property
                return False
            st = S.apply_model(st, op)
            if op[0] == "thr":
                n4 = judge(pp, st, ctx)
        if len(res.violations) > nv:
            return False
        if n4 is not None:
            res.transitions += check_note_array(res, pp, n4, pq, "fresh part + %r" % (seq,), rebuild=not seq,
                                                vels=[n["vel"] for n in st["notes"]])
        return len(res.violations) == nv

    pre = case["pre"]
    st = st0
    for op in pre:
        st = S.apply_model(st, op)
    done = False
    if not pre:
        done = not run([])
    for t in S.THR:
        if done:
            break
        done = not run(pre + [["thr", t]])
    for op in S.ops_for(st):
        if done:
            break
        for t in S.THR:
            if not run(pre + [op, ["thr", t]]) and res.violations:
                done = True
                break
    res.nontrivial = bool(notes)
    res.outcome = "stale d%d n%d nopedal=%d pedal=%d ext=%d%s" % (
        len(pre) + 1, len(notes), flags["nopedal"] > 0, flags["pedal"] > 0, flags["ext"] > 0, " edit-raised" if flags["raised"] else "")
    return res


def eval_case(case):
    k = case["k"]
    if k == "edit":
        return eval_edit(case)
    if k == "stale":
        return eval_stale(case)
    if k == "pedal":
        return eval_pedal(case)
    if k == "tv":
        return eval_tv(case)
    if k == "hist":
        return eval_hist(case)
    if k == "tracks":
        return eval_tracks(case)
    raise ValueError(k)


TRIGGERS = {}

if __name__ == "__main__":
    import checks.c14 as _m

    run_check(_m)
