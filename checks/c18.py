"""C18 - decoding an encoded performance reproduces the performance.

Bounded-exhaustive enumeration of (single-part score, note-for-note performance, alignment) triples; every
triple is pushed through the real to_matched_score / get_matched_notes / encode_performance /
decode_performance (five tempo normalisations x two tempo-curve methods) / get_time_maps_from_alignment and
compared with reference values computed from the case description (DESIGN section 4, C18).
"""
import copy
import itertools

import numpy as np

from mc.core import CaseResult, Space, run_check, block_of, innermost_partitura_frame, exc_text, Hang
from mc import c18_model as M

PID = "C18"
RULE = (
    "a case is one (score, performance, alignment, input form) tuple from a named sub-space, evaluated under all "
    "5 normalisations x 2 tempo-curve methods and both remove_ornaments values; cases are distinct by construction; "
    "non-trivial = at least two matched notes on at least two score onsets"
)
ASSUMPTIONS = [
    "performances are generated with strictly increasing mean performed onset per score onset (positive inter-onset "
    "intervals) and durations >= 80 ms, i.e. above the 75 ms floor that to_matched_score applies; the floor itself is "
    "probed by the sub-space short-durations",
    "'up to one common shift': the differences decoded onset - performed onset of all matched notes agree within "
    "2e-5 s; durations within 1e-5 s + 1e-5 relative; velocities exactly (single-precision parameters, times < 10 s)",
    "matched table: rows = the alignment's matches with both ids present, key (score onset, pitch) non-decreasing; "
    "the order of rows with equal key is free; columns onset/duration (beats, float32, 4 ulp), pitch, p_onset, "
    "p_duration (float32 of the performed note), velocity",
    "'ordered by score onset then pitch': the pitch is the score note's pitch (the table's pitch column; decode_performance "
    "pairs the rows with the score in that order); the performed pitch of a matched note is free (sub-spaces wrong-notes*: "
    "matched wrong notes) and influences neither the order nor any decoded value",
    "get_matched_notes is compared as the sequence of (score row, performance row) index pairs of those matches",
    "time maps: at every matched score onset u with mean performed onset m (over the matched notes at u; with "
    "remove_ornaments=True over the matched notes with a score duration), s->p(u)=m and p->s(m)=u, and both maps are "
    "linear between neighbouring knots (mid-points), within 1e-5 relative; extrapolation is not compared; onsets "
    "where remove_ornaments leaves no note must not disturb the other knots",
    "known deviation (proposed known finding): a matched grace note is decoded with duration exactly 0.0 instead of its "
    "performed duration; it is reported (once per case) in the sub-spaces performances and alignments-two-changes; in the "
    "other sub-spaces a decoded grace duration of exactly 0.0 is accepted besides the performed duration, any other "
    "value is a violation everywhere",
    "two notes with the same score onset and pitch (unison in two voices) are generated only in the sub-spaces unison "
    "(Part input) and unison-forms (Part, Score+Performance, [Part], note arrays; written duration of the doubling note "
    "shorter/equal/longer); the order of their two rows is free, but each note must still come back with its own "
    "performed duration, whichever object the same score is handed over as",
    "beat positions of the reference: (division - pickup) * beats per division; one time signature and one divisions "
    "value per score (beat map details are C02's subject)",
    "large scales (sub-spaces magnitude, long-scores): divisions are int32 in note arrays, so score positions stay below "
    "2**31 divisions; beat positions and performed times are float32 in the note arrays, the matched table and the "
    "parameters, so for performed times T > 10 s the common-shift tolerance grows by 8 ulp_float32(T) (performed onset, "
    "timing parameter of up to 3 T and the accumulated beat periods are each rounded to single precision) and for score "
    "positions B > 16 beats the duration tolerance grows by 2 ulp_float32(B) x performed/score duration (the table's "
    "score duration is (onset + duration) - onset in float32); the scale factor multiplies divisions per quarter and all "
    "divisions alike, so beats and the expected values do not change with it",
    "trusted: numpy, scipy.interpolate.interp1d, PerformedPart construction without pedal (sound_off == note_off)",
]
CHUNK = 6

NORMS = {
    "beat_period": [],
    "beat_period_log": ["beat_period_log"],
    "beat_period_ratio": ["beat_period_ratio", "beat_period_mean"],
    "beat_period_ratio_log": ["beat_period_ratio_log", "beat_period_mean"],
    "beat_period_standardized": ["beat_period_standardized", "beat_period_mean", "beat_period_std"],
}
NORM_NAMES = list(NORMS)
METHODS = ["average", "derivative"]
BASE_COLS = ["beat_period", "velocity", "timing", "articulation_log"]
ALL_CONFIGS = [(n, m) for n in NORM_NAMES for m in METHODS]

TOL_ON = 2e-5
TOL_DUR_ABS = 1e-5
TOL_DUR_REL = 1e-5
TOL_MAP = 1e-5
DUR_FLOOR = 60 / 200 * 0.25


def _close_f4(obs, ref, scale=None, ulps=4):
    """obs is a float32 value; ref an exact/float64 reference"""
    r = np.float32(ref)
    s = max(abs(float(r)), abs(float(scale)) if scale is not None else 0.0, 1e-30)
    return abs(float(obs) - float(r)) <= ulps * float(np.spacing(np.float32(s)))


# ---------------------------------------------------------------------------------------------
# evaluation


def _inputs(case):
    """real objects in the requested input form: (score-like for encode, performance-like, Part for decode, arrays)"""
    import partitura.score as S
    import partitura.performance as P

    part = M.build_part(case["score"])
    ppart = M.build_ppart(case["perf"])
    form = case.get("form", "part")
    if form == "part":
        return part, ppart, part, part, ppart
    if form == "score":
        sc = S.Score([part], id="s")
        pf = P.Performance(ppart, id="pf")
        return sc, pf, sc, sc, pf
    if form == "list":
        return [part], ppart, part, [part], ppart
    if form == "arrays":
        return part.note_array(), ppart.note_array(), part, part.note_array(), ppart.note_array()
    raise ValueError(form)


def eval_case(case):
    from partitura.musicanalysis import performance_codec as pc

    res = CaseResult(states=0, transitions=0, traces=0)
    sc, perf, align = case["score"], case["perf"], case["align"]
    sref = M.ref_score(sc)
    pref = M.ref_perf(perf)
    matches = M.ref_matches(sref, pref, align)
    s2p_id = dict(matches)
    exp_sorted = sorted(matches, key=lambda mp: (sref[mp[0]]["div"], sref[mp[0]]["pitch"]))
    exp_keys = [(sref[s]["div"], sref[s]["pitch"]) for s, _ in exp_sorted]
    ctx = "tag=%s form=%s" % (case.get("tag", ""), case.get("form", "part"))

    enc_score, enc_perf, dec_score, tm_score, tm_perf = _inputs(case)
    configs = [tuple(c) for c in case.get("configs", ALL_CONFIGS)]
    tol_on, dur_ulp = _scaled_tolerances(sref, pref)

    # ---- matched-note table -------------------------------------------------------------------
    res.transitions += 1
    res.states += 1
    ids_tab = None
    try:
        tab, ids_tab = pc.to_matched_score(enc_score, enc_perf, copy.deepcopy(align))
    except Hang:
        raise
    except Exception as ex:
        res.fail("matched-table", kind="exception", where=innermost_partitura_frame(ex), observed=exc_text(ex), detail=ctx)
    if ids_tab is not None:
        ids_tab = [str(x) for x in ids_tab]
        _check_table(res, tab, ids_tab, sref, pref, s2p_id, exp_sorted, exp_keys, ctx)

    # ---- matched index pairs -------------------------------------------------------------------
    res.transitions += 1
    try:
        import partitura.utils.music as UM

        sna = UM.ensure_notearray(tm_score)
        pna = UM.ensure_notearray(tm_perf)
        midx = pc.get_matched_notes(sna, pna, copy.deepcopy(align))
        got = [(str(sna["id"][int(a)]), str(pna["id"][int(b)])) for a, b in np.asarray(midx).reshape(-1, 2)]
        if got != matches:
            res.fail("matched-index-pairs", expected=matches, observed=got, where="get_matched_notes", detail=ctx)
    except Hang:
        raise
    except Exception as ex:
        res.fail("matched-index-pairs", kind="exception", where=innermost_partitura_frame(ex), observed=exc_text(ex), detail=ctx)

    # ---- encode / decode under every configuration ----------------------------------------------
    worst_on = worst_du = 0.0
    grace_zero = {}
    for norm, method in configs:
        cctx = "%s norm=%s method=%s" % (ctx, norm, method)
        res.states += 1
        res.traces += 1
        res.transitions += 1
        try:
            out = pc.encode_performance(enc_score, enc_perf, copy.deepcopy(align), beat_normalization=norm,
                                        tempo_smooth=method)
            params, ids = out[0], [str(x) for x in out[1]]
        except Hang:
            raise
        except Exception as ex:
            res.fail("encode", kind="exception", where=innermost_partitura_frame(ex), observed=exc_text(ex), detail=cctx)
            continue
        want_cols = BASE_COLS + NORMS[norm]
        got_cols = list(params.dtype.names or [])
        if got_cols != want_cols:
            res.fail("parameter-columns", expected=want_cols, observed=got_cols, where="encode_performance", detail=cctx)
            continue
        if len(params) != len(matches) or sorted(ids) != sorted(s for s, _ in matches):
            res.fail("parameter-rows", expected=[s for s, _ in exp_sorted], observed=ids, where="encode_performance", detail=cctx)
            continue
        keys = [(sref[s]["div"], sref[s]["pitch"]) for s in ids]
        if keys != exp_keys:
            res.fail("parameter-row-order", expected=[s for s, _ in exp_sorted], observed=ids, where="encode_performance", detail=cctx)
            continue
        res.transitions += 1
        try:
            dp = pc.decode_performance(dec_score, params, snote_ids=list(out[1]), beat_normalization=norm)
        except Hang:
            raise
        except Exception as ex:
            res.fail("decode", kind="exception", where=innermost_partitura_frame(ex), observed=exc_text(ex), detail=cctx)
            continue
        dn = list(dp.notes)
        dids = [str(n["id"]) for n in dn]
        if sorted(dids) != sorted(ids):
            res.fail("decoded-notes", expected=ids, observed=dids, where="decode_performance", detail=cctx)
            continue
        shifts = []
        for n in dn:
            sid = str(n["id"])
            p = pref[s2p_id[sid]]
            on, off = float(n["note_on"]), float(n["note_off"])
            shifts.append(on - p["on"])
            du = off - on
            if sref[sid]["grace"]:
                if not abs(du - p["dur"]) <= TOL_DUR_ABS + TOL_DUR_REL * p["dur"]:
                    if du == 0.0:
                        # the designed behaviour (articulation ratio of grace notes fixed at 1): reported once per
                        # case, after everything else, and only in the sub-spaces that set "kf", so that the known
                        # finding cannot crowd out other violations (the runner keeps at most 20000)
                        grace_zero.setdefault(sid, (p["dur"], cctx))
                    else:
                        res.fail("decoded-duration-grace", expected=p["dur"], observed=du, where="decode_performance",
                                 detail="%s note=%s (grace note)" % (cctx, sid))
            else:
                err = abs(du - p["dur"])
                if not err <= TOL_DUR_ABS + TOL_DUR_REL * p["dur"] + dur_ulp * p["dur"] / float(sref[sid]["dur"]):
                    clause = "decoded-duration-below-floor" if p["dur"] < DUR_FLOOR else "decoded-duration"
                    res.fail(clause, expected=p["dur"], observed=du, where="decode_performance",
                             detail="%s note=%s" % (cctx, sid))
                else:
                    worst_du = max(worst_du, err)
            if int(n["velocity"]) != p["vel"]:
                res.fail("decoded-velocity", expected=p["vel"], observed=int(n["velocity"]), where="decode_performance",
                         detail="%s note=%s" % (cctx, sid))
            so = n["sound_off"] if "sound_off" in n.keys() else None
            if so is not None and not (abs(float(so) - off) <= 1e-12 or float(so) != float(so) and off != off):
                res.fail("decoded-duration", expected=off, observed=float(so), where="decode_performance",
                         detail="%s note=%s sound_off differs from note_off" % (cctx, sid))
        spread = max(shifts) - min(shifts) if shifts else 0.0
        if not spread <= tol_on:
            exp = [round(pref[s2p_id[str(n["id"])]]["on"] - min(pref[s2p_id[str(m["id"])]]["on"] for m in dn), 6) for n in dn]
            res.fail("decoded-onset", expected=dict(zip(dids, exp)),
                     observed=dict(zip(dids, [float(n["note_on"]) for n in dn])), where="decode_performance",
                     detail="%s (onsets must agree up to one common shift)" % cctx)
        else:
            worst_on = max(worst_on, spread)

    # ---- time maps -------------------------------------------------------------------------------
    for ro in (True, False):
        res.states += 1
        res.traces += 1
        _check_time_maps(res, pc, tm_perf, tm_score, align, ro, sref, pref, matches, ctx)

    for sid in sorted(grace_zero)[:1] if case.get("kf") else []:
        res.fail("decoded-duration-grace", expected=grace_zero[sid][0], observed=0.0, where="decode_performance",
                 detail="%s note=%s (grace note)" % (grace_zero[sid][1], sid))

    uo = {sref[s]["div"] for s, _ in matches}
    ng = sum(1 for s, _ in matches if sref[s]["grace"])
    chords = len(matches) - len(uo)
    res.nontrivial = len(matches) >= 2 and len(uo) >= 2
    res.outcome = "matched=%d onsets=%d grace=%d%s unmatched-score=%d extra-perf=%d viol=%s" % (
        len(matches), len(uo), ng, "(dur0)" if grace_zero else "", len(sref) - len(matches), len(pref) - len(matches),
        ",".join(sorted({v["clause"] for v in res.violations})))
    res.extra = {"configurations": len(configs)}
    res.payload = (worst_on, worst_du)
    return res


def _scaled_tolerances(sref, pref):
    """(onset tolerance, extra duration tolerance per unit of performed/score duration) for this case: the constants
    TOL_ON / TOL_DUR_* hold for performed times < 10 s and score positions < 16 beats; beyond, single-precision
    rounding of the times themselves is larger than the constants (see ASSUMPTIONS)"""
    t_max = max([abs(p["on"]) + p["dur"] for p in pref.values()] + [0.0])
    b_max = max([abs(float(s["beat"])) + float(s["dur"]) for s in sref.values()] + [0.0])
    tol_on = TOL_ON
    dur_ulp = 0.0
    if t_max > 10.0:
        tol_on += 8 * float(np.spacing(np.float32(t_max)))
    if b_max > 16.0:
        dur_ulp = 2 * float(np.spacing(np.float32(b_max)))
    return tol_on, dur_ulp


def _check_table(res, tab, ids, sref, pref, s2p_id, exp_sorted, exp_keys, ctx):
    want = ["onset", "duration", "pitch", "p_onset", "p_duration", "velocity"]
    where = "to_matched_score"
    if list(tab.dtype.names or []) != want:
        res.fail("matched-table", expected=want, observed=list(tab.dtype.names or []), where=where, detail=ctx)
        return
    if len(tab) != len(ids) or sorted(ids) != sorted(s for s, _ in exp_sorted):
        res.fail("matched-table-rows", expected=[s for s, _ in exp_sorted], observed=ids, where=where, detail=ctx)
        return
    keys = [(sref[s]["div"], sref[s]["pitch"]) for s in ids]
    if keys != exp_keys:
        res.fail("matched-table-order", expected=[s for s, _ in exp_sorted], observed=ids, where=where, detail=ctx)
        return
    for i, sid in enumerate(ids):
        s = sref[sid]
        p = pref[s2p_id[sid]]
        row = tab[i]
        exp = dict(onset=float(s["beat"]), duration=float(s["dur"]), pitch=s["pitch"], p_onset=p["on"],
                   p_duration=p["dur"], velocity=p["vel"])
        ok = (_close_f4(row["onset"], exp["onset"]) and
              _close_f4(row["duration"], exp["duration"], scale=abs(exp["onset"]) + exp["duration"]) and
              int(row["pitch"]) == exp["pitch"] and _close_f4(row["p_onset"], exp["p_onset"]) and
              int(row["velocity"]) == exp["velocity"])
        if not ok:
            res.fail("matched-table-pairing", expected=exp, observed={k: row[k].item() for k in want}, where=where,
                     detail="%s row=%d score_id=%s" % (ctx, i, sid))
            return
        if not _close_f4(row["p_duration"], exp["p_duration"]):
            clause = "matched-table-duration-below-floor" if p["dur"] < DUR_FLOOR else "matched-table-pairing"
            res.fail(clause, expected=exp, observed={k: row[k].item() for k in want}, where=where,
                     detail="%s row=%d score_id=%s" % (ctx, i, sid))
            return


def _knots(sref, pref, matches, remove_ornaments):
    groups = {}
    for s, p in matches:
        if remove_ornaments and sref[s]["grace"]:
            continue
        groups.setdefault(sref[s]["beat"], []).append(pref[p]["on"])
    return [(float(u), sum(v) / len(v)) for u, v in sorted(groups.items())]


def _check_time_maps(res, pc, tm_perf, tm_score, align, ro, sref, pref, matches, ctx):
    where = "get_time_maps_from_alignment"
    kn = _knots(sref, pref, matches, ro)
    if not kn:
        return
    tctx = "%s remove_ornaments=%r" % (ctx, ro)
    res.transitions += 1
    try:
        p2s, s2p = pc.get_time_maps_from_alignment(tm_perf, tm_score, copy.deepcopy(align), remove_ornaments=ro)
        us = [u for u, _ in kn]
        ms = [m for _, m in kn]
        if len(kn) > 1:
            us += [(a + b) / 2 for a, b in zip(us[:len(kn) - 1], us[1:len(kn)])]
            ms += [(a + b) / 2 for a, b in zip(ms[:len(kn) - 1], ms[1:len(kn)])]
        res.transitions += 2
        got_m = np.asarray(s2p(np.array(us)), dtype=float).reshape(-1)
        got_u = np.asarray(p2s(np.array(ms)), dtype=float).reshape(-1)
    except Hang:
        raise
    except Exception as ex:
        res.fail("time-maps", kind="exception", where=innermost_partitura_frame(ex), observed=exc_text(ex), detail=tctx)
        return
    bad_sp = [i for i in range(len(us)) if not abs(got_m[i] - ms[i]) <= TOL_MAP * max(1.0, abs(ms[i]))]
    bad_ps = [i for i in range(len(us)) if not abs(got_u[i] - us[i]) <= TOL_MAP * max(1.0, abs(us[i]))]
    if bad_sp:
        res.fail("time-map-score-to-performance", expected=dict(beats=us, seconds=ms), observed=got_m.tolist(), where=where,
                 detail="%s (first %d points are the knots, the rest mid-points)" % (tctx, len(kn)))
    if bad_ps:
        res.fail("time-map-performance-to-score", expected=dict(seconds=ms, beats=us), observed=got_u.tolist(), where=where,
                 detail="%s (first %d points are the knots, the rest mid-points)" % (tctx, len(kn)))


# ---------------------------------------------------------------------------------------------
# sub-spaces

V2_ALL = [None] + [(pos, du, pi) for pos in range(4) for du in (1, 2, 4) for pi in (0, 1) if pos + du <= 4]
V2_CORE = [None, (1, 2, 1), (0, 4, 0)]
BPS_PATTERNS = [(500000,), (300000, 800000), (800000, 500000, 300000), (500000, 300000), (300000,), (800000, 300000, 500000)]
STYLES = ["m", "n", "s", "o"]
ORDERS = ["fwd", "rev", "odd"]
PORDERS = ["fwd", "rev", "rot"]


def _structures(G, kmax, v2_opts, max_notes, pickups=(0, 1), skip=None):
    """every well-formed combination of voice-1 rhythm x event kinds x voice 2 x grace x pickup"""
    for comp in M.compositions(G, kmax):
        for kinds in itertools.product("NCR", repeat=len(comp)):
            nsound = sum(1 for k in kinds if k != "R")
            if nsound == 0:
                continue
            graces = [None] + [(gi, pi) for gi in range(nsound) for pi in (0, 1)]
            for v2 in v2_opts:
                if v2 is not None and v2[0] + v2[1] > G:
                    continue
                for gr in graces:
                    for pk in pickups:
                        key = (comp, kinds, v2, gr, pk)
                        if skip is not None and skip(key):
                            continue
                        yield key


def _case_from_structure(i, key, form="part"):
    comp, kinds, v2, gr, pk = key
    meter = M.METER_NAMES[i % 3]
    sc = M.make_score(meter, pk, comp, "".join(kinds), v2, gr)
    if sc is None:
        return None
    bps = BPS_PATTERNS[(i // 3) % len(BPS_PATTERNS)]
    perf = M.make_perf(sc, bps, (0, 20000)[(i // 2) % 2], STYLES[(i // 5) % 4], 1 + (i * 11) % 127,
                       start_us=(250000, 1000000)[(i // 7) % 2], order=PORDERS[(i // 4) % 3])
    al = M.reorder(M.all_match(sc, perf), ORDERS[i % 3])
    return dict(tag="struct", score=sc, perf=perf, align=al, form=form)


def gen_structures(G, kmax, v2_opts, max_notes, skip=None):
    def gen():
        i = 0
        for key in _structures(G, kmax, v2_opts, max_notes, skip=skip):
            i += 1
            c = _case_from_structure(i, key)
            if c is None or len(c["score"]["notes"]) > max_notes:
                continue
            yield c
    return gen


def _core_key(key):
    comp, kinds, v2, gr, pk = key
    return v2 in V2_CORE and (gr is None or gr[1] == (gr[0] % 2))


REPR = [
    ("4/4", 0, (1, 1, 2), "NCN", (1, 2, 1), (2, 0)),
    ("6/8", 1, (2, 2), "CN", None, (0, 1)),
    ("2/4t", 0, (1, 2, 1), "NRC", (0, 4, 0), None),
    ("4/4", 1, (4,), "C", None, None),
    ("4/4", 0, (4,), "N", None, None),
    ("2/4t", 1, (1, 1, 2), "CCN", None, (1, 0)),
    ("6/8", 0, (3, 1), "NN", (1, 1, 1), (1, 1)),
    ("4/4", 0, (2, 1, 1), "NNN", (3, 1, 0), None),
    ("6/8", 0, (1, 3), "RC", (0, 2, 1), (0, 0)),
    ("2/4t", 0, (2, 2), "NN", (2, 2, 0), (1, 1)),
]


def repr_scores():
    return [M.make_score(*r) for r in REPR]


def gen_performances(scores, spreads=(0, 20000), styles=("n", "s", "o")):
    def gen():
        j = 0
        for si, sc in enumerate(scores):
            m = len(M.unique_onsets(sc))
            for bps in itertools.product(M.BP_US, repeat=max(m - 1, 1)):
                for sp in spreads:
                    for st in styles:
                        j += 1
                        perf = M.make_perf(sc, bps, sp, st, 1 + (j * 7) % 127, start_us=(0, 250000)[j % 2],
                                           order=PORDERS[j % 3])
                        yield dict(tag="perf s%d bps=%s spread=%d style=%s" % (si, "/".join(str(b // 1000) for b in bps), sp, st),
                                   score=sc, perf=perf, align=M.reorder(M.all_match(sc, perf), ORDERS[(j // 3) % 3]), form="part",
                                   kf=1)
    return gen


def gen_alignments(scores, orders=ORDERS):
    def gen():
        j = 0
        for si, sc in enumerate(scores):
            for pi, (bps, sp, st) in enumerate([((300000, 800000, 500000), 20000, "m"), ((500000,), 0, "n")]):
                perf0 = M.make_perf(sc, bps, sp, st, 20 + 40 * pi + si, order=PORDERS[(si + pi) % 3])
                for tag, perf, al in M.alignment_variants(sc, perf0):
                    for od in orders:
                        j += 1
                        yield dict(tag="align s%d p%d %s order=%s" % (si, pi, tag, od), score=sc, perf=perf,
                                   align=M.reorder(al, od), form="part")
    return gen


def gen_alignments_wide(max_notes):
    """every score of the core family x one performance (cycled) x every single alignment change; order cycled"""
    def gen():
        i = j = 0
        for key in _structures(4, 3, V2_CORE, max_notes, skip=lambda k: not _core_key(k)):
            i += 1
            c = _case_from_structure(i, key)
            if c is None or len(c["score"]["notes"]) > max_notes:
                continue
            sc = c["score"]
            perf0 = M.make_perf(sc, BPS_PATTERNS[i % len(BPS_PATTERNS)], (20000, 0)[i % 2], STYLES[i % 4], 1 + (i * 5) % 127)
            for tag, perf, al in M.alignment_variants(sc, perf0):
                if tag == "all-match":
                    continue
                j += 1
                yield dict(tag="alignw %d %s" % (i, tag), score=sc, perf=perf, align=M.reorder(al, ORDERS[j % 3]), form="part")
    return gen


def gen_two_changes(scores):
    """one deletion combined with one insertion / ornament / second deletion (all pairs of positions)"""
    def gen():
        for si, sc in enumerate(scores):
            perf0 = M.make_perf(sc, (800000, 300000), 20000, "m", 5 + si)
            base = M.all_match(sc, perf0)
            ids = [n[0] for n in sc["notes"]]
            for a, b in itertools.combinations(ids, 2):
                rest = [x for x in base if x["score_id"] not in (a, b)]
                if not rest:
                    continue
                perf = [r for r in perf0 if r[0] != "p_" + a]
                al = rest + [dict(label="deletion", score_id=a), dict(label="deletion", score_id=b),
                             dict(label="insertion", performance_id="p_" + b)]
                yield dict(tag="align2 s%d del:%s del+ins:%s" % (si, a, b), score=sc, perf=perf, align=al, form="part", kf=1)
                ex = ["x_orn", 86, 100000, 90000, 77]
                al2 = [dict(label="ornament", score_id=b, performance_id="x_orn")] + rest + [
                    dict(label="deletion", score_id=a), dict(label="match", score_id=b, performance_id="p_" + b)]
                yield dict(tag="align2 s%d del:%s orn:%s" % (si, a, b), score=sc, perf=[ex] + perf, align=al2, form="part", kf=1)
    return gen


def gen_forms(scores):
    def gen():
        for si, sc in enumerate(scores):
            for form in ("score", "list", "arrays"):
                for pi, (bps, sp, st) in enumerate([((300000, 800000, 500000), 20000, "m"), ((500000, 800000), 0, "o")]):
                    perf = M.make_perf(sc, bps, sp, st, 64 + si, order=PORDERS[pi])
                    al = M.all_match(sc, perf)
                    yield dict(tag="form s%d p%d" % (si, pi), score=sc, perf=perf, align=M.reorder(al, ORDERS[pi + 1]), form=form)
                    ids = [n[0] for n in sc["notes"]]
                    if len(ids) > 1:
                        sid = ids[len(ids) // 2]
                        al2 = [a for a in al if a["score_id"] != sid] + [dict(label="deletion", score_id=sid),
                                                                           dict(label="insertion", performance_id="p_" + sid)]
                        yield dict(tag="form s%d p%d del+ins:%s" % (si, pi, sid), score=sc, perf=perf, align=al2, form=form)
    return gen


def gen_short_durations(scores):
    """performed durations below the 75 ms floor of to_matched_score (one note at a time)"""
    def gen():
        for si, sc in enumerate(scores):
            perf0 = M.make_perf(sc, (500000, 300000), 0, "n", 30 + si)
            for k in range(len(perf0)):
                for du in (1000, 50000, 74000):
                    perf = [list(r) for r in perf0]
                    perf[k][3] = du
                    yield dict(tag="short s%d note=%s dur_us=%d" % (si, perf[k][0], du), score=sc, perf=perf,
                               align=M.all_match(sc, perf), form="part",
                               configs=[["beat_period", "average"], ["beat_period_ratio_log", "derivative"]])
    return gen


def gen_unison():
    """two voices share a pitch at one onset (equal score durations): the order of the two rows is free"""
    def gen():
        j = 0
        for pos in (0, 1, 2):
            for _ in (0,):
                for extra, longer, v2first in itertools.product((False, True), (0, 1), (False, True)):
                    notes = [["a0", "n", 0, 1, 67, 1], ["a1", "n", 1, 1, 60, 1], ["a2", "n", 2, 2, 72, 1]]
                    tgt = notes[pos]
                    uni = ["v0", "n", tgt[2], tgt[3] + longer, tgt[4], 2]
                    if v2first:
                        notes.insert(0, uni)
                    else:
                        notes.append(uni)
                    if extra:
                        notes.append(["v1", "n", 4, 1, 55, 2])
                    sc = {"meter": M.METER_NAMES[(j // 9) % 3], "pickup": 0, "notes": notes}
                    for od in ORDERS:
                        for po in PORDERS:
                            j += 1
                            perf = M.make_perf(sc, (300000, 800000), 20000, "m", 10 + j, order=po)
                            yield dict(tag="unison pos=%d longer=%d v2first=%d order=%s/%s" % (pos, longer, v2first, od, po),
                                       score=sc, perf=perf, align=M.reorder(M.all_match(sc, perf), od), form="part")
    return gen


UNISON_FORMS = ["part", "score", "list", "arrays"]


def gen_unison_forms():
    """unison with every duration relation, in every input form (the Score/list forms read the score through the
    part-list note array, the Part/array forms through the part's own note array)"""
    def gen():
        j = 0
        for pos, rel, v2first, extra in itertools.product((0, 1, 2), (-1, 0, 1), (False, True), (False, True)):
            notes = [["a0", "n", 0, 2, 67, 1], ["a1", "n", 2, 2, 60, 1], ["a2", "n", 4, 2, 72, 1]]
            tgt = notes[pos]
            uni = ["v0", "n", tgt[2], tgt[3] + rel, tgt[4], 2]
            if v2first:
                notes.insert(0, uni)
            else:
                notes.append(uni)
            if extra:
                notes.append(["a3", "n", 6, 1, 55, 1])
            for form in UNISON_FORMS:
                for od in ORDERS:
                    j += 1
                    sc = {"meter": M.METER_NAMES[(j // 5) % 3], "pickup": 0, "notes": notes}
                    perf = M.make_perf(sc, BPS_PATTERNS[j % len(BPS_PATTERNS)], (20000, 0)[(j // 3) % 2], STYLES[j % 4],
                                       10 + j, order=PORDERS[(j // 2) % 3])
                    yield dict(tag="unison-form pos=%d rel=%d v2first=%d extra=%d order=%s" % (pos, rel, v2first, extra, od),
                               score=sc, perf=perf, align=M.reorder(M.all_match(sc, perf), od), form=form)
    return gen


def _onset_groups(sc):
    """lists of note ids sharing a score onset (grace notes share the onset of their main note), in score-pitch order"""
    g = {}
    for n in sorted(sc["notes"], key=lambda n: (n[2], n[4], n[0])):
        g.setdefault(n[2], []).append(n[0])
    return [g[k] for k in sorted(g)]


def _repitch(perf, newpitch):
    """the performance with the performed pitch of the notes matched to the score ids in `newpitch` replaced"""
    return [[r[0], int(newpitch.get(r[0][2:], r[1]))] + list(r[2:]) for r in perf]


def pitch_maps(sc):
    """(tag, {score id: performed pitch}) - matched wrong notes: the aligner pairs a score note with a performed note of
    another pitch.  ALL non-identity permutations of the performed pitches inside one score onset; every single note
    played just outside the score's range or at / one semitone around the pitch of another note of its onset; global
    maps (transposition, inversion, one pitch for all)"""
    pit = {n[0]: n[4] for n in sc["notes"]}
    lo, hi = min(pit.values()), max(pit.values())
    groups = _onset_groups(sc)
    for g in groups:
        for perm in itertools.permutations(range(len(g))):
            if list(perm) == list(range(len(g))):
                continue
            yield "perm:%s:%s" % (g[0], "".join(map(str, perm))), {g[i]: pit[g[j]] for i, j in enumerate(perm)}
    for g in groups:
        for sid in g:
            vals = [lo - 1, hi + 1]
            for other in g:
                if other != sid:
                    vals += [pit[other] - 1, pit[other], pit[other] + 1]
            seen = []
            for v in vals:
                if v != pit[sid] and v not in seen:
                    seen.append(v)
                    yield "one:%s=%d" % (sid, v), {sid: v}
    yield "transpose+1", {k: v + 1 for k, v in pit.items()}
    yield "transpose+12", {k: v + 12 for k, v in pit.items()}
    yield "invert", {k: 127 - v for k, v in pit.items()}
    yield "all-60", {k: 60 for k in pit}


def gen_wrong_notes(scores):
    def gen():
        j = 0
        for si, sc in enumerate(scores):
            for pi, (bps, sp, st) in enumerate([((300000, 800000, 500000), 20000, "m"), ((500000, 300000), 0, "n")]):
                for tag, mp in pitch_maps(sc):
                    j += 1
                    perf = _repitch(M.make_perf(sc, bps, sp, st, 3 + (j * 13) % 120, order=PORDERS[j % 3]), mp)
                    yield dict(tag="wrong s%d p%d %s" % (si, pi, tag), score=sc, perf=perf,
                               align=M.reorder(M.all_match(sc, perf), ORDERS[(j // 3) % 3]), form=FORMS[(j // 2) % 4])
    return gen


def group_maps(sc):
    """performed pitches reversed / rotated by one inside EVERY score onset at once, and the inversion 127 - pitch"""
    pit = {n[0]: n[4] for n in sc["notes"]}
    groups = _onset_groups(sc)
    yield "reverse-in-onsets", {g[i]: pit[g[len(g) - 1 - i]] for g in groups for i in range(len(g))}
    if any(len(g) > 2 for g in groups):
        yield "rotate-in-onsets", {g[i]: pit[g[(i + 1) % len(g)]] for g in groups for i in range(len(g))}
    yield "invert", {k: 127 - v for k, v in pit.items()}


def gen_wrong_notes_wide(max_notes):
    """every score of the core family that has an onset with two or more notes x the maps of group_maps"""
    def gen():
        i = j = 0
        for key in _structures(4, 3, V2_CORE, max_notes, skip=lambda k: not _core_key(k)):
            i += 1
            c = _case_from_structure(i, key)
            if c is None or len(c["score"]["notes"]) > max_notes:
                continue
            sc = c["score"]
            if all(len(g) < 2 for g in _onset_groups(sc)):
                continue
            for tag, mp in group_maps(sc):
                j += 1
                yield dict(tag="wrongw %d %s" % (i, tag), score=sc, perf=_repitch(c["perf"], mp), align=c["align"],
                           form=FORMS[j % 4])
    return gen


FACTORS = [1, 480, 5040, 151200, "max"]
FACTORS_THOROUGH = [1, 480, 5040, 2 ** 16 + 1, 151200, 2 ** 24 + 1, "max"]
LEADS = [0, 1, 8, 70]
LEADS_THOROUGH = [0, 1, 8, 30, 70, 150]
FORMS = ["part", "score", "list", "arrays"]


def _factor(sc, f):
    """'max' = the largest whole number of divisions per grid unit that keeps the end of the last note (and of the
    last measure) below 2**31 divisions (note arrays hold onset_div / duration_div as int32)"""
    if f != "max":
        return f
    m = M.METERS[sc["meter"]]
    last = max(n[2] + n[3] for n in sc["notes"]) + m["mlen"]
    return (2 ** 31 - 1) // last


def gen_magnitude(scores, factors, leads, all_forms=False):
    """the small scores again with large times: divisions per grid unit x f, and a second copy of the notes `lead`
    measures later (so that small and large positions occur in one score)"""
    def gen():
        j = 0
        for si, sc0 in enumerate(scores):
            for lead in leads:
                for f in factors:
                    sc = M.tile(sc0, [lead] if lead else [])
                    ff = _factor(sc, f)
                    if ff > _factor(sc, "max"):
                        continue  # beyond the int32 columns of the note array
                    if ff != 1:
                        sc["factor"] = ff
                    for form in (FORMS if all_forms else [FORMS[j % 4]]):
                        j += 1
                        perf = M.make_perf(sc, BPS_PATTERNS[j % len(BPS_PATTERNS)], (20000, 0)[(j // 3) % 2], STYLES[j % 4],
                                           1 + (j * 11) % 127, start_us=(250000, 1000000)[(j // 7) % 2],
                                           order=PORDERS[(j // 2) % 3])
                        al = M.all_match(sc, perf)
                        tag = "magnitude s%d lead=%d factor=%s" % (si, lead, f)
                        yield dict(tag=tag, score=sc, perf=perf, align=M.reorder(al, ORDERS[j % 3]), form=form)
                        ids = [n[0] for n in sc["notes"]]
                        sid = ids[(j * 5) % len(ids)]
                        al2 = [a for a in al if a["score_id"] != sid] + [dict(label="deletion", score_id=sid),
                                                                           dict(label="insertion", performance_id="p_" + sid)]
                        if len(al2) > 2:
                            yield dict(tag=tag + " del+ins:%s" % sid, score=sc, perf=perf,
                                       align=M.reorder(al2, ORDERS[(j + 1) % 3]), form=form)
    return gen


def gen_long(scores, bars, factors, nconf=4):
    """long instances of a regular pattern: the small score repeated in every one of N measures"""
    def gen():
        j = 0
        for si, sc0 in enumerate(scores):
            for f in factors:
                for n in bars:
                    j += 1
                    sc = M.tile(sc0, list(range(1, n)), f)
                    perf = M.make_perf(sc, BPS_PATTERNS[j % len(BPS_PATTERNS)], (20000, 0)[(j // 3) % 2], STYLES[j % 4],
                                       1 + (j * 11) % 127, order=PORDERS[(j // 2) % 3])
                    al = M.reorder(M.all_match(sc, perf), ORDERS[j % 3])
                    cf = [list(ALL_CONFIGS[(3 * j + 7 * k) % len(ALL_CONFIGS)]) for k in range(nconf)]
                    yield dict(tag="long s%d measures=%d factor=%s" % (si, n, f), score=sc, perf=perf, align=al,
                               form=FORMS[(j // 2) % 4], configs=cf)
    return gen


def _block(gen, B, b):
    def it():
        for c in gen():
            if block_of(c, B) == b:
                yield c
    return it


def spaces(tier, seed):
    quick = tier == "quick"
    rs = repr_scores()
    sp = []
    if quick:
        sp.append(Space("structures-core", gen_structures(4, 3, V2_CORE, 5, skip=lambda k: not _core_key(k)), True,
                        "ALL scores: voice 1 = compositions of 4 grid units into <=3 parts x {note, 2-note chord, rest} per part; "
                        "voice 2 in {none, (pos 1,len 2), (pos 0,len 4)}; grace note none or before any sounding event; pickup "
                        "{no, 1 unit}; <=5 notes; meter {4/4, 6/8, 2/4 triplet grid}, tempo pattern, chord spread, duration style, "
                        "alignment order and performance order cycled with the index; all-match alignment"))
        B = 4
        sp.append(Space("structures-block",
                        _block(gen_structures(4, 3, V2_ALL, 6, skip=_core_key), B, seed % B), True,
                        "block %d of %d of the remaining scores of the thorough family (voice 2 at every position, length {1,2,4}, "
                        "pitch below/between; both grace pitches; <=6 notes)" % (seed % B, B)))
        sp.append(Space("performances", gen_performances(rs), True,
                        "10 representative scores x ALL tempo sequences {0.3,0.5,0.8 s/beat}^(score onsets-1) x chord spread {0,20 ms} "
                        "x duration style {nominal, 100 ms, 1.5 x nominal}; includes the dead-pan performances"))
        sp.append(Space("alignments", gen_alignments(rs), True,
                        "10 scores x 2 performances x ALL single changes (each note: deletion, deletion+insertion, ornament-only; "
                        "extra note early/mid/late as insertion at the end or front; ornament on each note; match with unknown score "
                        "id; match with unknown performance id) x alignment order {forward, reversed, odd-even}"))
        BW = 10
        sp.append(Space("alignments-wide-block", _block(gen_alignments_wide(5), BW, seed % BW), True,
                        "block %d of %d of: every score of structures-core x one performance x ALL single alignment changes "
                        "(alignment order cycled)" % (seed % BW, BW)))
    else:
        sp.append(Space("structures", gen_structures(4, 3, V2_ALL, 6), True,
                        "ALL scores: voice 1 = compositions of 4 grid units into <=3 parts x {note, chord, rest}; voice 2 none or at "
                        "every position with length {1,2,4} and pitch {below, between}; grace none or before any sounding event "
                        "(pitch above/below); pickup {no, 1 unit}; <=6 notes; meter/tempo/spread/style/orders cycled"))
        sp.append(Space("structures-5", gen_structures(5, 4, V2_CORE, 7, skip=lambda k: not _core_key(k)), True,
                        "compositions of 5 grid units into <=4 parts, voice 2 core options, <=7 notes"))
        sp.append(Space("performances", gen_performances(rs, spreads=(0, 20000, 35000), styles=("n", "s", "o", "m")), True,
                        "10 scores x ALL tempo sequences x spread {0,20,35 ms} x 4 duration styles"))
        sp.append(Space("alignments", gen_alignments(rs), True,
                        "10 scores x 2 performances x ALL single changes x 3 alignment orders (as quick)"))
        sp.append(Space("alignments-wide", gen_alignments_wide(5), True,
                        "every score of the core family (<=5 notes) x one performance x ALL single alignment changes "
                        "(alignment order cycled)"))
    sp.append(Space("alignments-two-changes", gen_two_changes(rs), True,
                    "10 scores x ALL pairs of notes: (deletion, deletion+insertion) and (deletion, ornament+match, ornament listed first)"))
    sp.append(Space("input-forms", gen_forms(rs), True,
                    "10 scores x {Score+Performance objects, [Part]+PerformedPart, note arrays} x 2 performances x {all-match, one "
                    "deletion+insertion}"))
    sp.append(Space("short-durations", gen_short_durations(rs[:4]), True,
                    "4 scores x each note x performed duration {1, 50, 74 ms} (below the 75 ms floor), 2 configurations"))
    sp.append(Space("unison", gen_unison(), True,
                    "unison of voice 2 with the 1st/2nd/3rd note (equal or longer score duration; voice 2 added to the "
                    "part before or after voice 1) x {with, without} an extra note x 3 alignment orders x 3 performance orders; meter cycled"))
    sp.append(Space("unison-forms", gen_unison_forms(), True,
                    "three notes in voice 1 (2 grid units each); voice 2 doubles the 1st/2nd/3rd of them (same onset and "
                    "pitch) with a written duration {shorter, equal, longer} x voice 2 added to the part {before, after} voice 1 x "
                    "{with, without} a fourth note x input form {Part, Score+Performance, [Part], note arrays} x 3 alignment "
                    "orders; meter, tempo pattern, chord spread, duration style and performance order cycled; all-match alignment"))
    sp.append(Space("wrong-notes", gen_wrong_notes(rs), True,
                    "matched wrong notes (the performed pitch of a matched note differs from the score pitch): 10 representative "
                    "scores x 2 performances x {ALL non-identity permutations of the performed pitches inside one score onset "
                    "(chords, voice 2, grace notes; up to 3 notes per onset); each single note played one semitone outside the "
                    "score's pitch range or at / one semitone below / above the pitch of each other note of its onset; all notes "
                    "transposed by +1 / +12; inverted (127 - pitch); all played as pitch 60}; all-match alignment; alignment "
                    "order, performance order and input form cycled"))
    WB = 3
    if quick:
        sp.append(Space("wrong-notes-wide-block", _block(gen_wrong_notes_wide(5), WB, seed % WB), True,
                        "block %d of %d of: every score of structures-core with two or more notes on one onset x performed pitches "
                        "{reversed inside every onset, rotated by one inside every onset (if an onset has 3+ notes), inverted "
                        "127 - pitch}; performance and alignment as in structures-core, input form cycled" % (seed % WB, WB)))
    else:
        sp.append(Space("wrong-notes-wide", gen_wrong_notes_wide(5), True,
                        "every score of structures-core with two or more notes on one onset x performed pitches {reversed inside "
                        "every onset, rotated by one inside every onset (if an onset has 3+ notes), inverted 127 - pitch}; "
                        "performance and alignment as in structures-core, input form cycled"))
    sp.append(Space("magnitude", gen_magnitude(rs, FACTORS if quick else FACTORS_THOROUGH, LEADS if quick else LEADS_THOROUGH,
                                               all_forms=not quick), True,
                    "10 representative scores x second copy of all notes {none, 1, 8, 70%s} measures later x divisions per grid "
                    "unit {1, 480, 5040 (= 10080 per quarter in 4/4 and 6/8), %s151200 (= 302400 per quarter), %sthe largest value "
                    "that keeps the end of the score below 2**31 divisions} (same beats, all divisions multiplied) x {all-match, one "
                    "deletion+insertion}; combinations that pass 2**31 divisions are left out; input form %s; tempo pattern, chord spread, duration style, orders cycled; score "
                    "positions reach 84.7e6 divisions resp. 2**31-1 and 420 beats, performed times 340 s" % (
                        ("", "", "", "cycled over {Part, Score+Performance, [Part], note arrays}") if quick else
                        (", 30, 150", "65537, ", "16777217, ", "ALL of {Part, Score+Performance, [Part], note arrays}"))))
    sp.append(Space("long-scores", gen_long(rs, (30, 100) if quick else (30, 100, 300), (1, 5040) if quick else (1, 480, 5040),
                                            nconf=4 if quick else 10), True,
                    "10 representative scores repeated in every one of N measures, N in {30, 100%s} (up to %d notes, %d score "
                    "onsets, %d beats) x divisions per grid unit {1, %s5040}; %s; input form, tempo pattern, spread, style, "
                    "orders cycled; all-match alignment" % (
                        ("", 600, 400, 600, "", "4 of the 10 configurations per case (cycled, every configuration occurs)")
                        if quick else (", 300", 1800, 1200, 1800, "480, ", "all 10 configurations"))))
    return sp


def _is_grace_zero(case, v):
    return v["clause"] == "decoded-duration-grace" and v["observed"] == 0.0


def _is_floor(case, v):
    return v["clause"] in ("decoded-duration-below-floor", "matched-table-duration-below-floor")


TRIGGERS = {
    "grace_note_decoded_with_zero_duration": _is_grace_zero,
    "performed_duration_below_75ms_floor": _is_floor,
}


if __name__ == "__main__":
    import checks.c18 as _m

    run_check(_m)
