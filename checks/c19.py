"""C19 - MEI and Humdrum **kern files load to the notes their notation denotes; export -> load keeps
every note's onset, duration, pitch and staff; load_score picks the reader from the extension.

Bounded-exhaustive: abstract scores (mc/c19_model.py) are enumerated completely inside named
sub-spaces, serialised by two small independent writers (MEI text, kern text), loaded with the real
readers, and the loaded Score is compared with the reference reading computed from the abstract
score in exact Fractions of a quarter note.
"""
import contextlib
import io
import itertools
import os
import shutil
import tempfile
from fractions import Fraction as F
from math import gcd

from mc.core import CaseResult, Space, run_check, block_of, innermost_partitura_frame, exc_text, Hang
from mc import c19_model as M

PID = "C19"
RULE = (
    "every case is one abstract score (or one part for the export->load clauses) of a named sub-space that is "
    "enumerated completely; the document text is produced by the check's own MEI/kern writer and read by the real "
    "loader; non-trivial = the loaded score contains at least one note"
)
ASSUMPTIONS = [
    "lxml's XML parser and numpy's text reader are trusted; the reference reading is mc/c19_model.py (value, dots, "
    "tuplet ratio; position = sum of the preceding durations of the layer/spine inside the bar grid)",
    "MEI @staff (cross-staff notation): the staff of a note/rest/chord is its own @staff when written, else the enclosing <staff>; "
    "for a member of a chord: the @staff of the <note>, else the @staff of the <chord>, else the enclosing <staff> (the statement on "
    "the more specific element counts; this is also how partitura's own writer encodes a chord split between two staves)",
    "MEI: every staffDef is a part, staff number = staff@n, voice = layer@n (compared exactly); kern: only the "
    "partition of notes into voices is compared (voice numbers are the reader's choice), parts may come in spine "
    "order or reversed",
    "staff numbers: every positive integer written in *staffN / staffDef@n / staff@n is the staff number of the notes (neither "
    "format nor reader documents an upper limit; the staff-number spaces go up to 1001 and to 40 spines/staves); the voices of a "
    "kern part are compared as a partition (multiset of voice contents), which is the same as searching a bijection of voice numbers",
    "alter None and 0 are the same spelling; a key mode is compared only when the document declares one (kern never)",
    "measure starts: every encoded barline/measure element must start a measure; a measure at the very beginning "
    "(music before the first kern barline) and an empty one at the final kern barline are accepted, not required",
    "kern ties between single notes are in kern-ties; ties touching a chord token (documented as unsupported in the "
    "reader) and files where only some spines share a *part/*I interpretation are separate sub-spaces whose "
    "failures are proposed as known findings; MEI ties are <tie startid endid> elements; MEI documents carry "
    "xml:id on every element (the reader requires them); MEI repeat barlines are well formed (alternating, closed)",
    "the note-array clause compares (onset_quarter, duration_quarter, pitch) up to one common onset shift per part "
    "(a short first bar is a pickup for the quarter map) within float32 precision; everything else is exact",
    "the kern writer cannot express grace notes (it merges them into the token of the main note): grace notes are "
    "only round-tripped through MEI",
    "export->load: parts have voice numbers that are not shared between staves (in the staffmove spaces a voice may "
    "sit on another staff in another measure, or have single notes / single members of a chord on the other staff), gap-free voices, equal-duration chords, Tuplet "
    "objects for tuplet groups and symbolic durations on every note (what the two writers can express); the "
    "comparison is per note object (onset, duration in quarters, MIDI pitch, staff), ties not merged",
    "export->load, note values left to the library: a note/chord/rest without symbolic_duration is exportable when its "
    "numeric duration is one note value (type + 0..3 dots; GenericNote.symbolic_duration documents the estimate as "
    "consistent with the numeric duration); save_kern also accepts a voice that starts after / stops before the barline "
    "(it calls fill_rests) when each gap is one note value - gaps needing two tied values are written as one wrong rest "
    "(estimate_symbolic_duration refuses composite values) and are kept outside the quantifier; save_mei has no rest "
    "filling, so gapped voices are not exportable to MEI",
]
CHUNK = 8  # the kern writer needs 0.1-0.3 s per part: small work items keep all workers busy in the small kern spaces

# ---------------------------------------------------------------------------------------------
# alphabets

PITCHES = [("C", None, 4), ("F", 1, 4), ("B", -1, 3), ("E", 0, 5), ("G", None, 2), ("D", None, 6), ("A", 2, 3), ("C", -2, 5)]
CHORDS = [
    [("C", None, 4), ("E", None, 4)],
    [("B", -1, 3), ("F", 1, 4)],
    [("G", None, 2), ("D", None, 3), ("B", 0, 3)],
]


def lf(kind, v, d=0, i=0, **kw):
    """leaf event number i of a sequence (the index only selects the pitch, deterministically)"""
    e = {"k": kind, "v": v, "d": d}
    if kind in ("n", "g"):
        e["p"] = [list(PITCHES[i % len(PITCHES)])]
    elif kind == "c":
        e["p"] = [list(p) for p in CHORDS[i % len(CHORDS)]]
    e.update(kw)
    return e


def reindex(evs, start=0):
    """give the leaves of a sequence distinct pitches by position (fresh copies)"""
    out = []
    i = start

    def rec(es):
        nonlocal i
        res = []
        for e in es:
            if e["k"] in ("tup", "beam"):
                res.append(dict(e, ev=rec(e["ev"])))
            else:
                e2 = dict(e)
                if e["k"] in ("n", "g") and not e.get("keep"):
                    e2["p"] = [list(PITCHES[i % len(PITCHES)])]
                elif e["k"] == "c" and not e.get("keep"):
                    e2["p"] = [list(p) for p in CHORDS[i % len(CHORDS)]]
                e2.pop("keep", None)
                i += 1
                res.append(e2)
        return res

    out = rec(evs)
    return out


def mei_doc(measures_per_layer, meter=(4, 4), key=(0, None), clef=("G", 2), style=None, nm=None):
    """one staff, layers given as lists of measures"""
    nm = nm or len(measures_per_layer[0])
    return {"meter": list(meter), "key": list(key), "nm": nm,
            "staves": [{"n": 1, "clef": list(clef),
                        "layers": [{"n": i + 1, "m": ms} for i, ms in enumerate(measures_per_layer)]}],
            "mei": style or {}}


def kern_doc(spine_measures, meter=(4, 4), key=(0, None), style=None, staffs=None, clefs=None, parts=None, splits=None):
    nm = len(spine_measures[0])
    sp = []
    for i, ms in enumerate(spine_measures):
        d = {"staff": (staffs[i] if staffs else None), "clef": (list(clefs[i]) if clefs and clefs[i] else None),
             "part": (parts[i] if parts else str(i + 1)), "m": ms}
        if splits and splits[i]:
            d["split"] = splits[i]
        sp.append(d)
    return {"meter": list(meter), "key": [key[0], None], "nm": nm, "spines": sp, "kern": style or {}}


VALUES = [0, 1, 2, 4, 8, 16]  # 0 = breve
DOTS = [0, 1, 2]


def seqs(alphabet, n):
    return itertools.product(alphabet, repeat=n)


def fillings(meter, fmt):
    """a few complete fillings of one measure in the given meter"""
    m = tuple(meter)
    if m == (4, 4):
        fs = [[lf("n", 1)], [lf("n", 2), lf("n", 2)], [lf("n", 4), lf("r", 4), lf("c", 2)],
              [lf("n", 2, 1), lf("n", 4)], [lf("n", 8), lf("n", 8), lf("n", 4), lf("r", 2)]]
        sp = [lf("s", 4), lf("n", 4), lf("n", 2)]
    elif m == (3, 4):
        fs = [[lf("n", 2, 1)], [lf("n", 4), lf("n", 4), lf("n", 4)], [lf("r", 4), lf("c", 2)],
              [lf("n", 4, 1), lf("n", 8), lf("n", 4)], [lf("n", 2), lf("r", 8), lf("n", 8)]]
        sp = [lf("s", 2), lf("n", 4)]
    elif m == (6, 8):
        fs = [[lf("n", 2, 1)], [lf("n", 4, 1), lf("n", 4, 1)], [lf("n", 8), lf("n", 8), lf("n", 8), lf("r", 4, 1)],
              [lf("c", 4), lf("n", 8), lf("n", 4, 1)], [lf("r", 4, 1), lf("n", 4), lf("n", 8)]]
        sp = [lf("s", 4, 1), lf("n", 4, 1)]
    elif m == (2, 2):
        fs = [[lf("n", 1)], [lf("n", 2), lf("n", 2)], [lf("n", 4), lf("r", 4), lf("c", 2)],
              [lf("n", 2, 1), lf("n", 4)], [lf("r", 2), lf("n", 4), lf("n", 4)]]
        sp = [lf("s", 2), lf("n", 2)]
    else:
        raise ValueError(meter)
    if fmt == "mei":
        fs = fs + [[{"k": "m"}], sp]
    return fs


# ---------------------------------------------------------------------------------------------
# sub-spaces: loading


def g_rhythm(fmt, tier, seed):
    """one staff/spine, one layer, one measure: every sequence of <=2 events over the full alphabet and every
    sequence of 3 events over a reduced alphabet"""
    kinds = ["n", "c", "r"] + (["s"] if fmt == "mei" else [])
    values = VALUES + ([32] if tier == "thorough" else [])
    alpha = [(k, v, d) for k in kinds for v in values for d in DOTS]
    small = [(k, v, d) for k in (["n", "r", "s"] if fmt == "mei" else ["n", "r", "c"]) for v in (4, 8, 16) for d in (0, 1)]
    for n in (1, 2):
        for s in seqs(alpha, n):
            evs = [lf(k, v, d, i) for i, (k, v, d) in enumerate(s)]
            yield _case(fmt, evs)
    # triple dots: every kind and value alone and followed by a quarter note
    for k in kinds:
        for v in values:
            yield _case(fmt, [lf(k, v, 3, 0)])
            yield _case(fmt, [lf(k, v, 3, 0), lf("n", 4, 0, 1)])
    nb = 1 if tier == "thorough" else 6
    for s in seqs(small, 3):
        evs = [lf(k, v, d, i) for i, (k, v, d) in enumerate(s)]
        c = _case(fmt, evs)
        if nb == 1 or block_of(c, nb) == seed % nb:
            yield c
    if fmt == "mei":
        # declared divisions: staffDef@ppq and dur.ppq on every element
        for n in (1, 2):
            for s in seqs(alpha, n):
                evs = [lf(k, v, d, i) for i, (k, v, d) in enumerate(s)]
                ppq = 1
                for e in evs:
                    ppq = _lcm(ppq, M.leaf_dur(dict(e, k="n")).denominator)
                c = {"f": "mei", "doc": mei_doc([[evs]], style={"ppq": ppq * 2, "dots0": True})}
                if tier == "thorough" or n == 1 or block_of(c, 4) == seed % 4:
                    yield c


def _lcm(a, b):
    return a * b // gcd(a, b)


def _case(fmt, evs, **kw):
    if fmt == "mei":
        return {"f": "mei", "doc": mei_doc([[evs]], **kw)}
    return {"f": "kern", "doc": kern_doc([[evs]], **kw)}


TUPLETS = [(3, 2, 8), (3, 2, 4), (3, 2, 16), (3, 2, 2), (5, 4, 16), (6, 4, 16), (7, 4, 16), (3, 2, 1)]


def g_tuplet(fmt, tier, seed):
    """[pre] + tuplet group + [post]: every member pattern, every wrapper (beam inside/outside, MEI), every pre/post"""
    pres = [None, ("n", 4, 0), ("n", 8, 1), ("r", 8, 0)]
    posts = [None, ("n", 4, 0), ("n", 16, 0)]
    wraps = ["plain", "beam-in", "beam-out"] if fmt == "mei" else ["plain", "beam-in"]
    for num, nb, v in TUPLETS:
        if num == 3:
            pats = [list(p) for p in seqs(["n", "r", "c"], 3)]
            pats = [[(k, v, 0) for k in p] for p in pats]
            # mixed values inside the group: long+short, short+long, dotted+short+..., one doubly long member
            pats.append([("n", v // 2 if v > 1 else 0, 0), ("n", v, 0)] if v >= 2 else [("n", v, 0)] * 3)
            pats.append([("n", v, 0), ("r", v // 2 if v > 1 else 0, 0)] if v >= 2 else [("r", v, 0)] * 3)
            pats.append([("n", v, 1), ("n", v * 2, 0), ("c", v, 0)])
            pats.append([("n", v * 2, 0), ("n", v * 2, 0), ("n", v, 0), ("r", v, 0)])
        else:
            pats = [[("n", v, 0)] * num]
            for i in range(num):
                p = [("n", v, 0)] * num
                p[i] = ("r", v, 0) if i % 2 == 0 else ("c", v, 0)
                pats.append(p)
        for pat in pats:
            if v * 2 > 32 and any(x[1] > 32 for x in pat):
                continue
            for wrap in wraps:
                if wrap != "plain" and v < 8:
                    continue  # beams need flags
                for pre in pres:
                    for post in posts:
                        evs = []
                        i = 0
                        if pre:
                            evs.append(lf(pre[0], pre[1], pre[2], i))
                            i += 1
                        members = []
                        for k, vv, d in pat:
                            members.append(lf(k, vv, d, i))
                            i += 1
                        tup = {"k": "tup", "num": num, "nb": nb, "ev": members}
                        if wrap == "beam-in":
                            tup["ev"] = [{"k": "beam", "ev": members}]
                            evs.append(tup)
                        elif wrap == "beam-out":
                            evs.append({"k": "beam", "ev": [tup]})
                        else:
                            evs.append(tup)
                        if post:
                            evs.append(lf(post[0], post[1], post[2], i))
                        # second measure: position bookkeeping after the group
                        c = _case2(fmt, [evs, [lf("n", 4, 0, 5)]])
                        yield c


def _case2(fmt, measures, **kw):
    if fmt == "mei":
        return {"f": "mei", "doc": mei_doc([measures], **kw)}
    return {"f": "kern", "doc": kern_doc([measures], **kw)}


ALTERS = [None, 0, 1, -1, 2, -2]


def g_pitch(fmt, tier, seed):
    """every step x alteration x octave as a single note and inside a chord; every way of writing the accidental"""
    accs = ["attr", "ges", "child", "childges"] if fmt == "mei" else [None]
    octs = range(0, 9) if tier == "thorough" else range(1, 8)
    for acc in accs:
        for o in octs:
            for a in ALTERS:
                evs = []
                for st in "CDEFGAB":
                    e = {"k": "n", "v": 4, "d": 0, "p": [[st, a, o]]}
                    if acc:
                        e["acc"] = acc
                    evs.append(e)
                ch = {"k": "c", "v": 4, "d": 0, "p": [["C", a, o], ["E", a, o], ["G", a, o], ["B", a, o]]}
                if acc:
                    ch["acc"] = acc
                evs.append(ch)
                yield _case(fmt, evs, meter=(4, 4))


METERS = [(4, 4), (3, 4), (6, 8), (2, 2)]


def g_mei_decl(tier, seed):
    """where meter, key and clef are declared (staffDef attributes / staffDef children / scoreDef attributes / scoreDef children),
    full product with key, mode, meter, clef, number of staves; second measure is a measure rest"""
    keys = [0, 2, -2, 7, -7] if tier == "quick" else list(range(-7, 8))
    modes = [None, "minor"] if tier == "quick" else [None, "major", "minor"]
    for fifths in keys:
        for mode in modes:
            for kd in ("staffdef-attr", "staffdef-child", "scoredef-attr", "scoredef-child"):
                for meter in METERS[:3] if tier == "quick" else METERS:
                    for md in ("staffdef-attr", "staffdef-child", "scoredef-attr", "scoredef-child"):
                        for clef in (("G", 2), ("F", 4), ("C", 3)):
                            for cd in ("attr", "child"):
                                for nst in (1, 2):
                                    fs = fillings(meter, "mei")
                                    staves = []
                                    for s in range(nst):
                                        staves.append({"n": s + 1, "clef": list(clef if s == 0 else ("F", 4)),
                                                       "layers": [{"n": 1, "m": [reindex(fs[1 + s], s), [{"k": "m"}]]}]})
                                    doc = {"meter": list(meter), "key": [fifths, mode], "nm": 2, "staves": staves,
                                           "mei": {"meter": md, "key": kd, "clef": cd,
                                                   "group": "nested" if (nst == 2 and cd == "child") else "flat",
                                                   "label": cd == "attr"}}
                                    c = {"f": "mei", "doc": doc}
                                    if tier == "thorough" or block_of(c, 2) == seed % 2 or (fifths == 2 and mode is None and clef == ("G", 2)):
                                        yield c


def g_mei_layout(tier, seed):
    """staves x layers x 2 measures, each layer-measure filled with every filling of the list (notes, chord, rests,
    measure rest, leading space); staff/layer numbers as encoded (also non-consecutive); flat or nested staffGrp"""
    meter = (4, 4)
    fs = fillings(meter, "mei")
    configs = [([1], [[1]]), ([1], [[1, 2]]), ([1, 2], [[1], [1]]), ([1, 2], [[1, 2], [3]]), ([2, 5], [[4], [2, 7]])]
    for staff_ns, layer_ns in configs:
        slots = sum(len(l) for l in layer_ns) * 2
        pool = list(range(len(fs))) if slots <= 4 else [1, 2, 5, 6]
        nb = 1 if (tier == "thorough" or slots <= 4) else 4
        for choice in itertools.product(pool, repeat=slots):
            it = iter(choice)
            staves = []
            pi = 0
            for sn, lns in zip(staff_ns, layer_ns):
                layers = []
                for ln in lns:
                    ms = []
                    for mi in range(2):
                        ms.append(reindex(fs[next(it)], pi))
                        pi += 2
                    layers.append({"n": ln, "m": ms})
                staves.append({"n": sn, "clef": ["G", 2] if sn == staff_ns[0] else ["F", 4], "layers": layers})
            doc = {"meter": list(meter), "key": [0, None], "nm": 2, "staves": staves,
                   "mei": {"group": "nested" if sum(choice) % 2 else "flat"}}
            c = {"f": "mei", "doc": doc}
            if nb == 1 or block_of(c, nb) == seed % nb:
                yield c
    # cross-staff notation: staff attribute on note / chord / rest
    for kind in ("n", "c", "r"):
        for pos in range(3):
            evs = [lf("n", 4, 0, 0), lf("n", 4, 0, 1), lf("n", 2, 0, 2)]
            evs[pos] = lf(kind, evs[pos]["v"], 0, pos, st=2)
            staves = [{"n": 1, "clef": ["G", 2], "layers": [{"n": 1, "m": [evs]}]},
                      {"n": 2, "clef": ["F", 4], "layers": [{"n": 1, "m": [[lf("n", 1, 0, 4)]]}]}]
            yield {"f": "mei", "doc": {"meter": [4, 4], "key": [0, None], "nm": 1, "staves": staves, "mei": {}}}


def g_mei_changes(tier, seed):
    """meter and/or key change before measure 2 or 3 (scoreDef inside the section, attributes or children), a
    measure rest after the change, a clef change inside a layer"""
    for m0 in METERS[:3]:
        for m1 in [None] + METERS[:3]:
            for k1 in [None, (3, None), (-1, "minor")]:
                if m1 is None and k1 is None:
                    continue
                for how in ("attr", "child"):
                    for at in (1, 2):
                        for nst, pat in ((1, 0), (2, 0), (1, 1), (2, 1)):
                            chg = {}
                            if m1:
                                chg["meter"] = list(m1)
                            if k1:
                                chg["key"] = list(k1)
                            staves = []
                            for s in range(nst):
                                ms = []
                                for mi in range(3):
                                    met = m1 if (m1 and mi >= at) else m0
                                    f = fillings(met, "mei")
                                    if pat == 0:
                                        # a measure rest after the change only
                                        mrest = (mi == at and s == 0) or (mi == 2 and s == 1)
                                    else:
                                        # measure rests on both sides of the change in the same staff
                                        mrest = (mi in (at - 1, at) and s == 0) or (mi in (0, 2) and s == 1)
                                    ms.append([{"k": "m"}] if mrest else reindex(f[(mi + s) % 5], mi))
                                staves.append({"n": s + 1, "clef": ["G", 2], "layers": [{"n": 1, "m": ms}]})
                            yield {"f": "mei", "doc": {"meter": list(m0), "key": [1, "major"], "nm": 3, "staves": staves,
                                                       "chg": {str(at): chg}, "mei": {"chg": how}}}
    for pos in range(4):
        for clef in (("F", 4), ("C", 3), ("G", 2)):
            for nst in (1, 2):
                evs = [lf("n", 4, 0, i) for i in range(4)]
                evs[pos]["clef"] = list(clef)
                staves = [{"n": s + 1, "clef": ["G", 2], "layers": [{"n": 1, "m": [[lf("n", 1, 0, 3)], evs if s == nst - 1 else [lf("n", 1, 0, 2)]]}]}
                          for s in range(nst)]
                yield {"f": "mei", "doc": {"meter": [4, 4], "key": [0, None], "nm": 2, "staves": staves, "mei": {}}}


TIE_EVENTS = ["C", "E", "CE", "r"]


def _tie_seq_cases(fmt):
    """4 events (2 per measure) from {C, E, chord CE, rest}; every subset of legal tie flags"""
    P = {"C": ["C", None, 4], "E": ["E", 1, 4]}
    for s in seqs(TIE_EVENTS, 4):
        slots = []  # (event index, pitch index) where a tie may start
        for i in range(3):
            if s[i] == "r" or s[i + 1] == "r":
                continue
            for pi, ch in enumerate(s[i]):
                if ch in s[i + 1]:
                    if fmt == "kern" and (len(s[i]) > 1 or len(s[i + 1]) > 1):
                        continue
                    slots.append((i, pi))
        if not slots:
            continue
        for mask in range(1, 2 ** len(slots)):
            evs = []
            for i, name in enumerate(s):
                if name == "r":
                    evs.append({"k": "r", "v": 2, "d": 0})
                else:
                    ps = [list(P[ch]) for ch in name]
                    evs.append({"k": "c" if len(ps) > 1 else "n", "v": 2, "d": 0, "p": ps, "tie": [0] * len(ps)})
            for bi, (i, pi) in enumerate(slots):
                if mask >> bi & 1:
                    evs[i]["tie"][pi] = 1
            yield [evs[:2], evs[2:]]


def g_ties(fmt, tier, seed):
    for ms in _tie_seq_cases(fmt):
        if fmt == "mei":
            for place in ("start", "end"):
                yield {"f": "mei", "doc": mei_doc([ms], style={"tie_place": place})}
        else:
            yield {"f": "kern", "doc": kern_doc([ms])}
    # two layers / two spines of one part, a tie in each, same pitches
    a = [[{"k": "n", "v": 2, "d": 0, "p": [["C", None, 4]], "tie": [1]}, {"k": "n", "v": 2, "d": 0, "p": [["C", None, 4]], "tie": [1]}],
         [{"k": "n", "v": 1, "d": 0, "p": [["C", None, 4]]}]]
    b = [[{"k": "n", "v": 1, "d": 0, "p": [["G", None, 3]], "tie": [1]}],
         [{"k": "n", "v": 2, "d": 0, "p": [["G", None, 3]]}, {"k": "r", "v": 2, "d": 0}]]
    if fmt == "mei":
        yield {"f": "mei", "doc": mei_doc([a, b])}
        d = mei_doc([a])
        d["staves"].append({"n": 2, "clef": ["F", 4], "layers": [{"n": 1, "m": b}]})
        yield {"f": "mei", "doc": d}
    else:
        yield {"f": "kern", "doc": kern_doc([b, a])}
        yield {"f": "kern", "doc": kern_doc([b, a], staffs=[2, 1], parts=["1", "1"], style={"same_part": "part"})}


def g_grace(fmt, tier, seed):
    """a grace note (or two) in front of every position of a 3-event measure; with and without a written value"""
    mains = [[("n", 4), ("n", 4), ("n", 2)], [("r", 4), ("c", 4), ("n", 2)], [("c", 2), ("r", 4), ("n", 4)]]
    for main in mains:
        for pos in range(3):
            for ng in (1, 2):
                for gv, gd in ((8, 0), (16, 0), (8, 1)):
                    for var in (0, 1):
                        evs = [lf(k, v, 0, i) for i, (k, v) in enumerate(main)]
                        gs = [lf("g", gv, gd, 5 + j) for j in range(ng)]
                        if fmt == "mei":
                            for g in gs:
                                g["gr"] = "acc" if var else "unacc"
                        evs[pos:pos] = gs
                        style = {}
                        if fmt == "kern" and var:
                            style = {"grace": "bare"}
                        ms = [evs, [lf("n", 1, 0, 4)]]
                        if fmt == "mei":
                            yield {"f": "mei", "doc": mei_doc([ms], style=style)}
                        else:
                            yield {"f": "kern", "doc": kern_doc([ms], style=style)}


GRACE_CTX = [(k, v, d) for k in ("n", "c", "r") for (v, d) in ((4, 0), (8, 0), (8, 1))]
GRACE_WRITTEN = [(4, 0), (8, 0), (8, 1), (16, 0)]


def g_grace_shared(fmt, tier, seed):
    """grace notes whose written value is (or is not) the value of ordinary events of the same layer/spine: two
    ordinary events from {note,chord,rest} x {4, 8, 8.} + a closing quarter, 1-2 grace notes before each of the three
    positions (so both orders grace-first / ordinary-first occur), written as 4, 8, 8., 16 (16 is never shared) and,
    in kern, without digits (the reader's default value 8); a whole note follows in the next measure"""
    forms = [(gv, gd, None) for gv, gd in GRACE_WRITTEN]
    if fmt == "kern":
        forms.append((8, 0, "bare"))
        variants = (0,)
    else:
        variants = (0, 1)
    for s in seqs(GRACE_CTX, 2):
        for pos in range(3):
            for ng in (1, 2):
                for gv, gd, how in forms:
                    for var in variants:
                        evs = [lf(k, v, d, i) for i, (k, v, d) in enumerate(s)] + [lf("n", 4, 0, 2)]
                        gs = [lf("g", gv, gd, 5 + j) for j in range(ng)]
                        if fmt == "mei":
                            for g in gs:
                                g["gr"] = "acc" if var else "unacc"
                        evs[pos:pos] = gs
                        ms = [evs, [lf("n", 1, 0, 4)]]
                        if fmt == "mei":
                            yield {"f": "mei", "doc": mei_doc([ms])}
                        else:
                            yield {"f": "kern", "doc": kern_doc([ms], style={"grace": "bare"} if how else {})}


def g_mei_repeat(tier, seed):
    """3 measures, every combination of left/right barline attributes, with and without first/second endings"""
    lefts = [None, "rptstart"]
    rights = [None, "rptend", "end", "dbl"]
    fs = fillings((4, 4), "mei")
    for combo in itertools.product(itertools.product(lefts, rights), repeat=3):
        for endings in (None, {"1": [1, 1], "2": [2, 1]}, {"2": [1, 1]}):
            bars = {}
            for mi, (l, r) in enumerate(combo):
                b = {}
                if l:
                    b["left"] = l
                if r:
                    b["right"] = r
                if b:
                    bars[str(mi)] = b
            marks = []
            for mi, (l, r) in enumerate(combo):
                if l == "rptstart":
                    marks.append("s")
                if r == "rptend":
                    marks.append("e")
            # well-formed: starts and ends alternate (an initial end repeats from the beginning), no start left open
            if any(a == b for a, b in zip(marks, marks[1:])) or (marks and marks[-1] == "s"):
                continue
            style = {"bars": bars}
            if endings:
                style["endings"] = endings
            ms = [reindex(fs[(mi * 2 + 1) % 5], mi) for mi in range(3)]
            c = {"f": "mei", "doc": mei_doc([ms], style=style)}
            if tier == "thorough" or block_of(c, 4) == seed % 4:
                yield c


def g_kern_structure(tier, seed):
    """1-2 spines x how parts are marked x staff declarations x meter x key x clef x first/final barline x comments"""
    keys = [0, 2, -2, 7, -7] if tier == "quick" else list(range(-7, 8))
    marks = [("none", None), ("same", "part"), ("same", "I"), ("diff", "part"), ("diff", "I")]
    for meter in METERS:
        fs = fillings(meter, "kern")
        for fifths in keys:
            for clef in (("G", 2), ("F", 4), ("C", 3), None):
                for nsp in (1, 2):
                    for mark in marks if nsp == 2 else marks[:1]:
                        for staffs in ([None, None], [2, 1], [1, 1]) if nsp == 2 else ([None], [1], [3]):
                            if mark[0] == "same" and staffs[0] is None:
                                continue
                            for first_bar, final_bar in ((True, True), (False, True), (True, False)):
                                style = {"first_bar": first_bar, "final_bar": final_bar,
                                         "comments": fifths == 2, "bar_numbers": fifths != -2,
                                         "invisible_first": fifths == 7}
                                parts = [str(i + 1) for i in range(nsp)]
                                if mark[0] == "same":
                                    style["same_part"] = mark[1]
                                    parts = ["1"] * nsp if mark[1] == "part" else ["piano"] * nsp
                                elif mark[0] == "diff":
                                    style["diff_part"] = mark[1]
                                sms = []
                                for s in range(nsp):
                                    sms.append([reindex(fs[(s * 2 + mi + 1) % 5], s * 3 + mi) for mi in range(2)])
                                if nsp == 1:
                                    clefs = [clef]
                                elif mark[0] == "same" and staffs[0] == staffs[1]:
                                    clefs = [clef, clef]  # two spines on one staff of one part: one clef
                                else:
                                    clefs = [("F", 4) if clef else None, clef]
                                doc = kern_doc(sms, meter=meter, key=(fifths, None), style=style,
                                               staffs=staffs[:nsp], clefs=clefs, parts=parts)
                                c = {"f": "kern", "doc": doc}
                                if tier == "thorough" or block_of(c, 3) == seed % 3 or (meter == (4, 4) and fifths in (0, 2)):
                                    yield c


def g_kern_layout(tier, seed):
    """2-3 spines, 2 measures, every filling per spine-measure; separate parts or one part"""
    meter = (4, 4)
    fs = fillings(meter, "kern")
    for nsp, same in ((2, False), (2, True), (3, False)):
        slots = nsp * 2
        pool = list(range(5)) if slots <= 4 else [0, 2, 4]
        for choice in itertools.product(pool, repeat=slots):
            it = iter(choice)
            sms = []
            pi = 0
            for s in range(nsp):
                ms = []
                for mi in range(2):
                    ms.append(reindex(fs[next(it)], pi))
                    pi += 2
                sms.append(ms)
            style = {"same_part": "part"} if same else {}
            doc = kern_doc(sms, meter=meter, style=style, staffs=[2, 1, 1][:nsp] if same else None,
                           parts=["1"] * nsp if same else None)
            yield {"f": "kern", "doc": doc}


def g_kern_changes(tier, seed):
    for m0 in METERS[:3]:
        for m1 in [None] + METERS[:3]:
            for k1 in [None, 3, -1]:
                if m1 is None and k1 is None:
                    continue
                for at in (1, 2):
                    for nsp in (1, 2):
                        chg = {}
                        if m1:
                            chg["meter"] = list(m1)
                        if k1 is not None:
                            chg["key"] = [k1, None]
                        sms = []
                        for s in range(nsp):
                            ms = []
                            for mi in range(3):
                                met = m1 if (m1 and mi >= at) else m0
                                ms.append(reindex(fillings(met, "kern")[(mi + s) % 5], mi + s))
                            sms.append(ms)
                        doc = kern_doc(sms, meter=m0, key=(1, None))
                        doc["chg"] = {str(at): chg}
                        yield {"f": "kern", "doc": doc}


def g_kern_split(tier, seed):
    """a spine splits ('*^') for one measure and is merged again ('*v *v'): every filling of the main spine and of
    the sub-spine, in measure 1 or 2, alone or next to a second spine (left or right of it)"""
    meter = (4, 4)
    fs = fillings(meter, "kern")
    for where in (0, 1):
        for a in range(5):
            for b in range(5):
                for other in (None, "left", "right"):
                    main = [reindex(fs[(a + mi) % 5] if mi != where else fs[a], mi) for mi in range(2)]
                    sub = reindex(fs[b], 4)
                    if other is None:
                        doc = kern_doc([main], splits=[{str(where): sub}])
                    else:
                        oth = [reindex(fs[(b + mi + 2) % 5], 6 + mi) for mi in range(2)]
                        if other == "left":
                            doc = kern_doc([oth, main], splits=[None, {str(where): sub}], staffs=[2, 1])
                        else:
                            doc = kern_doc([main, oth], splits=[{str(where): sub}, None], staffs=[2, 1])
                    yield {"f": "kern", "doc": doc}


def _fills_for(q):
    """a few event lists of total length q quarters (q in {2, 5/2, 3})"""
    if q == F(2):
        return [[lf("n", 2)], [lf("n", 4), lf("r", 4)], [{"k": "tup", "num": 3, "nb": 2, "ev": [lf("n", 4), lf("n", 4), lf("c", 4)]}],
                [lf("n", 4, 1), lf("n", 8)]]
    if q == F(5, 2):
        return [[lf("n", 8), lf("n", 2)], [lf("r", 8), lf("n", 4), lf("c", 4)], [lf("n", 2), {"k": "tup", "num": 3, "nb": 2, "ev": [lf("n", 16), lf("r", 16), lf("n", 16)]}]]
    if q == F(3):
        return [[lf("n", 2, 1)], [lf("n", 4), lf("n", 2)], [lf("n", 8), lf("r", 8), lf("c", 2)], [lf("n", 4, 2), lf("n", 16), lf("n", 4)]]
    raise ValueError(q)


def g_kern_split_mid(tier, seed):
    """the spine splits inside the measure (after 1 or 2 events of the main spine), merged at the barline; every
    sub-spine filling of the remaining length; measure 1 or 2; alone / second spine left / right / same part with the
    splitting spine first / same part with the splitting spine second"""
    mains = [[lf("n", 4), lf("n", 4), lf("n", 2)], [lf("n", 2), lf("n", 2)], [lf("n", 4, 1), lf("n", 8), lf("n", 2)], [lf("r", 4), lf("c", 4), lf("n", 2)]]
    fs = fillings((4, 4), "kern")
    for mi_split in (0, 1):
        for main in mains:
            for at in range(1, len(main)):
                rem = 4 - sum((M.leaf_dur(e) for e in main[:at]), F(0))
                for sub in _fills_for(rem):
                    assert M.seq_len(sub, (4, 4)) == rem
                    for other in (None, "left", "right", "same", "same-left"):
                        ms = [reindex(main if mi == mi_split else fs[(mi + at) % 5], mi * 3) for mi in range(2)]
                        spl = {str(mi_split): {"at": at, "sub": reindex(sub, 5)}}
                        if other is None:
                            doc = kern_doc([ms], splits=[spl])
                        else:
                            oth = [reindex(fs[(at + mi + 2) % 5], 6 + mi) for mi in range(2)]
                            if other == "left":
                                doc = kern_doc([oth, ms], splits=[None, spl], staffs=[2, 1])
                            elif other == "right":
                                doc = kern_doc([ms, oth], splits=[spl, None], staffs=[2, 1])
                            elif other == "same":
                                doc = kern_doc([ms, oth], splits=[spl, None], staffs=[2, 1], parts=["1", "1"], style={"same_part": "part"})
                            else:
                                # the later spine of the part splits (the first one may be inside a note there)
                                doc = kern_doc([oth, ms], splits=[None, spl], staffs=[2, 1], parts=["1", "1"], style={"same_part": "part"})
                                if "kern-interp-line-inside-note" in FIXES_PENDING and _split_inside_earlier_note(doc):
                                    continue
                        yield {"f": "kern", "doc": doc}


RICH = [
    [lf("n", 4), lf("n", 4), lf("n", 2)],
    [lf("n", 4, 1), lf("n", 8), lf("r", 4, 2), lf("n", 16)],
    [{"k": "tup", "num": 3, "nb": 2, "ev": [lf("n", 4), lf("n", 4), lf("n", 4)]}, lf("n", 2)],
    [{"k": "tup", "num": 5, "nb": 4, "ev": [lf("n", 16), lf("n", 16), lf("r", 16), lf("n", 16), lf("n", 16)]}, lf("n", 4), lf("c", 2)],
    [lf("n", 2), {"k": "tup", "num": 7, "nb": 4, "ev": [lf("n", 8)] * 7}],
    [{"k": "tup", "num": 3, "nb": 2, "ev": [lf("n", 8, 1), lf("n", 16), lf("n", 8)]}, lf("n", 4), lf("n", 8, 2), lf("n", 32), lf("r", 4)],
]


def g_mixed(fmt, tier, seed):
    """2 staves/spines x 2 measures, every combination of 6 fillings with different subdivisions (dotted, double
    dotted, 3:2, 5:4, 7:4, dotted inside a triplet): the divisions must serve all of them; kern: separate parts and
    one part"""
    for choice in itertools.product(range(len(RICH)), repeat=4):
        a = [reindex(RICH[choice[0]], 0), reindex(RICH[choice[1]], 1)]
        b = [reindex(RICH[choice[2]], 2), reindex(RICH[choice[3]], 3)]
        if fmt == "mei":
            for two_layers in (False, True):
                if two_layers:
                    d = mei_doc([a, b])
                else:
                    d = mei_doc([a])
                    d["staves"].append({"n": 2, "clef": ["F", 4], "layers": [{"n": 1, "m": b}]})
                c = {"f": "mei", "doc": d}
                if tier == "thorough" or block_of(c, 2) == seed % 2:
                    yield c
        else:
            for same in (False, True):
                d = kern_doc([b, a], staffs=[2, 1], parts=["1", "1"] if same else None, style={"same_part": "part"} if same else {})
                c = {"f": "kern", "doc": d}
                if tier == "thorough" or block_of(c, 2) == seed % 2:
                    yield c


KERN_FORCE_BLOCKS = 6  # quick tier: hash block of the larger families of kern-force-same-part
KERN_FORCE_STRUCT_BLOCKS = 48  # ... of its kern-structure family (9360 documents)
FORCE = {"force_same_part": True}
# how the spines of a file are marked: (style key, interpretation) -> kern_doc arguments
FORCE_MARKS = [("none", None), ("diff", "part"), ("diff", "I"), ("same", "part"), ("same", "I")]


def _marked(nsp, mark):
    """(style, parts) for nsp spines carrying no / different / identical *part or *I interpretations"""
    style, parts = {}, [str(i + 1) for i in range(nsp)]
    if mark[0] == "same":
        style["same_part"] = mark[1]
        parts = ["1"] * nsp if mark[1] == "part" else ["piano"] * nsp
    elif mark[0] == "diff":
        style["diff_part"] = mark[1]
    return style, parts


def _split_inside_earlier_note(doc):
    """a spine other than the first one splits at a place where the first spine is inside a sounding event (the line
    of the '*^' is not an event boundary of the first spine)"""
    for si, sp in enumerate(doc["spines"]):
        if si == 0:
            continue
        for mi_s, spec in sorted((sp.get("split") or {}).items()):
            at, _ = M.split_spec(spec)
            mi = int(mi_s)
            off = sum((M.leaf_dur(l, t) for l, t in M.flatten(sp["m"][mi])[:at]), F(0))
            bounds, pos = {F(0)}, F(0)
            for l, t in M.flatten(doc["spines"][0]["m"][mi]):
                pos += M.leaf_dur(l, t)
                bounds.add(pos)
            if off not in bounds:
                return True
    return False


def g_kern_force_same_part(tier, seed):
    """load_kern(filename, force_same_part=True): all spines of the file become voices of ONE part whatever they
    declare; every note keeps the onset, duration, spelling and staff its notation denotes and the divisions of that
    one part serve every spine (first or later).  Families (each enumerated completely; quick takes hash blocks of
    the larger ones):
    (a) 2 spines x 1 measure x every ordered pair of the 6 RICH fillings (different subdivisions) x 5 part markings x
        staff declarations {2|1, none, 1|2, 1|1}; 2 spines x 2 measures x RICH^4 x {unmarked, *part different}
    (b) 3 spines x 1 measure x RICH^3, unmarked, staves 3|2|1 and none declared
    (c) the kern-structure documents with 2 spines (meter x key x clef x marking x staves x first/final barline)
    (d) the kern-layout documents with 2 separate spines (5^4 fillings) and the kern-changes documents with 2 spines
    (e) spine splits next to a second spine (kern-split, kern-split-mid) and the two-spine tie documents"""
    def mk(doc):
        return {"f": "kern", "doc": doc, "opt": dict(FORCE)}

    def take(c, nb=KERN_FORCE_BLOCKS):
        return tier == "thorough" or block_of(c, nb) == seed % nb

    # (a) subdivisions
    nr = len(RICH)
    for i, j in itertools.product(range(nr), repeat=2):
        for mark in FORCE_MARKS:
            for staffs in ([2, 1], None, [1, 2], [1, 1]):
                if mark[0] == "same" and staffs is None:
                    continue
                style, parts = _marked(2, mark)
                c = mk(kern_doc([[reindex(RICH[i], 0)], [reindex(RICH[j], 2)]], staffs=staffs, parts=parts, style=style))
                if staffs in ([2, 1], None) or take(c):
                    yield c
    for choice in itertools.product(range(nr), repeat=4):
        a = [reindex(RICH[choice[0]], 0), reindex(RICH[choice[1]], 1)]
        b = [reindex(RICH[choice[2]], 2), reindex(RICH[choice[3]], 3)]
        for mark in FORCE_MARKS[:2]:
            style, parts = _marked(2, mark)
            # (the hash block is taken over the choice, which determines the document)
            if take(["force-2m", list(choice), list(mark)], KERN_FORCE_BLOCKS + 2):
                yield mk(kern_doc([b, a], staffs=[2, 1], parts=parts, style=style))
    # (b) three spines
    for choice in itertools.product(range(nr), repeat=3):
        for staffs in ([3, 2, 1], None):
            c = mk(kern_doc([[reindex(RICH[x], 2 * s)] for s, x in enumerate(choice)], staffs=staffs))
            if staffs or take(c):
                yield c
    # (c) declarations
    for c in g_kern_structure("thorough", 0):
        d = c["doc"]
        if len(d["spines"]) != 2:
            continue
        st = [sp["staff"] for sp in d["spines"]]
        if st[0] == st[1] and d["spines"][0]["clef"] != d["spines"][1]["clef"]:
            # forced onto one staff of one part: one clef (two different clefs at the same place on one staff would
            # leave the clef in force open)
            d["spines"][0]["clef"] = d["spines"][1]["clef"]
        # hash block over the declarations (they determine the document: the fillings follow from meter and spine)
        key = ["force-structure", d["meter"], d["key"], d["kern"], [[sp["staff"], sp["clef"], sp["part"]] for sp in d["spines"]]]
        if take(key, KERN_FORCE_STRUCT_BLOCKS) or (tuple(d["meter"]) == (4, 4) and d["key"][0] == 0):
            yield mk(d)
    # (d) fillings and changes
    for c in g_kern_layout(tier, seed):
        if len(c["doc"]["spines"]) == 2 and not c["doc"]["kern"].get("same_part"):
            c = mk(c["doc"])
            if take(c):
                yield c
    for c in g_kern_changes(tier, seed):
        if len(c["doc"]["spines"]) == 2:
            yield mk(c["doc"])
    # (e) splits and ties
    pending = "kern-interp-line-inside-note" in FIXES_PENDING
    for g in (g_kern_split, g_kern_split_mid):
        for c in g(tier, seed):
            if len(c["doc"]["spines"]) == 2 and not (pending and _split_inside_earlier_note(c["doc"])):
                yield mk(c["doc"])
    for c in g_ties("kern", tier, seed):
        if len(c["doc"]["spines"]) == 2:
            yield mk(c["doc"])


def g_kern_partial_part(tier, seed):
    """3 spines of which two carry the same *part / *I interpretation (the reader only merges spines when all agree)"""
    fs = fillings((4, 4), "kern")
    for how in ("part", "I"):
        for labels in (["2", "1", "1"], ["1", "1", "2"]):
            for a in range(5):
                sms = [[reindex(fs[(a + s + mi) % 5], s * 2 + mi) for mi in range(2)] for s in range(3)]
                labs = labels if how == "part" else [{"1": "piano", "2": "violn"}[x] for x in labels]
                doc = kern_doc(sms, staffs=[3, 2, 1], parts=labs, style={"same_part": how})
                yield {"f": "kern", "doc": doc, "partial_part": True}


def g_kern_chord_ties(tier, seed):
    """ties that start or end in a chord token (documented as unsupported by the reader)"""
    for ms in _tie_seq_cases("mei"):
        if any(e["k"] == "c" and any(e.get("tie") or []) for m in ms for e in m) or _tie_into_chord(ms):
            yield {"f": "kern", "doc": kern_doc([ms]), "chord_tie": True}


def _tie_into_chord(ms):
    flat = [e for m in ms for e in m]
    for a, b in zip(flat, flat[1:]):
        if a["k"] != "r" and any(a.get("tie") or []) and b["k"] == "c":
            return True
    return False


# ---------------------------------------------------------------------------------------------
# sub-spaces: export -> load

TYPE_NAME = {0: "breve", 1: "whole", 2: "half", 4: "quarter", 8: "eighth", 16: "16th", 32: "32nd", 64: "64th"}


def part_spec(doc):
    """abstract score (MEI-shaped doc, one part, staves/layers) -> mc.ir part spec + expected note list"""
    ref = M.reference_mei(doc)
    # common divisions
    den = 1
    for p in ref["parts"]:
        for n in p["notes"]:
            den = _lcm(den, n[0].denominator)
            den = _lcm(den, n[1].denominator)
    for st in doc["staves"]:
        for ly in st["layers"]:
            for m in ly["m"]:
                for leaf, tup in M.flatten(m):
                    if leaf["k"] == "s":  # a gap in a voice: its ends are timeline positions too
                        den = _lcm(den, M.leaf_dur(leaf, tup).denominator)
    divs = max(den, 1) * (doc.get("divs_mult") or 1)
    objs = []
    objs.append({"k": "ts", "s": 0, "beats": doc["meter"][0], "beat_type": doc["meter"][1]})
    objs.append({"k": "ks", "s": 0, "fifths": doc["key"][0], "mode": doc["key"][1]})
    for st in doc["staves"]:
        # 'clef_on' (optional): the staff numbers that get a Clef object; default every staff
        if doc.get("clef_on") is None or st["n"] in doc["clef_on"]:
            objs.append({"k": "clef", "s": 0, "staff": st["n"], "sign": st["clef"][0], "line": st["clef"][1], "oct": 0})
    nid = [0]
    expected = []
    pos = F(0)
    open_by_layer = {}
    for mi in range(doc["nm"]):
        ends = []
        for st in doc["staves"]:
            for ly in st["layers"]:
                p = pos
                open_t = open_by_layer.setdefault((st["n"], ly["n"]), {})
                # staff of the layer's events: the staff it is listed under, unless the layer names a staff per
                # measure ('sm'); a single event may sit on another staff ('st', cross-staff notation)
                lstaff = ly["sm"][mi] if ly.get("sm") else st["n"]

                def emit(evs, tup):
                    nonlocal p
                    first = last = None
                    for e in evs:
                        if e["k"] == "tup":
                            a, b = emit(e["ev"], (e["num"], e["nb"]))
                            objs.append({"k": "tuplet", "a": a, "b": b, "actual": e["num"], "normal": e["nb"]})
                            first = first or a
                            last = b
                            continue
                        if e["k"] == "beam":
                            a, b = emit(e["ev"], tup)
                            first = first or a
                            last = b
                            continue
                        d = M.leaf_dur(e, tup)
                        if e["k"] == "s":
                            # a gap: the voice has no object here (save_kern fills it with a rest of its own)
                            open_t.clear()
                            p += d
                            continue
                        sym = {"type": TYPE_NAME[e["v"]]}
                        if e.get("d"):
                            sym["dots"] = e["d"]
                        if tup:
                            sym["actual_notes"], sym["normal_notes"] = tup
                        if e.get("nosym"):
                            sym = None  # the note value is left to the library (estimated from the numeric duration)
                        s_t, e_t = int(p * divs), int((p + d) * divs)
                        if e["k"] == "r":
                            nid[0] += 1
                            oid = "r%d" % nid[0]
                            objs.append({"k": "rest", "id": oid, "s": s_t, "e": e_t, "voice": ly["n"], "staff": e.get("st") or lstaff, "sym": sym})
                            open_t.clear()
                            first = first or oid
                            last = oid
                        else:
                            ties = e.get("tie") or [0] * len(e["p"])
                            new_open = {}
                            # 'pst': a staff of its own for single members of a chord (cross-staff chord)
                            for (step, alter, octv), t, own in zip(e["p"], ties, e.get("pst") or [None] * len(e["p"])):
                                nid[0] += 1
                                oid = "n%d" % nid[0]
                                nstaff = own or e.get("st") or lstaff
                                o = {"k": "grace" if e["k"] == "g" else "note", "id": oid, "s": s_t, "e": e_t, "step": step,
                                     "alter": alter, "oct": octv, "voice": ly["n"], "staff": nstaff, "sym": sym}
                                objs.append(o)
                                expected.append((p, d, M.midi_pitch(step, alter, octv), nstaff))
                                pk = (step, alter, octv)
                                if e["k"] != "g":
                                    if pk in open_t:
                                        open_t[pk]["tie"] = oid
                                    if t:
                                        new_open[pk] = o
                                first = first or oid
                                last = oid
                            if e["k"] != "g":
                                open_t.clear()
                                open_t.update(new_open)
                        p += d
                    return first, last

                emit(ly["m"][mi], None)
                ends.append(p)
        assert len(set(ends)) == 1, "export parts need complete voices"
        objs.append({"k": "measure", "s": int(pos * divs), "e": int(ends[0] * divs), "number": mi + 1})
        pos = ends[0]
    return {"id": "P1", "divs": [[0, divs]], "objs": objs}, sorted(expected)


def g_roundtrip(fmt, tier, seed):
    """parts the writers can express: 1-2 staves x 1-2 voices x 2 measures x fillings; rhythm sequences with dots;
    tuplet groups; ties; pitches; grace notes (MEI).  fmt selects the writer (save_mei / save_kern); the kern writer
    costs ~0.1-0.3 s per part (it iterates over all classes at every time point), so quick takes hash blocks."""
    kq = fmt == "kern" and tier == "quick"

    def take(c, nb_mei, nb_kern):
        nb = nb_kern if fmt == "kern" else nb_mei
        if tier == "thorough" or nb == 1:
            return True
        return block_of(c, nb) == seed % nb

    def mk(doc, **kw):
        c = {"f": "rt", "w": fmt, "doc": doc}
        c.update(kw)
        return c

    # (a) rhythm: single voice, all sequences of <=2 events + a closing note
    alpha = [(k, v, d) for k in ("n", "c", "r") for v in VALUES for d in DOTS]
    for n in (1, 2):
        for s in seqs(alpha, n):
            evs = [lf(k, v, d, i) for i, (k, v, d) in enumerate(s)] + [lf("n", 4, 0, 3)]
            c = mk(mei_doc([[evs]]))
            if n == 1 or take(c, 2, 24):
                yield c
    # (b) layout
    fs = fillings((4, 4), "kern")
    configs = [([1], [[1]]), ([1], [[1, 2]]), ([1, 2], [[1], [2]]), ([1, 2], [[1, 2], [3]])]
    for staff_ns, layer_ns in configs:
        slots = sum(len(l) for l in layer_ns) * 2
        pool = list(range(5)) if slots <= 4 else [0, 2, 4]
        for choice in itertools.product(pool, repeat=slots):
            it = iter(choice)
            staves = []
            pi = 0
            for sn, lns in zip(staff_ns, layer_ns):
                layers = []
                for ln in lns:
                    ms = []
                    for mi in range(2):
                        ms.append(reindex(fs[next(it)], pi))
                        pi += 2
                    layers.append({"n": ln, "m": ms})
                staves.append({"n": sn, "clef": ["G", 2] if sn == 1 else ["F", 4], "layers": layers})
            c = mk({"meter": [4, 4], "key": [sum(choice) % 5 - 2, "major"], "nm": 2, "staves": staves, "mei": {}})
            if take(c, 1 if slots <= 4 else 3, 5 if slots <= 2 else 40):
                yield c
    # (c) tuplets
    for num, nb, v in TUPLETS[:6]:
        for pat in (["n"] * num, ["n"] + ["r"] + ["n"] * (num - 2), ["c"] + ["n"] * (num - 1)):
            for pre in (None, ("n", 4, 0), ("n", 8, 1)):
                for post in (None, ("n", 4, 0)):
                    evs = []
                    i = 0
                    if pre:
                        evs.append(lf(pre[0], pre[1], pre[2], i))
                        i += 1
                    mem = []
                    for k in pat:
                        mem.append(lf(k, v, 0, i))
                        i += 1
                    evs.append({"k": "tup", "num": num, "nb": nb, "ev": mem})
                    if post:
                        evs.append(lf(post[0], post[1], post[2], i))
                    c = mk(mei_doc([[evs, [lf("n", 4, 0, 5)]]]))
                    if take(c, 1, 3):
                        yield c
    # (d) ties (single notes and chords; chains of three and four)
    for ms in _tie_seq_cases("mei"):
        c = mk(mei_doc([ms]))
        if take(c, 2, 20):
            yield c
    chain = [[{"k": "n", "v": 2, "d": 0, "p": [["C", None, 4]], "tie": [1]}, {"k": "n", "v": 2, "d": 0, "p": [["C", None, 4]], "tie": [1]}],
             [{"k": "n", "v": 1, "d": 0, "p": [["C", None, 4]]}]]
    yield mk(mei_doc([chain]))
    chain2 = [[{"k": "n", "v": 2, "d": 0, "p": [["B", -1, 3]], "tie": [1]}, {"k": "n", "v": 2, "d": 0, "p": [["B", -1, 3]], "tie": [1]}],
              [{"k": "n", "v": 2, "d": 0, "p": [["B", -1, 3]], "tie": [1]}, {"k": "n", "v": 2, "d": 0, "p": [["B", -1, 3]]}]]
    yield mk(mei_doc([chain2]))
    # (e) pitches
    for o in range(1, 8):
        for a in ALTERS:
            evs = [{"k": "n", "v": 4, "d": 0, "p": [[st, a, o]]} for st in "CDEFGAB"]
            evs.append({"k": "c", "v": 4, "d": 0, "p": [["C", a, o], ["E", a, o], ["G", a, o]]})
            c = mk(mei_doc([[evs]], key=((o * 2 + (a or 0)) % 15 - 7, None)))
            if take(c, 1, 3):
                yield c
    # (f) grace notes (MEI writer only: the kern writer puts a grace note into the token of its main note)
    if fmt == "mei":
        for ctx in ([("n", 4), ("n", 4), ("n", 2)], [("r", 4), ("c", 4), ("n", 2)]):
            for pos in range(3):
                for ng in (1, 2):
                    evs = [lf(k, v, 0, i) for i, (k, v) in enumerate(ctx)]
                    evs[pos:pos] = [lf("g", 8, 0, 5 + j) for j in range(ng)]
                    yield mk(mei_doc([[evs, [lf("n", 1, 0, 4)]]]))


# Genuine defects of the unchanged tree found by the spaces below; a minimal fix for each is in
# /verif/proposed_fixes/C19-s-<name>.diff.  While a name is listed here the inputs that run into that defect are left
# out of the enumeration (nothing else is); remove the name once the fix is in the tree under test.
#   mei-export-empty-staff  save_mei raises ValueError (numpy vectorize on an empty array) for a measure in which a
#                           lower-numbered staff holds no note or rest while a higher one does
#   load-score-pathlike     load_score raises AttributeError in is_url for every os.PathLike argument (pathlib.Path)
#   kern-interp-line-inside-note  load_kern, spines of ONE part (same *part/*I or force_same_part=True): the first spine
#                           records an interpretation line (the '*' beside a later spine's '*^') at the END of the note
#                           it is sounding, and the later spine jumps forward to that position: its notes after a split
#                           inside the measure come too late
#   kern-more-spines-than-lines  load_kern raises IndexError for a file (without spine splits) that has more **kern spines
#                           than lines: the part index table is made with one entry per LINE (np.arange(file.shape[0]))
#                           and indexed by spine, e.g. 16 spines x 1 measure (13 lines), 24 spines x 2 measures (19 lines)
#   kern-export-row-budget  save_kern raises IndexError for parts with many clefs/signatures: the output table has room
#                           for notes + rests + measures + 12 rows, while every Clef, TimeSignature, KeySignature and
#                           Tempo takes a row of its own - a part with 9 or more Clef objects (10+ staves) overflows
#   kern-export-interleaved-chord  save_kern loses notes when, at one time point, the notes of one (voice, staff) spine are
#                           not consecutive in the order of the timeline (a chord with members on staff 1, 2, 1: the third
#                           note OVERWRITES the token of the first one instead of joining it)
FIXES_PENDING = ()  # (repaired in /repo: "kern-interp-line-inside-note" 7b7b2b6, "kern-more-spines-than-lines" d22454d, "kern-export-row-budget" 632abb0, "kern-export-interleaved-chord" 42c585a)
KERN_EXPORT_MAX_CLEFS = 9  # while kern-export-row-budget is pending: parts with more Clef objects are left out of roundtrip-kern-staves


def _empty_lower_staff(doc):
    """some measure of the part has notes/rests on a staff but none on a lower-numbered one"""
    for mi in range(doc["nm"]):
        used = set()
        for st in doc["staves"]:
            for ly in st["layers"]:
                home = ly["sm"][mi] if ly.get("sm") else st["n"]
                for leaf, _ in M.flatten(ly["m"][mi]):
                    used.update(own or leaf.get("st") or home for own in (leaf.get("pst") or [None]))
        if used and used != set(range(1, max(used) + 1)):
            return True
    return False


KERN_STAFFMOVE_BLOCKS = 16  # quick tier, kern writer (0.1-0.3 s per part): one hash block of the family
STAFF_OPTS = ["1", "2", "1x", "2x"]  # home staff of a voice in one measure; x = its last note/chord sits on the other staff


def _staffmove_doc(opts, nv, nm, rot):
    """2 staves; voice v of measure mi is placed according to opts[v * nm + mi]"""
    fs = fillings((4, 4), "kern")
    layers = []
    for v in range(nv):
        ms, sm = [], []
        for mi in range(nm):
            o = opts[v * nm + mi]
            home = int(o[0])
            evs = reindex(fs[(rot + 2 * v + mi) % 5], 3 * v + mi)
            if o.endswith("x"):
                last = max(i for i, e in enumerate(evs) if e["k"] in ("n", "c"))
                evs[last]["st"] = 3 - home
            ms.append(evs)
            sm.append(home)
        layers.append({"n": v + 1, "m": ms, "sm": sm})
    return {"meter": [4, 4], "key": [0, None], "nm": nm,
            "staves": [{"n": 1, "clef": ["G", 2], "layers": layers}, {"n": 2, "clef": ["F", 4], "layers": []}], "mei": {}}


def g_roundtrip_staffmove(fmt, tier, seed):
    """two-staff parts whose voices change staff from measure to measure (and single notes across the staves): the
    history of a voice's staff over the measures is enumerated completely"""
    skip = fmt == "mei" and "mei-export-empty-staff" in FIXES_PENDING

    def family(alphabet, nv, nm, rots):
        for rot in rots:
            for opts in itertools.product(alphabet, repeat=nv * nm):
                doc = _staffmove_doc(opts, nv, nm, rot)
                if skip and _empty_lower_staff(doc):
                    continue
                c = {"f": "rt", "w": fmt, "doc": doc}
                if fmt == "mei" or tier == "thorough" or block_of(c, KERN_STAFFMOVE_BLOCKS) == seed % KERN_STAFFMOVE_BLOCKS:
                    yield c

    # one voice, 3 measures, every sequence over the 4 placements; two filling rotations
    yield from family(STAFF_OPTS, 1, 3, (0, 1))
    # two voices, 2 measures, every combination of the 4 placements
    yield from family(STAFF_OPTS, 2, 2, (0,))
    # two voices, 3 measures, every combination of the two whole-measure placements (swap, swap back, meet on one staff)
    yield from family(STAFF_OPTS[:2], 2, 3, (0, 2))
    # three voices, 2 measures, whole-measure placements
    yield from family(STAFF_OPTS[:2], 3, 2, (1,))


KERN_CHORDSTAFF_BLOCKS = 16  # quick tier, kern writer (0.1-0.3 s per part): one hash block of the family


def g_roundtrip_chordstaff(fmt, tier, seed):
    """two-staff parts in which one voice has a chord whose members are Note objects on different staves (a chord
    split between the hands): every assignment of staff 1/2 to the 2 or 3 members (the uniform ones included) x chord
    at each of 3 positions x plain / dotted value x the rest of the voice on staff 1 / 2 x a second voice on staff 2
    present / absent; two consecutive 2-member chords with every assignment for both; the chord as the middle member of a
    triplet"""
    def mk(v1, home, other):
        staves = [{"n": 1, "clef": ["G", 2], "layers": [{"n": 1, "m": [v1, [lf("n", 1, 0, 3)]], "sm": [home, home]}]},
                  {"n": 2, "clef": ["F", 4], "layers": []}]
        if other:
            staves[1]["layers"].append({"n": 2, "m": [[lf("n", 2, 0, 4), lf("n", 2, 0, 5)], [lf("n", 1, 0, 6)]]})
        return {"f": "rt", "w": fmt, "doc": {"meter": [4, 4], "key": [0, None], "nm": 2, "staves": staves, "mei": {}}}

    def family():
        for home in (1, 2):
            for other in (True, False):
                for size in (2, 3):
                    for pst in itertools.product((1, 2), repeat=size):
                        for pos in range(3):
                            for dots in (0, 1):
                                slots = [lf("n", 4, 0, 0), lf("n", 4, 0, 1), lf("n", 4, 0, 2), lf("r", 4)]
                                slots[pos] = _cs_chord(4, CS_PITCH[size], None, pst, dots)
                                if dots:
                                    slots[pos + 1] = dict(slots[pos + 1], v=8)
                                yield mk(slots, home, other)
                for pst1 in itertools.product((1, 2), repeat=2):
                    for pst2 in itertools.product((1, 2), repeat=2):
                        yield mk([_cs_chord(4, CS_PITCH[2], None, pst1), _cs_chord(4, CS_PITCH_B, None, pst2), lf("n", 4, 0, 3),
                                  lf("r", 4)], home, other)
                    yield mk(_cs_slots(0, "tup", lambda v: _cs_chord(v, CS_PITCH[2], None, pst1)), home, other)

    pending = fmt == "kern" and "kern-export-interleaved-chord" in FIXES_PENDING
    for c in family():
        if fmt == "kern" and not _kern_streams_expressible(c["doc"]):
            continue  # outside the quantifier: see _kern_streams_expressible
        if pending and _interleaved_chord(c["doc"]):
            continue
        if fmt == "mei" or tier == "thorough" or block_of(c, KERN_CHORDSTAFF_BLOCKS) == seed % KERN_CHORDSTAFF_BLOCKS:
            yield c


def _kern_streams_expressible(doc):
    """save_kern writes one spine per (voice, staff) pair and completes a pair that does not fill a measure with ONE rest
    before its first and ONE after its last event (fill_rests(measurewise=False)).  It has no means to write a pair that
    pauses between two of its events (e.g. a voice that visits the other staff in the middle of a measure and comes
    back), and a rest that is not one note value is written wrongly: such parts are outside 'exportable by the writer'
    (same border as roundtrip-kern-gaps and the placements of roundtrip-kern-staffmove)"""
    single = set(_single_values(10 ** 6))
    for st in doc["staves"]:
        for ly in st["layers"]:
            for mi in range(doc["nm"]):
                home = ly["sm"][mi] if ly.get("sm") else st["n"]
                spans, pos = {}, F(0)
                for leaf, tup in M.flatten(ly["m"][mi]):
                    d = M.leaf_dur(leaf, tup)
                    if leaf["k"] != "s":
                        for own in set(leaf.get("pst") or [None]):
                            spans.setdefault(own or leaf.get("st") or home, []).append((pos, pos + d))
                    pos += d
                for iv in spans.values():
                    if any(a[1] != b[0] for a, b in zip(iv, iv[1:])):
                        return False  # the pair pauses between two of its events
                    for gap in (iv[0][0], pos - iv[-1][1]):
                        if gap and not ((gap * 4).denominator == 1 and int(gap * 4) in single):
                            return False
    return True


def _interleaved_chord(doc):
    """some chord has members on staff a, then b, then a again (in the order the Note objects are added to the part)"""
    for st in doc["staves"]:
        for ly in st["layers"]:
            for m in ly["m"]:
                for leaf, _ in M.flatten(m):
                    runs = [k for k, _ in itertools.groupby(leaf.get("pst") or [])]
                    if len(runs) != len(set(runs)):
                        return True
    return False


# note values the library chooses itself: every single value (type x dots) of these lists
EST_VALUES = [0, 1, 2, 4, 8, 16, 32, 64]
EST_DOTS = [0, 1, 2, 3]
EST_PAIR_VALUES = [1, 2, 4, 8, 16]
KERN_EST_PAIR_BLOCKS = 40  # quick tier, kern writer: one hash block of the 2-event sequences
KERN_GAP_BLOCKS = 32  # quick tier, kern writer: one hash block of the placements outside the fixed core


def g_roundtrip_estimated(fmt, tier, seed):
    """single-voice parts whose notes, chords and rests are created WITHOUT a symbolic duration: the writers take the
    note value from GenericNote.symbolic_duration / estimate_symbolic_duration, i.e. from the numeric duration.  Every
    duration that is one note value (breve..64th, 0..3 dots) occurs, alone and in pairs, followed by a quarter note with
    an explicit value whose onset shows the length that was written for a rest"""
    def mk(evs):
        return {"f": "rt", "w": fmt, "doc": mei_doc([[evs]])}

    for k in ("n", "c", "r"):
        for v in EST_VALUES:
            for d in EST_DOTS:
                yield mk([lf(k, v, d, 0, nosym=True), lf("n", 4, 0, 3)])
    alpha = [(k, v, d) for k in ("n", "r") for v in EST_PAIR_VALUES for d in EST_DOTS]
    nb = 1 if tier == "thorough" else (KERN_EST_PAIR_BLOCKS if fmt == "kern" else 4)
    for s in seqs(alpha, 2):
        c = mk([lf(k, v, d, i, nosym=True) for i, (k, v, d) in enumerate(s)] + [lf("n", 4, 0, 3)])
        if nb == 1 or block_of(c, nb) == seed % nb:
            yield c


def _single_values(limit):
    """{length in 16ths: (value, dots)} of the note values shorter than `limit` 16ths that lie on the 16th grid"""
    out = {}
    for v in (1, 2, 4, 8, 16):
        for d in EST_DOTS:
            u = M.leaf_dur({"k": "s", "v": v, "d": d}) * 4
            if u.denominator == 1 and u < limit:
                assert int(u) not in out
                out[int(u)] = (v, d)
    return out


def _plain_notes(units, rev, i0):
    """`units` 16ths filled with notes of plain values (explicit symbolic durations), long to short or reversed"""
    seq = []
    for v, u in ((1, 16), (2, 8), (4, 4), (8, 2), (16, 1)):
        while units >= u:
            seq.append(v)
            units -= u
    if rev:
        seq.reverse()
    return [lf("n", v, 0, i0 + i) for i, v in enumerate(seq)]


def g_roundtrip_gaps(tier, seed):
    """parts with a voice that does not fill its measure: it enters `a` 16ths after the barline and/or stops `c` 16ths
    before the next one (save_kern completes such a voice with rests of its own, fill_rests); a and c run over every
    length that is one note value (0 = no gap).  The voice is alone in the part or next to a voice of whole-measure
    notes (on the same or on a second staff); in the other measure it is complete or absent altogether"""
    combos = [(mi, other, comp, staff) for comp in (True, False) for mi in (0, 1) for other in ("full", "absent")
              for staff in ((1, 2) if comp else (1,))]
    for meter in ((4, 4), (3, 4)):
        L = int(M.measure_len(meter) * 4)
        whole = {16: (1, 0), 12: (2, 1)}[L]
        single = _single_values(L)
        lens = [0] + sorted(single)
        idx = 0
        for a in lens:
            for c in lens:
                if a + c >= L or (a == 0 and c == 0):
                    continue
                for ci, (mi, other, comp, staff) in enumerate(combos):
                    layers2 = []
                    for m in range(2):
                        if m == mi:
                            evs = ([lf("s", *single[a])] if a else []) + _plain_notes(L - a - c, (a + c) % 2, 2 + m) \
                                + ([lf("s", *single[c])] if c else [])
                        elif other == "full":
                            evs = [lf("n", whole[0], whole[1], 2 + m)]
                        else:
                            evs = [lf("s", whole[0], whole[1])]
                        layers2.append(evs)
                    staves = [{"n": 1, "clef": ["G", 2], "layers": []}]
                    if comp:
                        staves[0]["layers"].append({"n": 1, "m": [[lf("n", whole[0], whole[1], m)] for m in range(2)]})
                    if staff == 2:
                        staves.append({"n": 2, "clef": ["F", 4], "layers": []})
                    staves[staff - 1]["layers"].append({"n": 2 if comp else 1, "m": layers2})
                    case = {"f": "rt", "w": "kern", "doc": {"meter": list(meter), "key": [0, None], "nm": 2, "staves": staves, "mei": {}}}
                    core = meter == (4, 4) and ci == idx % len(combos)
                    if tier == "thorough" or core or block_of(case, KERN_GAP_BLOCKS) == seed % KERN_GAP_BLOCKS:
                        yield case
                idx += 1
    # gaps of tuplet length: the voice enters k units of an n-in-the-time-of-m 16th tuplet after the barline (the writer
    # must find the one tuplet value of the rest it inserts: 3/7, 2/5, 1/3 ... of a quarter lie close to dotted values)
    for num, nb in ((3, 2), (5, 4), (6, 4), (7, 4)):
        for k in range(1, num):
            if (F(k * nb, num)).denominator == 1 or k not in (1, 2, 3, 4, 6):
                continue  # a plain length: covered above; k units must be ONE (dotted) value of the tuplet
            for mi in (0, 1):
                for comp in (True, False):
                    for v in (16, 8):
                        span = F(4, v) * nb  # quarters covered by the tuplet group
                        if span > 2:
                            continue
                        rest_units = int((4 - span) * 4)
                        layers2 = []
                        for m in range(2):
                            if m == mi:
                                grp = {"k": "tup", "num": num, "nb": nb,
                                       "ev": [lf("s", v) for _ in range(k)] + [lf("n", v, 0, 2 + j) for j in range(num - k)]}
                                evs = [grp] + _plain_notes(rest_units, 0, 2 + m)
                            else:
                                evs = [lf("n", 1, 0, 2 + m)]
                            layers2.append(evs)
                        staves = [{"n": 1, "clef": ["G", 2], "layers": []}]
                        if comp:
                            staves[0]["layers"].append({"n": 1, "m": [[lf("n", 1, 0, m)] for m in range(2)]})
                        staves[0]["layers"].append({"n": 2 if comp else 1, "m": layers2})
                        yield {"f": "rt", "w": "kern", "doc": {"meter": [4, 4], "key": [0, None], "nm": 2, "staves": staves, "mei": {}}}


# ---------------------------------------------------------------------------------------------
# sub-spaces: magnitude of the staff number / number of staves (orchestral size)
#
# The small families above only use staff numbers 1..5 and at most 3 spines / 2 staves.  The spaces below repeat small
# documents with the staff number running over a magnitude alphabet (one, two, three and four digits, the values around
# every power of ten) and with regular N-staff instances (N in ORCH_SIZES).

STAFF_NUMS_QUICK = [1, 2, 3, 9, 10, 11, 12, 19, 20, 21, 24, 30, 99, 100, 101, 110, 255, 1000]
STAFF_NUMS_THOROUGH = list(range(1, 41)) + [99, 100, 101, 110, 111, 120, 200, 255, 256, 999, 1000, 1001]
STAFF_PAIR_NUMS = [1, 2, 9, 10, 12, 21, 100]
ORCH_SIZES_QUICK = [10, 12, 16, 24]
ORCH_SIZES_THOROUGH = [9, 10, 11, 12, 13, 16, 20, 24, 32, 40]
# how the spines of an N-spine file are marked / loaded
ORCH_MARKS = [("none", None), ("diff", "part"), ("same", "part"), ("same", "I"), ("force", None)]


def _kern_more_spines_than_lines(doc):
    """the document has more spines than lines (and no spine split): see FIXES_PENDING kern-more-spines-than-lines"""
    text = M.kern_text(doc)
    lines = [l for l in text.splitlines() if l and not l.startswith("!!")]
    return "*^" not in text and len(doc["spines"]) > len(lines)


def g_kern_staff_numbers(tier, seed):
    """the staff number of the *staffN interpretation over a magnitude alphabet, and orchestral numbers of spines:
    (a) 1 spine x N in STAFF_NUMS x clef {G2, undeclared} x {2 plain measures, spine split in measure 1 (the sub-spine
        stays on staff N)}
    (b) 2 spines x every ordered pair (a, b) of STAFF_PAIR_NUMS (a = b: two spines on one staff) x marking {separate
        parts unmarked, *part different, *part same, *I same, force_same_part=True}
    (c) N spines, N in ORCH_SIZES, one spine per staff x staff order {N..1, 1..N, N+5..6} x the 5 markings x 1-3
        measures x clefs {on every spine, undeclared}"""
    fs = fillings((4, 4), "kern")
    nums = STAFF_NUMS_THOROUGH if tier == "thorough" else STAFF_NUMS_QUICK
    sizes = ORCH_SIZES_THOROUGH if tier == "thorough" else ORCH_SIZES_QUICK
    pending = "kern-more-spines-than-lines" in FIXES_PENDING

    def mk(doc, mark):
        c = {"f": "kern", "doc": doc}
        if mark[0] == "force":
            c["opt"] = dict(FORCE)
        return c

    for n in nums:
        for clef in (("G", 2), None):
            ms = [reindex(fs[(n + mi) % 5], mi) for mi in range(2)]
            yield {"f": "kern", "doc": kern_doc([ms], staffs=[n], clefs=[clef])}
            yield {"f": "kern", "doc": kern_doc([ms], staffs=[n], clefs=[clef], splits=[{"0": reindex(fs[(n + 2) % 5], 4)}])}
    for a in STAFF_PAIR_NUMS:
        for b in STAFF_PAIR_NUMS:
            for mark in ORCH_MARKS:
                style, parts = _marked(2, mark) if mark[0] != "force" else ({}, None)
                sms = [[reindex(fs[(a + s + mi) % 5], 2 * s + mi) for mi in range(2)] for s in range(2)]
                # two spines that land on one staff of one part carry one clef
                clefs = [("G", 2), ("G", 2)] if a == b else [("F", 4), ("G", 2)]
                yield mk(kern_doc(sms, staffs=[a, b], clefs=clefs, parts=parts, style=style), mark)
    for n in sizes:
        for order in ("down", "up", "offset"):
            staffs = {"down": list(range(n, 0, -1)), "up": list(range(1, n + 1)), "offset": list(range(n + 5, 5, -1))}[order]
            for mark in ORCH_MARKS:
                for nm in (1, 2, 3):
                    for with_clefs in (True, False):
                        style, parts = _marked(n, mark) if mark[0] != "force" else ({}, None)
                        sms = [[reindex(fs[(s + mi) % 5], 2 * s + mi) for mi in range(nm)] for s in range(n)]
                        clefs = [[("G", 2), ("C", 3), ("F", 4)][s % 3] for s in range(n)] if with_clefs else None
                        doc = kern_doc(sms, staffs=staffs, clefs=clefs, parts=parts, style=style)
                        if pending and _kern_more_spines_than_lines(doc):
                            continue
                        yield mk(doc, mark)


def g_mei_staff_numbers(tier, seed):
    """staffDef@n / staff@n / layer@n over the magnitude alphabet and orchestral numbers of staves:
    (a) 1 staff x n in STAFF_NUMS x layer number {1, 2, 10, 12} x staffGrp {flat, nested}, 2 measures
    (b) 2 staves x every ordered pair (a, b), a != b, of STAFF_PAIR_NUMS x {flat, nested}; once more with the second
        event of staff a written with staff="b" (cross-staff attribute)
    (c) N staves 1..N, N in ORCH_SIZES x {flat, nested} x 1-2 measures x layer number {1, the staff number}"""
    fs = fillings((4, 4), "mei")
    nums = STAFF_NUMS_THOROUGH if tier == "thorough" else STAFF_NUMS_QUICK
    sizes = ORCH_SIZES_THOROUGH if tier == "thorough" else ORCH_SIZES_QUICK

    def mk(staves, nm, grp):
        return {"f": "mei", "doc": {"meter": [4, 4], "key": [0, None], "nm": nm, "staves": staves, "mei": {"group": grp}}}

    for n in nums:
        for ln in (1, 2, 10, 12):
            for grp in ("flat", "nested"):
                ms = [reindex(fs[(n + ln + mi) % len(fs)], mi) for mi in range(2)]
                yield mk([{"n": n, "clef": ["G", 2], "layers": [{"n": ln, "m": ms}]}], 2, grp)
    for a in STAFF_PAIR_NUMS:
        for b in STAFF_PAIR_NUMS:
            if a == b:
                continue
            for grp in ("flat", "nested"):
                for cross in (False, True):
                    staves = []
                    for s, sn in enumerate((a, b)):
                        ms = [reindex(fs[(a + s + mi) % 5], 2 * s + mi) for mi in range(2)]
                        if cross and s == 0:
                            ms[0] = [lf("n", 4, 0, 0), lf("n", 4, 0, 1, st=b), lf("n", 2, 0, 2)]
                        staves.append({"n": sn, "clef": ["G", 2] if s == 0 else ["F", 4], "layers": [{"n": 1, "m": ms}]})
                    yield mk(staves, 2, grp)
    for n in sizes:
        for grp in ("flat", "nested"):
            for nm in (1, 2):
                for own_layer in (False, True):
                    staves = [{"n": s + 1, "clef": [["G", 2], ["C", 3], ["F", 4]][s % 3],
                               "layers": [{"n": (s + 1) if own_layer else 1, "m": [reindex(fs[(s + mi) % len(fs)], 2 * s + mi) for mi in range(nm)]}]}
                              for s in range(n)]
                    yield mk(staves, nm, grp)


# ---------------------------------------------------------------------------------------------
# sub-spaces: the staff of chord members (cross-staff chords)
#
# A chord can be placed on another staff as a whole (@staff on <chord>) and every member can carry a @staff of its own
# (a chord that is split between the staves of a piano system).  The families above only have @staff on the chord or
# on a single note; here every combination of the two levels is enumerated.

CS_PITCH = {2: [["C", None, 4], ["E", None, 4]], 3: [["G", None, 2], ["D", None, 3], ["B", 0, 3]]}
CS_PITCH_B = [["B", -1, 3], ["F", 1, 4]]
CS_PAIRS_QUICK = [(1, 2)]
CS_PAIRS_THOROUGH = [(1, 2), (2, 5), (1, 12)]
CS_WRAPS = ["plain", "beam", "tup"]


def _cs_chord(v, pitches, st, pst, d=0):
    """a chord with @staff st on the <chord> (None: none) and pst[i] on its i-th <note> (None: none)"""
    e = {"k": "c", "v": v, "d": d, "p": [list(p) for p in pitches]}
    if st:
        e["st"] = st
    if any(pst):
        e["pst"] = list(pst)
    return e


def _cs_slots(pos, wrap, chord_of):
    """a 4/4 measure of three quarter notes and a quarter rest whose slot `pos` holds the chord: as a quarter, as the
    first of two beamed eighths, or as the middle member of an eighth triplet (chord_of(v) makes the chord)"""
    slots = [lf("n", 4, 0, 0), lf("n", 4, 0, 1), lf("n", 4, 0, 2), lf("r", 4)]
    if wrap == "plain":
        slots[pos] = chord_of(4)
    elif wrap == "beam":
        slots[pos] = {"k": "beam", "ev": [chord_of(8), lf("n", 8, 0, 5)]}
    else:
        slots[pos] = {"k": "tup", "num": 3, "nb": 2, "ev": [lf("n", 8, 0, 5), chord_of(8), lf("n", 8, 0, 6)]}
    return slots


def g_mei_chord_staff(tier, seed):
    """2 staves (a, b); one layer of one of them holds a chord whose <chord> element carries @staff in {none, own staff,
    other staff} and each of whose 2 or 3 <note> children carries @staff in {none, own staff, other staff} - the full
    product of the two levels - at each of 3 positions of the measure, as a quarter / inside a beam / inside a triplet,
    with the layer under the first or the second staff; and two consecutive 2-note chords with the full product for
    both (a following note and rest carry nothing).  Expected staff of a chord member: its own @staff, else the chord's,
    else the enclosing staff; everything else as in the other MEI spaces"""
    pairs = CS_PAIRS_THOROUGH if tier == "thorough" else CS_PAIRS_QUICK
    for sa, sb in pairs:
        for home in (0, 1):
            hs, other = (sa, sb) if home == 0 else (sb, sa)
            alpha = [None, hs, other]

            def mk(evs):
                fill = [lf("n", 1, 0, 4)]
                staves = [{"n": sa, "clef": ["G", 2], "layers": [{"n": 1, "m": [evs if home == 0 else fill]}]},
                          {"n": sb, "clef": ["F", 4], "layers": [{"n": 1, "m": [evs if home == 1 else fill]}]}]
                return {"f": "mei", "doc": {"meter": [4, 4], "key": [0, None], "nm": 1, "staves": staves, "mei": {}}}

            for size in (2, 3):
                for st in alpha:
                    for pst in itertools.product(alpha, repeat=size):
                        for pos in range(3):
                            for wrap in CS_WRAPS:
                                yield mk(_cs_slots(pos, wrap, lambda v: _cs_chord(v, CS_PITCH[size], st, pst)))
            for st1 in alpha:
                for pst1 in itertools.product(alpha, repeat=2):
                    for st2 in alpha:
                        for pst2 in itertools.product(alpha, repeat=2):
                            yield mk([_cs_chord(4, CS_PITCH[2], st1, pst1), _cs_chord(4, CS_PITCH_B, st2, pst2),
                                      lf("n", 4, 0, 3), lf("r", 4)])


RT_STAFF_SETS = [[12], [1, 12], [10, 11], [2, 100]]
RT_SIZES_QUICK = [3, 9, 10, 12]
RT_SIZES_THOROUGH = [3, 9, 10, 11, 12, 16, 24]


def g_roundtrip_staves(fmt, tier, seed):
    """parts with many staves / high staff numbers, one voice per staff (voice number = position of the staff):
    (a) staves 1..N, N in RT_SIZES x 1-2 measures x Clef objects {on every staff, on staves 1-2 only}
    (b) the staff sets of RT_STAFF_SETS (one or two staves with two- and three-digit numbers) x 1-2 measures, a clef on
        every staff"""
    fs = fillings((4, 4), "kern")
    sizes = RT_SIZES_THOROUGH if tier == "thorough" else RT_SIZES_QUICK
    pending = fmt == "kern" and "kern-export-row-budget" in FIXES_PENDING
    pending_load = fmt == "kern" and "kern-more-spines-than-lines" in FIXES_PENDING

    def written_lines(doc):
        """lines of the file save_kern writes for these parts (complete voices, no ties across): **kern, *staff, one
        line per Clef, meter, key, per measure the barline and one line per distinct onset, *-"""
        n = 2 + (len(doc["clef_on"]) if doc.get("clef_on") is not None else len(doc["staves"])) + 2 + 1
        for mi in range(doc["nm"]):
            onsets = set()
            for st in doc["staves"]:
                for ly in st["layers"]:
                    pos = F(0)
                    for leaf, tup in M.flatten(ly["m"][mi]):
                        onsets.add(pos)
                        pos += M.leaf_dur(leaf, tup)
            n += 1 + len(onsets)
        return n

    def mk(ns, nm, clef_on):
        staves = [{"n": n, "clef": [["G", 2], ["C", 3], ["F", 4]][i % 3],
                   "layers": [{"n": i + 1, "m": [reindex(fs[(i + mi) % 5], 2 * i + mi) for mi in range(nm)]}]} for i, n in enumerate(ns)]
        doc = {"meter": [4, 4], "key": [0, None], "nm": nm, "staves": staves, "mei": {}}
        if clef_on is not None:
            doc["clef_on"] = clef_on
        return {"f": "rt", "w": fmt, "doc": doc}

    for n in sizes:
        for nm in (1, 2):
            for clef_on in (None, [1, 2]):
                if pending and clef_on is None and n > KERN_EXPORT_MAX_CLEFS:
                    continue
                c = mk(list(range(1, n + 1)), nm, clef_on)
                if pending_load and n > written_lines(c["doc"]):
                    continue  # the written file has more spines than lines: load_kern raises on it
                yield c
    for ns in RT_STAFF_SETS:
        for nm in (1, 2):
            yield mk(ns, nm, None)


# file names: characters that are legal in a (POSIX) file name but special in URLs, shells, globs or format strings,
# further dots, an inner extension of another format
NAME_STEMS = ["C#_minor", "why?", "theme;var1", "a b", "a&b=c", "100%", "a%20b", "x.mid#2", "x.musicxml?raw=true", "a+b",
              "user@host", "a:b", "[1]", "{0}", "~a", "\u00fc-\u00e9", "a,b", "a'b", "(1)", "op.1.no.2", "x.mei.bak", "-x", "$HOME"]
NAME_DIRS = ["op#1", "a?b", "v;1", "x.mid", "a b", "k.krn"]


def g_dispatch_names(tier, seed):
    """load_score on local .mei/.krn/.kern files: every file-name stem of NAME_STEMS x every spelling of the
    extension; every directory name of NAME_DIRS; str / pathlib.Path / path relative to the working directory"""
    evs = [lf("n", 4, 0, 0), lf("c", 4, 1, 1), lf("r", 8, 0, 2), lf("n", 2, 0, 3)]
    docs = {"mei": mei_doc([[evs]]), "kern": kern_doc([[evs]])}
    exts = [("mei", ".mei"), ("mei", ".MEI"), ("kern", ".krn"), ("kern", ".kern"), ("kern", ".KRN")]
    pathlike = "load-score-pathlike" not in FIXES_PENDING
    for stem in NAME_STEMS:
        for fmt, ext in exts:
            yield {"f": "disp", "fmt": fmt, "ext": ext, "stem": stem, "doc": docs[fmt]}
        for fmt, ext in exts[1:3]:
            if pathlike:
                yield {"f": "disp", "fmt": fmt, "ext": ext.lower(), "stem": stem, "aspath": True, "doc": docs[fmt]}
            yield {"f": "disp", "fmt": fmt, "ext": ext.lower(), "stem": stem, "rel": True, "doc": docs[fmt]}
    for d in NAME_DIRS:
        for fmt, ext in (exts[0], exts[2], exts[3]):
            for stem in ("c19", NAME_STEMS[0]):
                yield {"f": "disp", "fmt": fmt, "ext": ext, "stem": stem, "dir": d, "doc": docs[fmt]}
                yield {"f": "disp", "fmt": fmt, "ext": ext, "stem": stem, "dir": d, "rel": True, "doc": docs[fmt]}
    if pathlike:
        for fmt, ext in (exts[0], exts[2]):
            yield {"f": "disp", "fmt": fmt, "ext": ext, "stem": "c19", "aspath": True, "doc": docs[fmt]}


def g_dispatch(tier, seed):
    evs = [lf("n", 4, 0, 0), lf("c", 4, 1, 1), lf("r", 8, 0, 2), lf("n", 2, 0, 3)]
    for fmt, exts in (("mei", [".mei", ".MEI", ".Mei"]), ("kern", [".krn", ".kern", ".KRN", ".Kern"])):
        for ext in exts:
            for nm in (1, 2):
                ms = [reindex(evs, mi) for mi in range(nm)]
                doc = mei_doc([ms]) if fmt == "mei" else kern_doc([ms])
                yield {"f": "disp", "fmt": fmt, "ext": ext, "doc": doc}
    # the extension decides, not the content
    yield {"f": "disp", "fmt": "mei", "ext": ".krn", "doc": mei_doc([[evs]]), "wrong": True}
    yield {"f": "disp", "fmt": "kern", "ext": ".mei", "doc": kern_doc([[evs]]), "wrong": True}
    yield {"f": "disp", "fmt": "kern", "ext": ".txt", "doc": kern_doc([[evs]]), "wrong": True}


def _pending_note(name, what):
    if name not in FIXES_PENDING:
        return ""
    return "; LEFT OUT until proposed_fixes/C19-s-%s.diff is applied: %s" % (name, what)


def spaces(tier, seed):
    def sp(name, gen, bounds, *a):
        return Space(name, (lambda: gen(*a, tier, seed)), exhaustive=True, bounds=bounds)

    q = " (quick: fixed core + hash block VERIF_SEED of the rest; thorough: everything)"
    return [
        sp("mei-rhythm", g_rhythm, "1 staff, 1 layer, 1 measure; all sequences of <=2 events over {note,chord,rest,space} x "
           "{breve..16th (thorough: ..32nd)} x {0,1,2 dots}; triple-dotted events alone and before a quarter; all 3-event sequences over {note,rest,space} x {4,8,16} x {0,1 dots}; "
           "the <=2 sequences again with declared ppq/dur.ppq" + q, "mei"),
        sp("kern-rhythm", g_rhythm, "1 spine, 1 measure; all sequences of <=2 tokens over {note,chord,rest} x {whole..16th} x {0,1,2 dots}; "
           "all 3-token sequences over {note,rest,chord} x {4,8,16} x {0,1 dots}" + q, "kern"),
        sp("mei-tuplet", g_tuplet, "tuplets 3:2 (half..16th, whole), 5:4, 6:4, 7:4; every {note,rest,chord}^3 member pattern, mixed values, "
           "beam inside/outside; pre x post events; following measure", "mei"),
        sp("kern-tuplet", g_tuplet, "same groups as mei-tuplet written as reciprocal values (12, 6, 20, 3%2 ...), beam marks", "kern"),
        sp("mei-pitch", g_pitch, "7 steps x alter {none,0,+-1,+-2} x octaves 1..7 (thorough 0..8) as note and in a chord x 4 ways of writing accidentals", "mei"),
        sp("kern-pitch", g_pitch, "7 steps x alter {none,n,#,-,##,--} x octaves 1..7 (thorough 0..8) as note and in a chord", "kern"),
        sp("mei-decl", g_mei_decl, "key x mode x key declaration place (4) x meter x meter declaration place (4) x clef {G2,F4,C3} x clef declaration x "
           "1-2 staves; quick: keys {0,+-2,+-7}, modes {none,minor}, 3 meters, one hash block of 2 plus a fixed core; thorough: keys -7..7, 3 modes, 4 meters"),
        sp("mei-layout", g_mei_layout, "5 staff/layer configurations (also non-consecutive n) x 2 measures, every filling per layer-measure "
           "(7 fillings incl. measure rest and leading space; 4 for >4 slots, quick: one hash block of 4); cross-staff attribute"),
        sp("mei-changes", g_mei_changes, "meter {4/4,3/4,6/8}^2 x key change x attr/child x at measure 2/3 x 1-2 staves with measure rests after the change or on both sides of it; "
           "clef change before each of 4 notes"),
        sp("mei-ties", g_ties, "4 events from {C, E, chord CE, rest} over 2 measures, every non-empty subset of legal ties, tie element in "
           "the measure of its start/end; two layers/staves with ties", "mei"),
        sp("kern-ties", g_ties, "same sequences, ties between single notes ([ _ ]); two spines (separate parts / one part)", "kern"),
        sp("mei-grace", g_grace, "1-2 grace notes before each of 3 positions x 3 contexts x 3 written values x acc/unacc", "mei"),
        sp("kern-grace", g_grace, "1-2 grace notes (q) before each of 3 positions x 3 contexts x 3 written values x with/without value", "kern"),
        sp("mei-grace-shared", g_grace_shared, "2 ordinary events from {note,chord,rest} x {4, 8, 8.} + a quarter, 1-2 grace notes before each of "
           "the 3 positions, written value of the grace notes in {4, 8, 8., 16} (equal to / different from the value of ordinary events of "
           "the same layer) x acc/unacc; next measure a whole note", "mei"),
        sp("kern-grace-shared", g_grace_shared, "the same sequences in one spine; grace tokens (q) written with {4, 8, 8., 16} or without digits "
           "(default 8), so that a grace note and an ordinary note/chord/rest of the spine share the rhythm token, in both orders", "kern"),
        sp("mei-repeat", g_mei_repeat, "3 measures, (left in {-,rptstart}) x (right in {-,rptend,end,dbl}) per measure x endings {none, 1+2, 1}" + q),
        sp("kern-structure", g_kern_structure, "meter x key x clef x 1-2 spines x part marking {none,*part same/diff,*I same/diff} x staff "
           "declarations x first/final barline; comments, unnumbered and invisible barlines cycled with the key" + q),
        sp("kern-layout", g_kern_layout, "2 spines (separate / one part) and 3 spines x 2 measures, every filling per spine-measure (5; 3 for 3 spines)"),
        sp("kern-changes", g_kern_changes, "meter {4/4,3/4,6/8}^2 x key change x at measure 2/3 x 1-2 spines"),
        sp("kern-split", g_kern_split, "spine split for measure 1 or 2: 5 main fillings x 5 sub-spine fillings x {alone, second spine left, right}"),
        sp("kern-split-mid", g_kern_split_mid, "spine split after 1 or 2 events of 4 main fillings x every sub-spine filling of the remaining "
           "length x measure 1/2 x {alone, second spine left/right, second spine of the same part after / before the splitting spine}"
           + _pending_note("kern-interp-line-inside-note", "same-part documents whose second spine splits while the first spine is inside a note")),
        sp("mei-mixed", g_mixed, "2 layers or 2 staves x 2 measures x 6 fillings with different subdivisions (6^4 combinations)" + q, "mei"),
        sp("kern-mixed", g_mixed, "2 spines (separate parts / one part) x 2 measures x the same 6 fillings (6^4 combinations)" + q, "kern"),
        sp("kern-force-same-part", g_kern_force_same_part, "load_kern(filename, force_same_part=True) - expected: ONE part, every spine a voice, "
           "notes/staves/measures/signatures as the notation denotes, divisions exact for every spine: 2 spines x 1 measure x all 36 ordered pairs of the 6 "
           "fillings of kern-mixed x part marking {none, *part diff, *I diff, *part same, *I same} x staves {2|1, undeclared, 1|2, 1|1}; 2 spines x 2 "
           "measures x 6^4 fillings x {unmarked, *part diff}; 3 spines x 1 measure x 6^3 fillings x staves {3|2|1, undeclared}; the 2-spine documents of "
           "kern-structure (one clef when both spines land on one staff), kern-layout (separate spines), kern-changes, kern-split, kern-split-mid, "
           "kern-ties; quick: complete for the 1-measure pairs with staves 2|1 / undeclared, the 3-spine triples with staves 3|2|1, changes, splits, ties "
           "and the structure documents in 4/4 without key signature; hash block VERIF_SEED of %d (2-measure family: of %d, structure: of %d) of the rest; "
           "thorough: everything" % (KERN_FORCE_BLOCKS, KERN_FORCE_BLOCKS + 2, KERN_FORCE_STRUCT_BLOCKS)
           + _pending_note("kern-interp-line-inside-note", "split documents whose second spine splits while the first spine is inside a note")),
        sp("kern-partial-part", g_kern_partial_part, "3 spines, two of them marked as one part (*part / *I), 5 fillings"),
        sp("kern-chord-ties", g_kern_chord_ties, "the mei-ties sequences whose ties touch a chord, written in kern"),
        sp("roundtrip-mei", g_roundtrip, "parts built through the public API: rhythm sequences (<=2 events, dots), 4 staff/voice layouts x fillings, "
           "tuplet groups, tie patterns, 7x6x7 pitches, grace notes; save_mei -> load_mei" + q, "mei"),
        sp("roundtrip-kern", g_roundtrip, "the same parts without grace notes; save_kern -> load_kern; quick: 1-event rhythms complete, the "
           "other families by hash block (the writer needs 0.1-0.3 s per part)" + q, "kern"),
        sp("roundtrip-mei-staffmove", g_roundtrip_staffmove, "2-staff parts, save_mei -> load_mei: per measure a voice is placed on staff 1 or 2, "
           "optionally with its last note/chord on the other staff (4 placements); 1 voice x 3 measures (4^3 x 2 filling rotations), 2 voices x 2 "
           "measures (4^4), 2 voices x 3 measures and 3 voices x 2 measures over the whole-measure placements (2^6 each)"
           + ("; LEFT OUT until proposed_fixes/C19-s-mei-export-empty-staff.diff is applied: parts with a measure whose events are all on staff 2 "
              "(save_mei raises there)" if "mei-export-empty-staff" in FIXES_PENDING else ""), "mei"),
        sp("roundtrip-kern-staffmove", g_roundtrip_staffmove, "the same parts (every voice/staff pair becomes a spine), save_kern -> load_kern; "
           "quick: hash block VERIF_SEED of %d, thorough: all" % KERN_STAFFMOVE_BLOCKS, "kern"),
        sp("roundtrip-mei-chordstaff", g_roundtrip_chordstaff, "2-staff parts, save_mei -> load_mei, one voice with a chord whose 2 or 3 member "
           "notes are placed on staff 1/2 independently (all 2^2 + 2^3 assignments, split and uniform) x chord at each of 3 positions of a "
           "4-slot measure x plain/dotted quarter x the other events of the voice on staff 1/2 x second voice on staff 2 present/absent; two "
           "consecutive 2-member chords with all 4 x 4 assignments; the chord as middle member of an eighth triplet (4 assignments); a "
           "second measure of whole notes", "mei"),
        sp("roundtrip-kern-chordstaff", g_roundtrip_chordstaff, "the same parts, save_kern -> load_kern, as far as the kern writer can express "
           "them: every (voice, staff) pair is a spine that is continuous from its first to its last event of a measure and whose distance "
           "to the barlines is one note value (the writer adds one rest there); parts in which the voice leaves a staff and comes back "
           "within the measure (all members of an inner chord on the other staff) are outside; quick: hash block VERIF_SEED of %d, "
           "thorough: all" % KERN_CHORDSTAFF_BLOCKS
           + _pending_note("kern-export-interleaved-chord", "parts with a 3-member chord whose members are on staff 1, 2, 1 or 2, 1, 2 (save_kern "
                           "drops the first member)"), "kern"),
        sp("roundtrip-mei-estimated", g_roundtrip_estimated, "1 voice, notes/chords/rests built WITHOUT symbolic_duration (the writer takes the note "
           "value the library estimates from the numeric duration), save_mei -> load_mei: every {note,chord,rest} x {breve..64th} x {0..3 dots} "
           "+ a quarter note with explicit value; all pairs over {note,rest} x {whole..16th} x {0..3 dots} + the quarter (quick: hash block "
           "VERIF_SEED of 4)", "mei"),
        sp("roundtrip-kern-estimated", g_roundtrip_estimated, "the same parts, save_kern -> load_kern (quick: single events complete, pairs: hash "
           "block VERIF_SEED of %d)" % KERN_EST_PAIR_BLOCKS, "kern"),
        sp("roundtrip-kern-gaps", g_roundtrip_gaps, "save_kern -> load_kern of 2-measure parts in 4/4 and 3/4 with a voice that enters a 16ths "
           "after the barline and stops c 16ths before the next one, a and c over every length that is ONE note value (1,2,3,4,6,7,8,12,14,15 "
           "16ths; 0 = none; plus entry gaps of k in {1,2,3,4,6} units of a 3:2, 5:4, 6:4 or 7:4 tuplet of 16ths or 8ths (one dotted tuplet value, e.g. 3/7 of a quarter) in 4/4; gaps that need two tied values cannot be written by fill_rests as one rest and are outside), the sounding rest "
           "filled with plain values (explicit); x gap in measure 1/2 x other measure complete/absent x {alone, beside a voice of whole-measure "
           "notes on the same / another staff} (12 placements); quick: every (a, c) of 4/4 with one placement (cycled) + hash block VERIF_SEED "
           "of %d of the rest; the MEI writer has no rest filling (gaps are not expressible there)" % KERN_GAP_BLOCKS),
        sp("kern-staff-numbers", g_kern_staff_numbers, "magnitude of the staff number and orchestral numbers of spines: 1 spine x *staffN, N in "
           "%s (thorough: 1..40 and %s) x clef {G2, undeclared} x {2 plain measures, spine split in measure 1}; 2 spines x all 49 ordered pairs "
           "of staff numbers %s (equal = two spines on one staff) x {unmarked, *part different, *part same, *I same, force_same_part=True}; N spines "
           "with one staff each, N in %s (thorough: %s) x staff order {N..1, 1..N, N+5..6} x the same 5 markings x 1-3 measures x clefs {every "
           "spine, undeclared}; expected as everywhere: every note on the staff its spine declares, a clef in force on that staff, one voice "
           "per spine" % (STAFF_NUMS_QUICK, STAFF_NUMS_THOROUGH[40:], STAFF_PAIR_NUMS, ORCH_SIZES_QUICK, ORCH_SIZES_THOROUGH)
           + _pending_note("kern-more-spines-than-lines", "the N-spine documents that have more spines than lines (load_kern raises IndexError): "
                           "N=16 with 1 measure, N=24 with 1-2 measures (thorough: also N=20 x 1, N=32/40 x 1-2 or 1-3)")),
        sp("mei-staff-numbers", g_mei_staff_numbers, "1 staff x staffDef@n in the same staff-number alphabet x layer@n {1,2,10,12} x staffGrp "
           "{flat, nested}; 2 staves x all ordered pairs a != b of %s x {flat, nested} x {plain, one note of staff a with staff=\"b\"}; N staves "
           "1..N, N in %s (thorough: %s) x {flat, nested} x 1-2 measures x layer@n {1, staff number}" % (STAFF_PAIR_NUMS, ORCH_SIZES_QUICK, ORCH_SIZES_THOROUGH)),
        sp("mei-chord-staff", g_mei_chord_staff, "staff of chord members, 2 staves (a, b) = (1, 2) (thorough: also (2, 5), (1, 12)), the layer "
           "with the chord under staff a or b: <chord @staff> in {absent, own staff, other staff} x <note @staff> of each of its 2 or 3 "
           "members in {absent, own, other} (full product 3 x 3^2 + 3 x 3^3) x chord in slot 1-3 of a 4-slot measure x {quarter, first of "
           "two beamed eighths, middle of an eighth triplet}; two consecutive 2-note chords with the full product for both (27 x 27) "
           "followed by a note and a rest without @staff; expected staff of a member: its own @staff, else the chord's, else the <staff> "
           "it is encoded in"),
        sp("roundtrip-mei-staves", g_roundtrip_staves, "save_mei -> load_mei of parts with one voice per staff: staves 1..N, N in %s (thorough: %s) x "
           "1-2 measures x Clef objects {every staff, staves 1-2 only}; staff sets %s x 1-2 measures"
           % (RT_SIZES_QUICK, RT_SIZES_THOROUGH, RT_STAFF_SETS), "mei"),
        sp("roundtrip-kern-staves", g_roundtrip_staves, "the same parts, save_kern -> load_kern (complete in both tiers)"
           + _pending_note("kern-export-row-budget", "the parts with a Clef object on every one of more than %d staves (save_kern raises "
                           "IndexError); the same staves with clefs on staves 1-2 only are kept" % KERN_EXPORT_MAX_CLEFS)
           + _pending_note("kern-more-spines-than-lines", "the parts whose written file has more spines than lines (thorough only: 16 staves x 1 "
                           "measure, 24 staves x 1-2 measures with clefs on staves 1-2; load_kern raises IndexError on the file)"), "kern"),
        sp("dispatch", g_dispatch, "load_score on .mei/.MEI/.Mei/.krn/.kern/.KRN/.Kern; wrong extension for the content"),
        sp("dispatch-names", g_dispatch_names, "load_score on local files: %d file-name stems with characters special in URLs/shells/globs, inner "
           "dots and inner extensions x {.mei,.MEI,.krn,.kern,.KRN}; %d directory names; given as str, pathlib.Path or relative path"
           % (len(NAME_STEMS), len(NAME_DIRS))
           + ("; LEFT OUT until proposed_fixes/C19-s-load-score-pathlike.diff is applied: the pathlib.Path arguments (load_score raises for "
              "every os.PathLike)" if "load-score-pathlike" in FIXES_PENDING else "")),
    ]


# ---------------------------------------------------------------------------------------------
# evaluation

_TMP = None


def _tmpdir():
    global _TMP
    if _TMP is None or not os.path.isdir(_TMP):
        _TMP = tempfile.mkdtemp(prefix="c19-")
        import atexit
        from multiprocessing import util as mp_util

        atexit.register(shutil.rmtree, _TMP, True)  # serial runs and replay
        mp_util.Finalize(None, shutil.rmtree, args=(_TMP, True), exitpriority=1)  # pool workers skip atexit
    return _TMP


def _call(res, clause, fn, *a, **kw):
    """run a loader/writer silently; exception -> violation"""
    buf = io.StringIO()
    try:
        with contextlib.redirect_stdout(buf):
            return True, fn(*a, **kw)
    except Hang:
        raise
    except Exception as e:  # noqa
        res.fail(clause, kind="exception", where=innermost_partitura_frame(e), observed=exc_text(e))
        return False, None


def _fr(x):
    if isinstance(x, F):
        return "%d/%d" % (x.numerator, x.denominator) if x.denominator != 1 else int(x)
    if isinstance(x, (list, tuple)):
        return [_fr(v) for v in x]
    return x


def _first_diff(a, b):
    for i, (x, y) in enumerate(zip(a, b)):
        if x != y:
            return {"index": i, "expected": _fr(x), "observed": _fr(y)}
    return {"expected_len": len(a), "observed_len": len(b),
            "extra": _fr((a[len(b):] or b[len(a):])[:3])}


def _proj(notes, idx):
    return sorted((tuple(n[i] for i in idx) for n in notes), key=lambda t: tuple((x is None, str(type(x)), x if x is not None else 0) for x in t))


def compare_part(res, fmt, rp, op, tag):
    """clause by clause; stops at the first failing note clause of the part (later ones would be noise)"""
    where = "load_mei" if fmt == "mei" else "load_kern"
    # the divisions represent every duration exactly
    if not op["int_times"]:
        res.fail("divisions-exact", expected="integer timeline positions", observed="non-integer start/end", where=where, detail=tag)
        return False
    # every encoded note, chord and rest is there, with its spelling (grace notes as grace notes)
    SP = (2, 3, 4, 5)
    a, b = _proj(rp["notes"], SP), _proj(op["notes"], SP)
    if a != b:
        d = _first_diff(a, b)
        res.fail("pitch-spelling", expected=d.get("expected", d), observed=d.get("observed", "%d elements instead of %d" % (len(b), len(a))),
                 where=where, detail=tag + " (kind, step, alter, octave) of every note, chord member and rest")
        return False
    a, b = _proj(rp["notes"], SP + (0,)), _proj(op["notes"], SP + (0,))
    if a != b:
        d = _first_diff(a, b)
        res.fail("onset", expected=d.get("expected"), observed=d.get("observed"), where=where, detail=tag + " (kind, step, alter, octave, onset)")
        return False
    a, b = _proj(rp["notes"], SP + (0, 1)), _proj(op["notes"], SP + (0, 1))
    if a != b:
        d = _first_diff(a, b)
        clause = "grace-without-duration" if d.get("expected", [""])[0] == "grace" else "duration"
        res.fail(clause, expected=d.get("expected"), observed=d.get("observed"), where=where,
                 detail=tag + " (kind, step, alter, octave, onset, duration) divs=%s" % (op["divs"],))
        return False
    a, b = _proj(rp["notes"], SP + (0, 1, 7)), _proj(op["notes"], SP + (0, 1, 7))
    if a != b:
        d = _first_diff(a, b)
        res.fail("staff", expected=d.get("expected"), observed=d.get("observed"), where=where, detail=tag + " (..., staff)")
        return False
    ok = True
    # voices
    if fmt == "mei":
        a, b = _proj(rp["notes"], SP + (0, 1, 7, 6)), _proj(op["notes"], SP + (0, 1, 7, 6))
        if a != b:
            d = _first_diff(a, b)
            res.fail("voice", expected=d.get("expected"), observed=d.get("observed"), where=where, detail=tag + " (..., staff, voice = layer n)")
            ok = False
    else:
        labels = sorted({n[6] for n in rp["notes"]})
        voices = sorted({n[6] for n in op["notes"]}, key=lambda v: (v is None, v or 0))

        def partition(notes):
            # the multiset of voice contents: a bijection between the labels and the reader's voice numbers that maps
            # every note onto its counterpart exists iff the two multisets are equal (no search over the orderings of
            # the voices, which is factorial in the number of spines of a part)
            groups = {}
            for n in notes:
                groups.setdefault(n[6], []).append(n)
            return sorted((_proj(g, SP + (0, 1, 7)) for g in groups.values()), key=repr)

        found = len(labels) == len(voices) and partition(rp["notes"]) == partition(op["notes"])
        if not found:
            res.fail("voice", expected="one voice per spine/sub-spine: %d voices" % len(labels),
                     observed="voices %r; %s" % (voices, _fr(_proj(op["notes"], (0, 3, 5, 6))[:8])), where=where, detail=tag)
            ok = False
    # ties joined
    ta = sorted((x[0][:4], x[1][:4]) for x in rp["ties"])
    tb = sorted((x[0][:4], x[1][:4]) for x in op["ties"])
    if ta != tb or op["bad_links"]:
        res.fail("ties-joined", expected=_fr(ta), observed={"links": _fr(tb), "inconsistent": op["bad_links"][:3]}, where=where, detail=tag)
        ok = False
    elif rp["sounding"] != op["sounding"]:
        res.fail("ties-joined", expected=_fr(rp["sounding"]), observed=_fr(op["sounding"]), where=where, detail=tag + " merged (onset, duration, midi)")
        ok = False
    # measures start at the encoded barlines
    need, opt, got = set(rp["measures"]), set(rp["opt_measures"]), list(op["measures"])
    if not (need <= set(got)) or not (set(got) <= need | opt) or len(got) != len(set(got)):
        res.fail("measure-starts", expected={"required": _fr(sorted(need)), "also accepted": _fr(sorted(opt - need))},
                 observed=_fr(got), where=where, detail=tag)
        ok = False
    # meter, key, clef in force at every note and measure
    probes = sorted({n[0] for n in rp["notes"]} | need)
    for q in probes:
        e, o = M.in_force(rp["ts"], q), M.in_force(op["ts"], q)
        if e != o:
            res.fail("meter-in-force", expected={"at": _fr(q), "meter": e}, observed={"meter": o, "table": _fr(op["ts"])}, where=where, detail=tag)
            ok = False
            break
    for q in probes:
        e, o = M.in_force(rp["ks"], q), M.in_force(op["ks"], q)
        if e is not None and e[1] is None and o is not None:
            o = (o[0], None)
        if e != o:
            res.fail("key-in-force", expected={"at": _fr(q), "key": e}, observed={"key": o, "table": _fr(op["ks"])}, where=where, detail=tag)
            ok = False
            break
    staffs = sorted({c[1] for c in rp["clefs"]})
    done = False
    for q in probes:
        for s in staffs:
            e = M.in_force(rp["clefs"], q, key=lambda r: r[1] == s)
            o = M.in_force(op["clefs"], q, key=lambda r: r[1] == s)
            if e != o:
                res.fail("clef-in-force", expected={"at": _fr(q), "clef": e}, observed={"clef": o, "table": _fr(op["clefs"])}, where=where, detail=tag)
                ok = False
                done = True
                break
        if done:
            break
    return ok


def check_note_array(res, fmt, parts, ref_parts, tag):
    """the note array view of every part: (onset_quarter, duration_quarter, pitch) of the sounding notes with ties
    merged; onsets are compared up to one common shift per part (the quarter map puts 0 at the first full bar)"""
    import numpy as np

    for i, (part, rp) in enumerate(zip(parts, ref_parts)):
        exp = list(rp["sounding"])
        exp.extend((n[0], F(0), M.midi_pitch(n[3], n[4], n[5])) for n in rp["notes"] if n[2] == "grace")
        if not exp:
            continue
        key = lambda t: (round(t[0], 4), round(t[1], 4), t[2])  # noqa: E731
        got = sorted(((float(r["onset_quarter"]), float(r["duration_quarter"]), int(r["pitch"])) for r in part.note_array()), key=key)
        exp_f = sorted(((float(a), float(np.float32(float(b))), c) for a, b, c in exp), key=key)
        bad = len(got) != len(exp_f)
        if not bad:
            shift = got[0][0] - exp_f[0][0]
            for g, e in zip(got, exp_f):
                if g[2] != e[2] or abs(g[0] - shift - e[0]) > 1e-4 * max(1, abs(e[0])) or abs(g[1] - e[1]) > 1e-4 * max(1, abs(e[1])):
                    bad = True
                    break
        if bad:
            res.fail("note-array", expected=[list(x) for x in exp_f[:12]], observed=[list(x) for x in got[:12]],
                     where="note_array after " + ("load_mei" if fmt == "mei" else "load_kern"), detail="%spart %d (onsets up to a common shift)" % (tag, i))
            return


def eval_load(case, res, loader_name=None, path_ext=None):
    fmt = case["f"] if case["f"] in ("mei", "kern") else case["fmt"]
    doc = case["doc"]
    if fmt == "mei":
        text = M.mei_text(doc)
        ref = M.reference_mei(doc)
        ext = path_ext or ".mei"
    else:
        text = M.kern_text(doc)
        ref = M.reference_kern(doc, force_same_part=bool((case.get("opt") or {}).get("force_same_part")))
        ext = path_ext or ".krn"
    folder = _tmpdir()
    if case.get("dir"):
        folder = os.path.join(folder, case["dir"])
        os.makedirs(folder, exist_ok=True)
    name = (case.get("stem") or "c19") + ext
    path = os.path.join(folder, name)
    with open(path, "w", encoding="utf-8") as f:
        f.write(text)
    cwd = None
    try:
        import partitura
        from partitura.io.importmei import load_mei
        from partitura.io.importkern import load_kern

        if loader_name == "load_score":
            fn = partitura.load_score
            clause = "dispatch-by-extension"
        else:
            fn = load_mei if fmt == "mei" else load_kern
            clause = "loads"
        arg = path
        if case.get("rel"):
            # the same file named relative to the working directory
            cwd = os.getcwd()
            os.chdir(_tmpdir())
            arg = os.path.join(case["dir"], name) if case.get("dir") else name
        if case.get("aspath"):
            import pathlib

            arg = pathlib.Path(arg)
        res.transitions += 1
        # keyword options of the reader itself (load_score has none of them)
        opts = dict(case.get("opt") or {}) if loader_name is None else {}
        ok, score = _call(res, clause, fn, arg, **opts)
    finally:
        if cwd is not None:
            os.chdir(cwd)
        try:
            os.remove(path)
            if case.get("dir"):
                os.rmdir(folder)
        except OSError:
            pass
    if not ok:
        res.outcome = "%s raises" % fmt
        return None, ref
    return score, ref


def judge_loaded(res, fmt, score, ref, tag=""):
    obs = M.observe(score)
    where = "load_mei" if fmt == "mei" else "load_kern"
    nref, nobs = len(ref["parts"]), len(obs["parts"])
    obs["order"] = None
    if nref != nobs:
        res.fail("parts-as-encoded", expected="%d parts" % nref, observed="%d parts" % nobs, where=where, detail=tag)
        return obs
    order = list(range(nobs))
    if fmt == "kern" and nobs > 1:
        sp = lambda p: _proj(p["notes"], (2, 3, 4, 5))  # noqa: E731
        direct = all(sp(a) == sp(b) for a, b in zip(ref["parts"], obs["parts"]))
        rev = all(sp(a) == sp(b) for a, b in zip(ref["parts"], obs["parts"][::-1]))
        if rev or not direct:
            order = order[::-1]  # the reader lists the last spine first; both orders are accepted
    obs["order"] = order
    for i, rp in enumerate(ref["parts"]):
        compare_part(res, fmt, rp, obs["parts"][order[i]], "%spart %d" % (tag, i))
    return obs


def eval_roundtrip(case, res):
    from mc.ir import build_part
    import partitura.score as S
    from partitura.io.exportmei import save_mei
    from partitura.io.exportkern import save_kern
    from partitura.io.importmei import load_mei
    from partitura.io.importkern import load_kern

    spec, expected = part_spec(case["doc"])
    nn = 0
    outs = []
    for fmt in (case["w"],):
        part = build_part(spec)
        path = os.path.join(_tmpdir(), "c19rt." + ("mei" if fmt == "mei" else "krn"))
        try:
            res.transitions += 1
            ok, _ = _call(res, "export-%s" % fmt, save_mei if fmt == "mei" else save_kern, part, path)
            if not ok:
                outs.append(fmt + ":export raises")
                continue
            res.transitions += 1
            ok, score = _call(res, "export-%s-reload" % fmt, load_mei if fmt == "mei" else load_kern, path)
            if not ok:
                outs.append(fmt + ":reload raises")
                continue
        finally:
            try:
                os.remove(path)
            except OSError:
                pass
        got = []
        for p in score.parts:
            for n in p.iter_all(S.Note, include_subclasses=True):
                on = M._quarter(p, int(n.start.t))
                du = M._quarter(p, int(n.end.t)) - on
                got.append((on, du, M.midi_pitch(n.step, n.alter, n.octave), n.staff))
        got.sort()
        nn = max(nn, len(got))
        where = "save_%s -> load_%s" % (fmt, fmt)
        if got != expected:
            pr = lambda xs, idx: sorted(tuple(x[i] for i in idx) for x in xs)  # noqa: E731
            if len(got) != len(expected) or pr(got, (2,)) != pr(expected, (2,)):
                clause = "pitch"
            elif pr(got, (2, 0)) != pr(expected, (2, 0)):
                clause = "onset"
            elif pr(got, (2, 0, 1)) != pr(expected, (2, 0, 1)):
                clause = "duration"
            else:
                clause = "staff"
            d = _first_diff(expected, got)
            res.fail("roundtrip-%s-%s" % (fmt, clause), expected=d.get("expected", d), observed=d.get("observed", d), where=where,
                     detail="(onset, duration, midi pitch, staff) of every note; %d expected, %d loaded" % (len(expected), len(got)))
            outs.append(fmt + ":" + clause)
        else:
            outs.append(fmt + ":ok")
    res.outcome = "rt " + " ".join(outs)
    res.nontrivial = nn > 0


def eval_case(case):
    res = CaseResult(states=1, transitions=0, traces=1)
    f = case["f"]
    if f == "rt":
        eval_roundtrip(case, res)
        return res
    if f == "disp":
        fmt = case["fmt"]
        if case.get("wrong"):
            # content of one format under the extension of the other (or an unknown one): the reader that belongs
            # to the extension is used, so the document cannot come back as the score it encodes
            score, ref = eval_load(case, CaseResult(), "load_score", case["ext"])
            good = False
            if score is not None:
                try:
                    probe = CaseResult()
                    judge_loaded(probe, fmt, score, ref)
                    good = not probe.violations
                except Exception:
                    good = False
            res.transitions += 1
            if good:
                res.fail("dispatch-by-extension", expected="reader chosen from the extension %s" % case["ext"],
                         observed="content was sniffed: %s document loaded correctly" % fmt, where="load_score")
            res.outcome = "disp wrong-ext " + ("loaded" if score is not None else "rejected")
            res.nontrivial = True
            return res
        score, ref = eval_load(case, res, "load_score", case["ext"])
        if score is not None:
            obs = judge_loaded(res, fmt, score, ref, "load_score(%s%s) " % (case.get("stem") or "", case["ext"]))
            res.outcome = "disp %s ok" % fmt
            res.nontrivial = any(p["notes"] for p in obs["parts"])
        return res
    score, ref = eval_load(case, res)
    if score is None:
        return res
    obs = judge_loaded(res, f, score, ref)
    if not res.violations and obs["order"] is not None:
        parts = list(score.parts)
        _call(res, "note-array", check_note_array, res, f, [parts[j] for j in obs["order"]], ref["parts"], "")
    nn = sum(len(p["notes"]) for p in obs["parts"])
    nt = sum(len(p["ties"]) for p in obs["parts"])
    res.outcome = "%s p%d n%d t%d %s" % (f, len(obs["parts"]), nn, nt, "ok" if not res.violations else res.violations[0]["clause"])
    res.nontrivial = nn > 0
    return res


# ---------------------------------------------------------------------------------------------
# known findings


def _has_chord_tie(case, v):
    return bool(case.get("chord_tie"))


def _partial_part(case, v):
    return bool(case.get("partial_part"))


TRIGGERS = {"kern_tie_touches_chord": _has_chord_tie, "kern_some_spines_share_a_part": _partial_part}


if __name__ == "__main__":
    import checks.c19 as _m

    run_check(_m)
