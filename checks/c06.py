"""C06 - performance MIDI export and import preserve notes, controls and timing.

Two families of bounded, completely enumerated sub-spaces (DESIGN section 4, C06):

(a) round trip ("rt-*"): a performance described by a plain spec is built with the public classes
    (PerformedPart / Performance / list), written with `save_performance_midi` for every
    (ppq, mpq), merge flag, input kind and output kind, and read back with `load_performance_midi`
    (or `load_performance`).  The written file is first read by the *reference reader*
    (mc/c06_model.py: ticks, tempo map, pairing) and compared with the expectation computed from
    the spec (exporter alone), then the loaded Performance is compared with the same expectation
    (end to end), then the loaded Performance is saved and loaded once more (second generation).
(b) raw files ("raw-*"): abstract MIDI files (tracks of absolute-tick events with set_tempo events
    in any track) are written with mido and loaded; the expectation is the reference reader's:
    piecewise integration of all tempo changes in tick order (Fractions), note-on paired with the
    next note-off / zero-velocity note-on of the same channel and pitch, ids ordered by
    (onset, pitch, offset, channel, track).
(c) silence removal ("silence-*"): the same two kinds of input (abstract files; saved performances) are
    loaded with `load_performance(..., first_note_at_zero=True)`; the expectation is the reference
    reading on a time axis whose origin is the first note onset: notes exactly, control / program
    changes through the value in effect at every time >= 0 (mc/c06_silence.py), with events placed
    before, at and after the first onset.
(d) saving a loaded performance ("resave-*"): the performance obtained in (a) or (b) - whose events carry
    the tick fields of the file they came from and whose parts carry ppq / mpq attributes - is edited
    (seconds only), saved with a second, independent (ppq, mpq) and loaded; the expectation is computed
    from the seconds of the saved parts rounded to the ticks of the second configuration.
    "resave-layouts": files whose tracks are every sequence of part-yielding and non-part-yielding tracks.
(e) track numbering ("rt-track-gaps"): Performances built from parts with arbitrary (gapped, non zero-based,
    shared) track numbers; the numbers left by the constructor must survive the round trip.
"""
import itertools
import os
import re
import tempfile
from fractions import Fraction as F

from mc.core import CaseResult, Space, run_check, guarded, block_of, innermost_partitura_frame, exc_text
from mc import c06_model as M
from mc import c06_silence as SIL

PID = "C06"
RULE = (
    "every case is one (performance spec, export/import configuration) or one (abstract MIDI file, "
    "import configuration), for resave-* followed by (edit, second export configuration); cases are "
    "distinct by construction inside a sub-space; non-trivial = at least one note was expected and the "
    "file was written and loaded"
)
ASSUMPTIONS = [
    "mido (MIDI file format layer) is trusted; the reference reader works on absolute-tick event lists",
    "a time whose exact tick position is within 1e-9 of k+1/2 may be written to either neighbouring tick",
    "order of messages inside one tick and order of list entries with equal time are not compared "
    "(controls, programs, signatures and meta events are compared as multisets)",
    "track: list / PerformedPart inputs use track numbers 0..k-1 without gaps; for a Performance the "
    "numbers left by its constructor (any bijection onto 0..k-1 is accepted) are the original ones; with "
    "merging on either side every track is 0",
    "a part without program changes may gain one default program change (program 0) per used "
    "(channel, track), not later than the part's first note/control; both readings are accepted",
    "meta events are only generated on tracks that also carry notes, controls or programs (a track "
    "with nothing else is not returned as a performed part by the importer)",
    "the automatically written end_of_track meta message is not compared",
    "same-tick set_tempo events in different tracks with different values: either may be the later one",
    "control number 64 is not combined with overlapping equal pitches in one part (sound_off "
    "computation belongs to C14)",
    "with merging, notes of equal pitch and channel coming from different tracks are separated by at "
    "least one tick (order inside a tick of a merged track is mido's)",
    "before the first set_tempo the tempo is default_bpm (120 unless given)",
    "resave-*: the times of a performance are the seconds it holds (note_on, note_off, time) at the moment "
    "it is saved; note_on_tick / note_off_tick / time_tick fields left by the importer and the ppq / mpq "
    "attributes of a PerformedPart are not times of the performance (the export resolution is the ppq / "
    "mpq chosen on export); the tracks of the written file are the track numbers in use in ascending "
    "order (list / part input; a saved Performance must return every event with the track number it holds: the "
    "statement's 'same track'); the second round is only run when the first one agreed with its own expectation",
    "rt-track-gaps: when Performance() leaves numbers that are not a bijection onto 0..k-1 (reported as "
    "rt-track-numbers-unique) but still one number per (part, track) and none shared, the round trip is run "
    "with the numbers the Performance holds",
    "resave-layouts: loading a file with tracks that yield no performed part does not claim which track numbers "
    "the returned parts get (statement silent); only the save/load round of the returned Performance does",
    "silence-*: load_performance(..., first_note_at_zero=True) is the loaded content on a time axis whose "
    "origin is the first note onset: notes are compared exactly (time - origin); control and program "
    "changes are compared through the value in effect at every time >= 0 per (track, channel, number) "
    "resp. (track, channel) - how events before the origin are represented (kept at 0, merged) is open, and "
    "nothing is claimed before the first original event of a controller; key/time signatures and other "
    "meta events are not compared there (the statement does not say whether they move); only files "
    "that yield one performed part with at least one note are generated (which parts are shifted "
    "otherwise is open); no two events of one controller share a tick",
]
CHUNK = 40

CONFIGS = [(480, 500000), (480, 600000), (480, 333333), (96, 500000), (96, 600000), (96, 333333),
           (1000, 500000), (1000, 600000), (1000, 333333)]
MERGES = [(0, 0), (1, 0), (0, 1), (1, 1)]
IOS = ["object", "path", "file"]

CATS = {
    "notes": (("pitch", "vel", "ch", "track"), ("on", "off")),
    "controls": (("num", "val", "ch", "track"), ("t",)),
    "programs": (("prog", "ch", "track"), ("t",)),
    "keysigs": (("fifths", "mode", "track"), ("t",)),
    "timesigs": (("beats", "beat_type", "track"), ("t",)),
    "metas": (("type", "attrs", "track"), ("t",)),
}


_TMP = {}


def tmp_path(name):
    """private directory per worker process, created lazily, removed when the worker exits"""
    pid = os.getpid()
    d = _TMP.get(pid)
    if d is None:
        import atexit
        import shutil
        from multiprocessing import util as _mpu

        d = tempfile.mkdtemp(prefix="c06-")
        _TMP.clear()
        _TMP[pid] = d
        _mpu.Finalize(None, shutil.rmtree, args=(d, True), exitpriority=1)
        atexit.register(shutil.rmtree, d, True)
    return os.path.join(d, name)


def _unlink(path):
    try:
        os.unlink(path)
    except OSError:
        pass


# ---------------------------------------------------------------------------------------------
# observation of the implementation's result


def observe(perf):
    obs = dict(notes=[], controls=[], programs=[], keysigs=[], timesigs=[], metas=[])
    for pp in perf.performedparts:
        for n in pp.notes:
            obs["notes"].append(dict(pitch=n["midi_pitch"], vel=n["velocity"], ch=n["channel"], track=n["track"],
                                     on=n["note_on"], off=n["note_off"], id=n["id"]))
        for c in pp.controls:
            obs["controls"].append(dict(num=c.get("number"), val=c.get("value"), ch=c.get("channel"),
                                        track=c.get("track"), t=c.get("time")))
        for p in pp.programs:
            obs["programs"].append(dict(prog=p.get("program"), ch=p.get("channel"), track=p.get("track"),
                                        t=p.get("time")))
        for k in pp.key_signatures:
            obs["keysigs"].append(dict(fifths=k.get("fifths"), mode=k.get("mode"), track=k.get("track"),
                                       t=k.get("time")))
        for k in pp.time_signatures:
            obs["timesigs"].append(dict(beats=k.get("beats"), beat_type=k.get("beat_type"), track=k.get("track"),
                                        t=k.get("time")))
        for m in pp.meta_other:
            if m.get("type") == "end_of_track":
                continue
            attrs = dict((k, v) for k, v in m.items() if k not in ("type", "time", "time_tick", "track"))
            obs["metas"].append(dict(type=m.get("type"), attrs=attrs, track=m.get("track"), t=m.get("time")))
    return obs


def observe_file(tracks, ppq):
    """The written file as seen by the reference reader (times exact, from the file's own tempo map)."""
    clock = M.clocks(tracks, ppq, 500000)[0]
    flat = M.flatten(M.ref_read(tracks, merge=False))
    obs = {}
    for cat, (st, tm) in CATS.items():
        obs[cat] = []
        for r in flat[cat]:
            o = dict((k, r[k]) for k in st)
            for k in tm:
                o[k] = clock(r[k][0])
            obs[cat].append(o)
    return obs


def abstract_of_mido(mf):
    tracks = []
    for tr in mf.tracks:
        t = 0
        evs = []
        for msg in tr:
            t += msg.time
            if msg.is_meta:
                if msg.type == "set_tempo":
                    evs.append([t, "tempo", msg.tempo])
                elif msg.type == "key_signature":
                    evs.append([t, "ks", msg.key])
                elif msg.type == "time_signature":
                    evs.append([t, "ts", msg.numerator, msg.denominator])
                elif msg.type == "end_of_track":
                    pass
                else:
                    evs.append([t, "meta", msg.type,
                                dict((k, v) for k, v in vars(msg).items() if k not in ("type", "time"))])
            elif msg.type == "note_on":
                evs.append([t, "on" if msg.velocity > 0 else "on0", int(msg.channel), int(msg.note), int(msg.velocity)])
            elif msg.type == "note_off":
                evs.append([t, "off", int(msg.channel), int(msg.note)])
            elif msg.type == "control_change":
                evs.append([t, "cc", int(msg.channel), int(msg.control), int(msg.value)])
            elif msg.type == "program_change":
                evs.append([t, "pc", int(msg.channel), int(msg.program)])
        tracks.append(evs)
    return tracks


def mido_of_abstract(tracks, ppq):
    import mido

    mf = mido.MidiFile(type=0 if len(tracks) == 1 else 1, ticks_per_beat=ppq)
    for evs in tracks:
        tr = mido.MidiTrack()
        last = 0
        for ev in evs:
            tick, kind = ev[0], ev[1]
            d = tick - last
            last = tick
            if kind == "tempo":
                tr.append(mido.MetaMessage("set_tempo", tempo=ev[2], time=d))
            elif kind == "on":
                tr.append(mido.Message("note_on", channel=ev[2], note=ev[3], velocity=ev[4], time=d))
            elif kind == "on0":
                tr.append(mido.Message("note_on", channel=ev[2], note=ev[3], velocity=0, time=d))
            elif kind == "off":
                tr.append(mido.Message("note_off", channel=ev[2], note=ev[3], velocity=ev[4] if len(ev) > 4 else 0, time=d))
            elif kind == "cc":
                tr.append(mido.Message("control_change", channel=ev[2], control=ev[3], value=ev[4], time=d))
            elif kind == "pc":
                tr.append(mido.Message("program_change", channel=ev[2], program=ev[3], time=d))
            elif kind == "ks":
                tr.append(mido.MetaMessage("key_signature", key=ev[2], time=d))
            elif kind == "ts":
                tr.append(mido.MetaMessage("time_signature", numerator=ev[2], denominator=ev[3], time=d))
            elif kind == "meta":
                tr.append(mido.MetaMessage(ev[2], time=d, **ev[3]))
            else:
                raise ValueError(kind)
        mf.tracks.append(tr)
    return mf


# ---------------------------------------------------------------------------------------------
# comparison


def _eq(a, b):
    if a is None or b is None:
        return a is None and b is None
    try:
        return bool(a == b)
    except Exception:
        return False


def _close(a, ref):
    try:
        return M.close(float(a), ref)
    except (TypeError, ValueError):
        return False


def _compat(cat, clock):
    st, tm = CATS[cat]

    def compat(e, o):
        for k in st:
            if not _eq(e[k], o.get(k)):
                return False
        if "tmax" in e:  # optional default program: anywhere in [0, first event of its part]
            try:
                v = F(float(o.get("t")))
            except (TypeError, ValueError):
                return False
            hi = clock(e["tmax"])
            return -F(1, 10**9) <= v <= hi + F(1, 10**9) * max(1, hi)
        for k in tm:
            if not any(_close(o.get(k), clock(x)) for x in e[k]):
                return False
        return True

    return compat


def _render(cat, recs, clock):
    st, tm = CATS[cat]
    out = []
    for r in recs:
        d = dict((k, r[k]) for k in st)
        for k in tm:
            if "tmax" in r:
                d[k] = "<=%r" % float(clock(r["tmax"]))
            else:
                d[k] = [float(clock(x)) for x in r[k]]
        out.append(d)
    return sorted(out, key=repr)


def _render_obs(cat, recs):
    st, tm = CATS[cat]
    out = []
    for r in recs:
        d = {}
        for k in st + tm:
            v = r.get(k)
            try:
                d[k] = float(v) if k in tm else (v if isinstance(v, (str, dict)) or v is None else int(v))
            except Exception:
                d[k] = repr(v)
        out.append(d)
    return sorted(out, key=repr)


def compare(res, stage, exp, obs, clock_list, groups=(), where=""):
    """exp/obs: dict category -> records. groups: optional default-program groups (all or nothing each)."""
    first_bad = None
    subsets = [()]
    for r in range(1, len(groups) + 1):
        subsets.extend(itertools.combinations(range(len(groups)), r))
    # prefer the reading "all defaults present", then fewer
    subsets.sort(key=lambda s: -len(s))
    for clock in clock_list:
        bad = None
        for cat in ("notes", "controls", "keysigs", "timesigs", "metas"):
            if not M.match_records(exp[cat], obs[cat], _compat(cat, clock)):
                bad = (cat, exp[cat])
                break
        if bad is None:
            okp = False
            for s in subsets:
                e = list(exp["programs"])
                for gi in s:
                    e.extend(groups[gi])
                if M.match_records(e, obs["programs"], _compat("programs", clock)):
                    okp = True
                    break
            if not okp:
                e = list(exp["programs"])
                for g in groups:
                    e.extend(g)
                bad = ("programs", e)
        if bad is None:
            return True
        if first_bad is None:
            first_bad = (bad, clock)
    (cat, e), clock = first_bad
    res.fail("%s-%s" % (stage, cat), expected=_render(cat, e, clock), observed=_render_obs(cat, obs[cat]),
             where=where, detail="%d acceptable tempo reading(s)" % len(clock_list))
    return False


def check_ids(res, stage, perf, where="load_performance_midi"):
    """ids inside each returned part are assigned in order of (onset, pitch, offset, channel, track)."""
    for pi, pp in enumerate(perf.performedparts):
        keyed = []
        for n in pp.notes:
            m = re.search(r"(\d+)$", str(n["id"]))
            if m is None:
                res.fail("%s-ids" % stage, expected="ids numbered in sort order", observed=repr(n["id"]), where=where)
                return False
            keyed.append((int(m.group(1)), (float(n["note_on"]), int(n["midi_pitch"]), float(n["note_off"]),
                                            int(n["channel"]), int(n["track"]))))
        nums = [k for k, _ in keyed]
        if len(set(nums)) != len(nums):
            res.fail("%s-ids" % stage, expected="distinct ids inside a part", observed=[n["id"] for n in pp.notes], where=where)
            return False
        keyed.sort()
        keys = [k for _, k in keyed]
        if keys != sorted(keys):
            res.fail("%s-ids" % stage, expected="ids in order of (onset, pitch, offset, channel, track): %r" % (sorted(keys),),
                     observed=[(n, k) for n, k in keyed], where=where, detail="part %d" % pi)
            return False
    return True


# ---------------------------------------------------------------------------------------------
# (a) round trip


def build_parts(case):
    from partitura.performance import PerformedPart

    parts = []
    for pi, p in enumerate(case["parts"]):
        notes = []
        for k, (pitch, on, off, vel, ch, tr) in enumerate(p.get("notes", [])):
            d = dict(id="p%dn%d" % (pi, k), midi_pitch=pitch, note_on=on, note_off=off, velocity=vel)
            if ch is not None:
                d["channel"] = ch
            if tr is not None:
                d["track"] = tr
            notes.append(d)
        controls = []
        for t, num, val, ch, tr in p.get("controls", []):
            d = dict(time=t, number=num, value=val)
            if ch is not None:
                d["channel"] = ch
            if tr is not None:
                d["track"] = tr
            controls.append(d)
        programs = []
        for t, prog, ch, tr in p.get("programs", []):
            d = dict(time=t, program=prog)
            if ch is not None:
                d["channel"] = ch
            if tr is not None:
                d["track"] = tr
            programs.append(d)
        keysigs = []
        for t, fifths, mode, tr in p.get("keysigs", []):
            d = dict(time=t, fifths=fifths, track=tr)
            if mode is not None:
                d["mode"] = mode
            keysigs.append(d)
        timesigs = [dict(time=t, beats=b, beat_type=bt, track=tr) for t, b, bt, tr in p.get("timesigs", [])]
        metas = []
        for t, typ, attrs, tr in p.get("metas", []):
            d = dict(time=t, type=typ, track=tr)
            d.update(attrs)
            metas.append(d)
        parts.append(PerformedPart(notes, id="P%d" % pi, controls=controls, programs=programs,
                                   key_signatures=keysigs, time_signatures=timesigs, meta_other=metas))
    return parts


def _ech(ch):
    return 1 if ch is None else ch


def _etr(tr):
    return 0 if tr is None else tr


def expected_rt(case, trackmap, merged):
    """Expectation from the spec. trackmap: (part index, spec track) -> original track number."""
    ppq, mpq = case["cfg"]

    def tr_of(pi, tr):
        if merged:
            return 0
        return trackmap[(pi, _etr(tr))]

    def opts(t):
        return M.tick_options(t, ppq, mpq)

    def raw_tr(tr):
        # Performance() renumbers the tracks of notes, controls and programs only
        return 0 if merged else _etr(tr)

    exp = dict(notes=[], controls=[], programs=[], keysigs=[], timesigs=[], metas=[])
    groups = []
    for pi, p in enumerate(case["parts"]):
        first = []
        pairs = []
        for pitch, on, off, vel, ch, tr in p.get("notes", []):
            exp["notes"].append(dict(pitch=pitch, vel=vel, ch=_ech(ch), track=tr_of(pi, tr), on=opts(on), off=opts(off)))
            first.append(max(opts(on)))
            pairs.append((_ech(ch), trackmap[(pi, _etr(tr))]))
        for t, num, val, ch, tr in p.get("controls", []):
            exp["controls"].append(dict(num=num, val=val, ch=_ech(ch), track=tr_of(pi, tr), t=opts(t)))
            first.append(max(opts(t)))
            pairs.append((_ech(ch), trackmap[(pi, _etr(tr))]))
        for t, prog, ch, tr in p.get("programs", []):
            exp["programs"].append(dict(prog=prog, ch=_ech(ch), track=tr_of(pi, tr), t=opts(t)))
        for t, fifths, mode, tr in p.get("keysigs", []):
            exp["keysigs"].append(dict(fifths=fifths, mode=mode or "major", track=raw_tr(tr), t=opts(t)))
        for t, b, bt, tr in p.get("timesigs", []):
            exp["timesigs"].append(dict(beats=b, beat_type=bt, track=raw_tr(tr), t=opts(t)))
        for t, typ, attrs, tr in p.get("metas", []):
            exp["metas"].append(dict(type=typ, attrs=dict(attrs), track=raw_tr(tr), t=opts(t)))
        if not p.get("programs") and pairs:
            # one default per (channel, original track), whatever merging does to the track afterwards
            groups.append([dict(prog=0, ch=c, track=0 if merged else r, t=(), tmax=min(first)) for c, r in sorted(set(pairs))])
    return exp, groups


def gen2_expectation(case, exp, obs):
    """The loaded performance (already compared with `exp`) is saved again: its program changes are now
    explicit; a returned part (= track) without any program change may again gain the defaults."""
    ppq, mpq = case["cfg"]
    exp2 = dict(exp)
    exp2["programs"] = [dict(prog=int(o["prog"]), ch=int(o["ch"]), track=int(o["track"]),
                             t=M.tick_options(float(o["t"]), ppq, mpq)) for o in obs["programs"]]
    have = set(int(o["track"]) for o in obs["programs"])
    by_track = {}
    for n in exp["notes"]:
        by_track.setdefault(n["track"], []).append((n["ch"], max(n["on"])))
    for c in exp["controls"]:
        by_track.setdefault(c["track"], []).append((c["ch"], max(c["t"])))
    groups2 = []
    for tr in sorted(by_track):
        if tr in have:
            continue
        first = min(t for _, t in by_track[tr])
        groups2.append([dict(prog=0, ch=c, track=tr, t=(), tmax=first) for c in sorted(set(c for c, _ in by_track[tr]))])
    return exp2, groups2


def sanitize_map(res, case, perf):
    """Track numbers left by Performance(): any bijection (part, track) -> 0..k-1 is accepted."""
    mp = {}
    ok = True
    for pi, (spec, pp) in enumerate(zip(case["parts"], perf.performedparts)):
        pairs = []
        pairs += [(_etr(s[5]), n["track"]) for s, n in zip(spec.get("notes", []), pp.notes)]
        pairs += [(_etr(s[4]), c.get("track")) for s, c in zip(spec.get("controls", []), pp.controls)]
        pairs += [(_etr(s[3]), c.get("track")) for s, c in zip(spec.get("programs", []), pp.programs)]
        for old, new in pairs:
            if mp.setdefault((pi, old), new) != new:
                ok = False
    vals = sorted(mp.values(), key=repr)
    if not ok or vals != list(range(len(mp))):
        res.fail("rt-track-numbers-unique", expected="a bijection of (part, track) onto 0..%d" % (len(mp) - 1),
                 observed=sorted((list(k), v) for k, v in mp.items()), where="Performance.sanitize_track_numbers")
        try:
            usable = ok and all(int(v) == v and v >= 0 for v in mp.values()) and len(set(mp.values())) == len(mp)
        except (TypeError, ValueError):
            usable = False
        if usable:
            # the numbers are usable as they are (one number per (part, track), no number shared): the round
            # trip is still run with the numbers the Performance holds ("same track" of the statement)
            return dict((k, int(v)) for k, v in mp.items())
        return None
    return mp


def _save(case, obj, res, stage="rt"):
    """Returns (mido file as written, argument for the loader) or None."""
    import mido
    from partitura.io.exportmidi import save_performance_midi

    ppq, mpq = case["cfg"]
    kw = {}
    if not case.get("defaults"):
        kw = dict(mpq=mpq, ppq=ppq)
    if case["msave"] or not case.get("defaults"):
        kw["merge_tracks_save"] = bool(case["msave"])
    io_mode = case["io"]
    path = tmp_path("c06.mid")
    if io_mode == "object":
        ok, mf = guarded(res, "%s-save" % stage, save_performance_midi, obj, None, **kw)
        if not ok:
            return None
        if mf is None:
            res.fail("%s-save" % stage, expected="a MidiFile when out is None", observed=None, where="save_performance_midi")
            return None
        return mf, mf
    if io_mode == "path":
        ok, ret = guarded(res, "%s-save" % stage, save_performance_midi, obj, path, **kw)
    else:
        with open(path, "wb") as f:
            ok, ret = guarded(res, "%s-save" % stage, save_performance_midi, obj, f, **kw)
    if not ok:
        return None
    try:
        mf = mido.MidiFile(path)
    except Exception as e:
        res.fail("%s-save" % stage, kind="exception", expected="a readable MIDI file", observed=exc_text(e),
                 where="save_performance_midi")
        return None
    return mf, path


def _load(case, arg, res, stage="rt", merge=None):
    from partitura.io.importmidi import load_performance_midi

    merge = case["mload"] if merge is None else merge
    kw = {}
    if merge or not case.get("defaults"):
        kw["merge_tracks"] = bool(merge)
    if case.get("bpm", 120) != 120 or (not case.get("defaults") and case.get("kind") == "raw"):
        kw["default_bpm"] = case.get("bpm", 120)
    if case.get("loader") == "lp" and isinstance(arg, str):
        from partitura.io import load_performance

        import contextlib
        import io

        with contextlib.redirect_stdout(io.StringIO()):  # it prints the swallowed loader errors
            ok, perf = guarded(res, "%s-load" % stage, load_performance, arg, **kw)
    else:
        ok, perf = guarded(res, "%s-load" % stage, load_performance_midi, arg, **kw)
    if not ok:
        return None
    return perf


def _rt_stage1(case, res):
    """Build the performance of the spec, save it, compare the written file, load it, compare the loaded
    performance.  Returns None (res.outcome set) or (perf, exp, obs, good, file_ok, clock)."""
    from partitura.performance import Performance

    ppq, mpq = case["cfg"]
    res.nontrivial = False
    ok, parts = guarded(res, "rt-construct", build_parts, case)
    if not ok:
        res.outcome = "construct-exception"
        return None
    res.transitions += len(parts)
    trackmap = {}
    for pi, p in enumerate(case["parts"]):
        for key in ("notes", "controls", "programs", "keysigs", "timesigs", "metas"):
            for r in p.get(key, []):
                tr = r[5] if key == "notes" else (r[4] if key == "controls" else r[3])
                trackmap[(pi, _etr(tr))] = _etr(tr)
    if case["inp"] == "perf":
        ok, obj = guarded(res, "rt-construct", Performance, parts)
        if not ok:
            res.outcome = "construct-exception"
            return None
        res.transitions += 1
        mp = sanitize_map(res, case, obj)
        if mp is None:
            res.outcome = "sanitize-mismatch"
            return None
        for k in trackmap:
            trackmap[k] = mp.get(k, trackmap[k])
    elif case["inp"] == "ppart":
        obj = parts[0]
    else:
        obj = list(parts)
    if case.get("single_track"):
        # all events sit on one (non-zero) track number: the file has one track, read back as track 0
        for k in trackmap:
            trackmap[k] = 0

    clock = [lambda k: M.tick_seconds(k, ppq, mpq)]
    try:
        saved = _save(case, obj, res)
        res.transitions += 1
        if saved is None:
            res.outcome = "save-failed"
            return None
        mf, arg = saved
        # --- the written file, read by the reference reader
        exp_file, groups_file = expected_rt(case, trackmap, merged=bool(case["msave"]))
        if mf.ticks_per_beat != ppq:
            res.fail("rt-file-ppq", expected=ppq, observed=mf.ticks_per_beat, where="save_performance_midi")
        tracks = abstract_of_mido(mf)
        file_ok = compare(res, "rt-file", exp_file, observe_file(tracks, ppq), clock, groups_file,
                          where="save_performance_midi")
        # --- load
        perf = _load(case, arg, res)
        res.transitions += 1
    finally:
        if case["io"] != "object":
            _unlink(tmp_path("c06.mid"))
    if perf is None:
        res.outcome = "load-failed"
        return None
    merged = bool(case["msave"] or case["mload"])
    exp, groups = expected_rt(case, trackmap, merged=merged)
    ok, obs = guarded(res, "rt-loaded-structure", observe, perf)
    if not ok:
        res.outcome = "loaded-structure"
        return None
    where = "load_performance_midi" if file_ok else "save_performance_midi"
    good = compare(res, "rt", exp, obs, clock, groups, where=where)
    good = check_ids(res, "rt", perf) and good
    return perf, exp, obs, good, file_ok, clock


def eval_rt(case):
    res = CaseResult(states=1, transitions=0, traces=1)
    nnotes = sum(len(p.get("notes", [])) for p in case["parts"])
    st = _rt_stage1(case, res)
    if st is None:
        return res
    perf, exp, obs, good, file_ok, clock = st
    res.nontrivial = nnotes > 0
    # --- second generation: the loaded performance is itself a performance
    if good and file_ok and case.get("gen2", True):
        c2 = dict(case, io="object", msave=0, mload=0, loader="lpm", defaults=False)
        saved = _save(c2, perf, res, stage="rt2")
        res.transitions += 1
        if saved is not None:
            perf2 = _load(c2, saved[1], res, stage="rt2")
            res.transitions += 1
            if perf2 is not None:
                ok, obs2 = guarded(res, "rt2-loaded-structure", observe, perf2)
                if ok:
                    exp2, groups2 = gen2_expectation(case, exp, obs)
                    compare(res, "rt2", exp2, obs2, clock, groups2, where="save/load of a loaded performance")
                    check_ids(res, "rt2", perf2)
                    res.traces += 1
    ties = sum(1 for n in exp["notes"] for k in ("on", "off") if len(n[k]) > 1)
    res.outcome = "notes=%d parts=%d ties=%d %s" % (nnotes, len(perf.performedparts), ties,
                                                    "ok" if not res.violations else "bad")
    return res


# ---------------------------------------------------------------------------------------------
# (b) raw files


def _raw_stage1(case, res):
    """Write the abstract file, load it, compare with the reference reader.  Returns None (res.outcome set)
    or (perf, exp, obs, good, number of acceptable tempo readings)."""
    ppq = case["ppq"]
    tracks = case["tracks"]
    bpm = case.get("bpm", 120)
    default_mpq = 60 * 10**6 // bpm if (60 * 10**6) % bpm == 0 else int(60 * (10**6 / bpm))
    mf = mido_of_abstract(tracks, ppq)
    c = dict(case, mload=case["merge"])
    if case["io"] == "object":
        arg = mf
    else:
        arg = tmp_path("c06raw.mid")
        mf.save(arg)
    try:
        perf = _load(c, arg, res, stage="raw")
        res.transitions += 1
    finally:
        if case["io"] != "object":
            _unlink(arg)
    if perf is None:
        res.outcome = "load-failed"
        return None
    parts = M.ref_read(tracks, merge=bool(case["merge"]))
    exp = M.flatten(parts)
    all_tracks_kept = (not case["merge"]) and len(parts) == len(tracks)
    ok, obs = guarded(res, "raw-loaded-structure", observe, perf)
    if not ok:
        res.outcome = "loaded-structure"
        return None
    if not (all_tracks_kept or case["merge"]):
        # a file with a track that yields no part: track numbers are not claimed
        for cat in exp:
            for r in exp[cat]:
                r["track"] = "any"
        for cat in obs:
            for r in obs[cat]:
                r["track"] = "any"
    elif case["merge"]:
        for cat in exp:
            for r in exp[cat]:
                r["track"] = 0
    clock_list = M.clocks(tracks, ppq, default_mpq)
    good = compare(res, "raw", exp, obs, clock_list, (), where="load_performance_midi")
    good = check_ids(res, "raw", perf) and good
    return perf, exp, obs, good, len(clock_list)


def eval_raw(case):
    res = CaseResult(states=1, transitions=0, traces=1)
    st = _raw_stage1(case, res)
    if st is None:
        return res
    perf, exp, obs, good, nread = st
    res.nontrivial = len(exp["notes"]) > 0
    ntempo = len(M.tempo_events(case["tracks"]))
    res.outcome = "notes=%d parts=%d tempo=%d readings=%d %s" % (
        len(exp["notes"]), len(perf.performedparts), ntempo, nread, "ok" if not res.violations else "bad")
    return res


# ---------------------------------------------------------------------------------------------
# (d) a loaded performance is saved again ("resave-*")


class _Parts(object):
    def __init__(self, parts):
        self.performedparts = list(parts)


def _edit_fn(edit):
    """edit: ["none"] | ["shift", seconds] | ["scale", factor]  (monotone maps of the time axis)"""
    if edit[0] == "shift":
        return lambda t: t + edit[1]
    if edit[0] == "scale":
        return lambda t: t * edit[1]
    return None


def apply_edit(perf, edit, attrs, cfg2):
    """Edit the *seconds* of every event of a loaded performance through the public containers
    (PerformedNote item assignment, the event dictionaries); optionally set the ppq / mpq attributes of the
    parts to the export configuration.  Tick fields left by the importer are not touched."""
    f = _edit_fn(edit)
    n_ops = 0
    for pp in perf.performedparts:
        if f is not None:
            for n in pp.notes:
                on, off = f(n["note_on"]), f(n["note_off"])
                if off >= n["note_on"]:
                    n["note_off"] = off
                    n["note_on"] = on
                else:
                    n["note_on"] = on
                    n["note_off"] = off
                n_ops += 2
            for lst in (pp.controls, pp.programs, pp.key_signatures, pp.time_signatures, pp.meta_other):
                for c in lst:
                    c["time"] = f(c["time"])
                    n_ops += 1
        if attrs == "export":
            pp.ppq, pp.mpq = cfg2
            n_ops += 1
    return n_ops


def expected_resave(parts, cfg2, keep_tracks=False):
    """parts: the performed parts that are saved (after the edit).  The expectation is computed from their
    seconds: every time goes to its nearest tick of cfg2; the tracks of the file are the track numbers in
    use in ascending order (list / part input); keep_tracks (a Performance is saved): every event comes back
    with the track number it has in the Performance.  Returns (exp, groups)."""
    ppq, mpq = cfg2
    per_part = [observe(_Parts([pp])) for pp in parts]
    used = sorted(set(int(r["track"]) for o in per_part for cat in ("notes", "controls", "programs") for r in o[cat]))
    rank = dict((t, t if keep_tracks else i) for i, t in enumerate(used))

    def opts(t):
        return M.tick_options(float(t), ppq, mpq)

    exp = dict((cat, []) for cat in CATS)
    groups = []
    for o in per_part:
        for cat, (st, tm) in CATS.items():
            for r in o[cat]:
                tr = int(r["track"])
                if tr not in rank:
                    raise ValueError("generator: %s event on track %r that carries no note, control or program" % (cat, tr))
                e = dict((k, r[k]) for k in st)
                e["track"] = rank[tr]
                for k in tm:
                    e[k] = opts(r[k])
                exp[cat].append(e)
        if not o["programs"]:
            first = [max(opts(n["on"])) for n in o["notes"]] + [max(opts(c["t"])) for c in o["controls"]]
            pairs = sorted(set((int(r["ch"]), rank[int(r["track"])]) for cat in ("notes", "controls") for r in o[cat]))
            if pairs:
                groups.append([dict(prog=0, ch=c, track=t, t=(), tmax=min(first)) for c, t in pairs])
    return exp, groups


def eval_resave(case):
    """stage 1: the performance of the spec is saved and loaded / the abstract file is loaded (compared as in
    rt-* / raw-*); then the loaded performance is edited (seconds only), saved with the second configuration
    and loaded; the result is compared with the seconds of the saved performance rounded to ticks."""
    res = CaseResult(states=1, transitions=0, traces=1)
    res.nontrivial = False
    c1 = case["first"]
    st = _rt_stage1(c1, res) if c1["kind"] == "rt" else _raw_stage1(c1, res)
    if st is None:
        res.outcome = "resave stage1: %s" % res.outcome
        return res
    perf, good = st[0], st[3]
    if c1["kind"] == "rt":
        good = good and st[4]
    if not good:
        res.outcome = "resave stage1: bad"
        return res
    cfg2 = tuple(case["cfg2"])
    ok, nops = guarded(res, "resave-edit", apply_edit, perf, case["edit"], case["attrs"], cfg2)
    if not ok:
        res.outcome = "resave edit-exception"
        return res
    res.transitions += nops
    if case["inp2"] == "perf":
        obj, parts = perf, list(perf.performedparts)
    elif case["inp2"] == "list":
        obj = parts = list(perf.performedparts)
    else:
        obj = perf.performedparts[0]
        parts = [obj]
    ok, eg = guarded(res, "resave-loaded-structure", expected_resave, parts, cfg2, case["inp2"] == "perf")
    if not ok:
        res.outcome = "resave loaded-structure"
        return res
    exp2, groups2 = eg
    c2 = dict(kind="rt", cfg=list(cfg2), io=case["io2"], msave=0, mload=0, loader=case["loader2"],
              defaults=bool(case.get("defaults2")))
    try:
        saved = _save(c2, obj, res, stage="resave")
        res.transitions += 1
        if saved is None:
            res.outcome = "resave save-failed"
            return res
        mf, arg = saved
        clock2 = [lambda k: M.tick_seconds(k, cfg2[0], cfg2[1])]
        if mf.ticks_per_beat != cfg2[0]:
            res.fail("resave-file-ppq", expected=cfg2[0], observed=mf.ticks_per_beat, where="save_performance_midi")
        file_ok = compare(res, "resave-file", exp2, observe_file(abstract_of_mido(mf), cfg2[0]), clock2, groups2,
                          where="save_performance_midi")
        perf2 = _load(c2, arg, res, stage="resave")
        res.transitions += 1
    finally:
        if case["io2"] != "object":
            _unlink(tmp_path("c06.mid"))
    if perf2 is None:
        res.outcome = "resave load-failed"
        return res
    ok, obs2 = guarded(res, "resave-loaded-structure", observe, perf2)
    if not ok:
        res.outcome = "resave loaded-structure"
        return res
    compare(res, "resave", exp2, obs2, clock2, groups2,
            where="load_performance_midi" if file_ok else "save_performance_midi")
    check_ids(res, "resave", perf2)
    res.traces += 1
    res.nontrivial = len(exp2["notes"]) > 0
    stale = 0
    for pp in parts:
        for n in pp.notes:
            k = n["note_on_tick"]
            if k is not None and k not in M.tick_options(float(n["note_on"]), cfg2[0], cfg2[1]):
                stale += 1
    same_attr = all((pp.ppq, pp.mpq) == cfg2 for pp in parts)
    res.outcome = "resave %s edit=%s parts=%d stored-ticks=%s part-ppq/mpq=%s %s" % (
        c1["kind"], case["edit"][0], len(parts), "differ" if stale else "agree",
        "export" if same_attr else "other", "ok" if not res.violations else "bad")
    return res


def eval_case(case):
    if case["kind"] == "rt":
        return eval_rt(case)
    if case["kind"] == "unit":
        return eval_unit(case)
    if case["kind"] == "sil":
        return eval_silence(case)
    if case["kind"] == "resave":
        return eval_resave(case)
    return eval_raw(case)


# ---------------------------------------------------------------------------------------------
# generators


def _rt(parts, cfg, inp, merges, io, loader="lpm", **kw):
    d = dict(kind="rt", cfg=list(cfg), inp=inp, msave=merges[0], mload=merges[1], io=io, loader=loader, parts=parts)
    d.update(kw)
    return d


def _tick_interval(t, cfg):
    o = M.tick_options(t, cfg[0], cfg[1])
    return min(o), max(o)


def valid_rt(case):
    """Quantifier: inside one written/read track no two notes of equal pitch and channel overlap;
    contiguous track numbers for list / part input; notes of equal pitch and channel that only meet
    through merging are at least one tick apart; signatures/meta events sit on a track that also
    carries notes, controls or programs."""
    cfg = case["cfg"]
    merged = case["msave"] or case["mload"]
    notes = []
    used = set()
    meta_tracks = set()
    for pi, p in enumerate(case["parts"]):
        ptag = pi if case["inp"] == "perf" else 0
        for pitch, on, off, vel, ch, tr in p.get("notes", []):
            notes.append((pitch, _ech(ch), (ptag, _etr(tr)), F(on), F(off), _tick_interval(on, cfg), _tick_interval(off, cfg)))
            used.add((ptag, _etr(tr)))
        for r in p.get("controls", []):
            used.add((ptag, _etr(r[4])))
        for r in p.get("programs", []):
            used.add((ptag, _etr(r[3])))
        for key in ("keysigs", "timesigs", "metas"):
            for r in p.get(key, []):
                meta_tracks.add(_etr(r[3]))
    if not used:
        return not meta_tracks
    if case["inp"] != "perf":
        trs = sorted(set(t for _, t in used))
        if trs != list(range(len(trs))) and not (case.get("single_track") and len(trs) == 1 and not meta_tracks):
            return False
        ntracks = len(trs)
    else:
        ntracks = len(used)  # Performance() renumbers notes/controls/programs to 0..k-1 (not the meta events)
    if any(t >= ntracks for t in meta_tracks):
        return False
    for i in range(len(notes)):
        for j in range(i + 1, len(notes)):
            a, b = notes[i], notes[j]
            if a[0] != b[0] or a[1] != b[1]:
                continue
            same_track = a[2] == b[2]
            if not same_track and not merged:
                continue
            if a[3] > b[3] or (a[3] == b[3] and a[4] > b[4]):
                a, b = b, a
            if same_track:
                if a[4] > b[3]:
                    return False
                if a[3] == b[3] and a[4] == b[4] and a[3] != a[4]:
                    return False
            else:
                if not a[6][1] < b[5][0]:
                    return False
    return True


def _times(cfg, xs):
    return [M.tk(x, cfg[0], cfg[1]) for x in xs]


ONE_TICKS = [F(0), F(1, 2), F(1), F(96), F(10049, 100), F(10051, 100), F(383, 2), F(721, 3), F(47999, 100),
             F(1921, 2), F(1000)]
ONE_SECS = [0.1, 0.123456789, 1.0, 2.5]


def gen_one_note(configs, inputs, merges, stride=1):
    i = 0
    for cfg in configs:
        T = _times(cfg, ONE_TICKS) + ONE_SECS
        T = sorted(set(T))
        for inp in inputs:
            for a in range(len(T)):
                for b in range(a, len(T)):
                    for mg in merges:
                        i += 1
                        if i % stride:
                            continue
                        vel = [1, 64, 127][i % 3]
                        ch = [0, 1, 15][(i // 3) % 3]
                        tr = 1 if (inp == "perf" and i % 2) else 0
                        part = dict(notes=[[60 + i % 2, T[a], T[b], vel, ch, tr]],
                                    controls=[[T[(i * 7) % len(T)], (i * 5) % 128, (i * 11) % 128, ch, tr]])
                        if i % 2 == 0:
                            part["programs"] = [[T[(i * 3) % len(T)], (i * 13) % 128, ch, tr]]
                        if i % 4 == 0:
                            part["keysigs"] = [[T[(i * 5) % len(T)], [0, -3, 2, 7, -7][(i // 4) % 5], [None, "minor", "major"][(i // 4) % 3], 0]]
                        if i % 4 == 1:
                            part["timesigs"] = [[T[(i * 2) % len(T)], [3, 4, 6, 12][(i // 4) % 4], [8, 4, 2, 16][(i // 4) % 4], 0]]
                        if i % 4 == 2:
                            part["metas"] = [[T[(i * 9) % len(T)], "text", {"text": "t%d" % (i % 7)}, 0]]
                        io = IOS[i % 3]
                        loader = "lp" if (i % 5 == 0 and io != "object") else "lpm"
                        defaults = cfg == (480, 500000) and i % 3 == 1
                        c = _rt([part], cfg, inp, mg, io, loader, defaults=defaults)
                        if valid_rt(c):
                            yield c


def gen_single_track():
    """part / list input whose events all sit on one track number other than 0 (no Performance wrapper, so
    nothing renumbers the tracks before export)"""
    i = 0
    for cfg in CONFIGS:
        T = sorted(set(_times(cfg, ONE_TICKS) + ONE_SECS))
        picks = [(0, 1), (1, len(T) - 1), (2, 2), (len(T) // 2, len(T) - 2)]
        for inp in ("ppart", "list"):
            for tr in (1, 2, 7):
                for a, b in picks:
                    for mg in MERGES:
                        i += 1
                        ch = [0, 1, 15][i % 3]
                        part = dict(notes=[[60, T[a], T[b], [1, 64, 127][i % 3], ch, tr], [67, T[a], T[b], 80, ch, tr]],
                                    controls=[[T[(i * 7) % len(T)], 64, (i * 11) % 128, ch, tr]])
                        if i % 2 == 0:
                            part["programs"] = [[T[0], (i * 13) % 128, ch, tr]]
                        c = _rt([part], cfg, inp, mg, IOS[i % 3], "lpm", single_track=1)
                        if valid_rt(c):
                            yield c


# two-note interval patterns (tick units): (A.on, A.off, B.on, B.off), overlap class
_a, _b, _b2, _b3, _c, _d = F(481, 5), F(20049, 100), F(2003, 10), F(2004, 10), F(30051, 100), F(400)
_h = F(301, 2)
TWO_PATTERNS = [
    ("disjoint", (_a, _b, _c, _d)),
    ("abut", (_a, _b, _b, _c)),
    ("abut-by-rounding", (_a, _b2, _b3, _d)),
    ("overlap", (_a, _c, _b, _d)),
    ("nested", (_a, _d, _b, _c)),
    ("same-onset", (_a, _b, _a, _c)),
    ("identical", (_a, _c, _a, _c)),
    ("zero-then-start", (_b, _b, _b, _c)),
    ("zero-by-rounding", (_b2, _b3, _b3, _c)),
    ("tie-abut", (_a, _h, _h, _d)),
]


def gen_two_notes(inputs, merges, patterns, block=None):
    i = 0
    descs = [(p, ch, tr) for p in (60, 61) for ch in (0, 1, 15) for tr in (0, 1)]
    for inp in inputs:
        for da in descs:
            for db in descs:
                for pname, pat in patterns:
                    for swap in (0, 1):
                        for mg in merges:
                            i += 1
                            if block is not None and block_of(["two", inp, da, db, pname, swap, mg], block[1]) != block[0]:
                                continue
                            cfg = CONFIGS[i % 9]
                            ta = _times(cfg, pat)
                            va, vb = [(1, 127), (64, 64), (127, 1), (64, 1), (1, 64)][i % 5]
                            na = [da[0], ta[0], ta[1], va, da[1], da[2]]
                            nb = [db[0], ta[2], ta[3], vb, db[1], db[2]]
                            notes = [nb, na] if swap else [na, nb]
                            num = 64 if da[0] != db[0] else 67
                            part = dict(notes=notes, controls=[[ta[1], num, (i * 37) % 128, da[1], da[2]]])
                            if i % 3 == 0:
                                part["programs"] = [[0.0, i % 128, db[1], db[2]]]
                            io = IOS[i % 3]
                            loader = "lp" if (i % 7 == 0 and io != "object") else "lpm"
                            c = _rt([part], cfg, inp, mg, io, loader, pattern=pname)
                            if valid_rt(c):
                                yield c


def gen_three_notes(block):
    """three notes: chains of equal pitch in every list order, mixed pitches/channels/tracks."""
    pats = [
        ("chain", [(_a, _b), (_b, _c), (_c, _d)]),
        ("chain-rounding", [(_a, _b2), (_b3, _c), (_c, _d)]),
        ("zero-middle", [(_a, _b), (_b, _b), (_b, _d)]),
        ("nested3", [(_a, _d), (_b, _c), (_b2, _b3)]),
    ]
    descs = [(p, ch, tr) for p in (60, 61) for ch in (0, 15) for tr in (0, 1)]
    i = 0
    for inp in ("perf", "ppart", "list"):
        for ds in itertools.product(descs, repeat=3):
            skip = block is not None and block_of(["three", inp, ds], block[1]) != block[0]
            for pname, pat in pats:
                for perm in itertools.permutations(range(3)):
                    for mg in MERGES:
                        i += 1
                        if skip:
                            continue
                        cfg = CONFIGS[i % 9]
                        notes = []
                        for k in range(3):
                            on, off = _times(cfg, pat[k])
                            notes.append([ds[k][0], on, off, [1, 64, 127][(i + k) % 3], ds[k][1], ds[k][2]])
                        notes = [notes[k] for k in perm]
                        c = _rt([dict(notes=notes)], cfg, inp, mg, IOS[i % 3], "lpm", pattern=pname, gen2=False)
                        if valid_rt(c):
                            yield c


def gen_events(block=None):
    i = 0
    tks = [F(0), F(96), F(501, 2), F(3001, 5)]
    single = [(num, val, w, ti) for num in (64, 67, 1) for val in (0, 64, 127)
              for w in ((0, 0), (1, 1), (15, 0)) for ti in range(4)]
    pool2 = [(num, val, w, ti) for num in (64, 1) for val in (0, 127) for w in ((0, 0), (1, 1)) for ti in (1, 3)]
    ctl_sets = [[c] for c in single] + [[x, y] for x in pool2 for y in pool2]
    prog_sets = [[], [(0, 5, 0, 0)], [(3, 127, 1, 1)], [(0, 5, 0, 0), (3, 127, 1, 1)]]
    ks_sets = [None, (0, 0, "major", 0), (2, -3, "minor", 0), (1, 7, None, 1)]
    ts_sets = [None, (0, 3, 8, 0), (3, 4, 4, 1)]
    meta_sets = [None, (0, "text", {"text": "hello"}, 0), (3, "marker", {"text": "m"}, 1), (0, "track_name", {"name": "trk"}, 0)]

    def mk(ctl, progs, ks, ts, meta, inp, mg, two):
        cfg = CONFIGS[i % 9]
        T = _times(cfg, tks)
        notes = [[60, T[1], M.tk(480, *cfg), 64, 0, 0]]
        if two:
            notes.append([61, M.tk(200, *cfg), M.tk(300, *cfg), 1, 1, 1])
        part = dict(notes=notes)
        part["controls"] = [[T[ti], num, val, w[0], w[1]] for num, val, w, ti in ctl]
        part["programs"] = [[T[ti], pr, ch, tr] for ti, pr, ch, tr in progs]
        if ks:
            part["keysigs"] = [[T[ks[0]], ks[1], ks[2], ks[3]]]
        if ts:
            part["timesigs"] = [[T[ts[0]], ts[1], ts[2], ts[3]]]
        if meta:
            part["metas"] = [[T[meta[0]], meta[1], meta[2], meta[3]]]
        io = IOS[i % 3]
        return _rt([part], cfg, inp, mg, io, "lp" if (i % 11 == 0 and io != "object") else "lpm")

    # all control sets x program sets (other events cycled)
    for ctl in ctl_sets:
        for progs in prog_sets:
            for inp in ("perf", "ppart", "list"):
                for mg in MERGES:
                    i += 1
                    if block is not None and block_of(["events", ctl, progs, inp, mg], block[1]) != block[0]:
                        continue
                    c = mk(ctl, progs, ks_sets[i % 4], ts_sets[i % 3], meta_sets[(i // 3) % 4], inp, mg, i % 2)
                    if valid_rt(c):
                        yield c
    # all signature/meta/program combinations (controls cycled)
    for ks in ks_sets:
        for ts in ts_sets:
            for meta in meta_sets:
                for progs in prog_sets:
                    for two in (0, 1):
                        for inp in ("perf", "ppart", "list"):
                            for mg in MERGES:
                                i += 1
                                c = mk(ctl_sets[(i * 7) % len(single)], progs, ks, ts, meta, inp, mg, two)
                                if valid_rt(c):
                                    yield c


def gen_multi_part(max_parts, block=None, min_parts=2):
    i = 0

    def shape(s, k, cfg):
        t = lambda x: M.tk(x, *cfg)
        if s == "A":
            return dict(notes=[[60 + k, t(96), t(300), 64, 0, 0]])
        if s == "B":
            return dict(notes=[[60 + k, t(96), t(300), 127, 0, 0], [70 + k, t(200), t(480), 1, 1, 1]])
        if s == "C":
            return dict(notes=[[64 + k, t(F(20049, 100)), t(400), 64, 15, 1]])
        if s == "D":
            return dict(notes=[[60, t(500 + 100 * k), t(550 + 100 * k), 64, 0, 0]],
                        controls=[[t(520 + 100 * k), 64, 100 + k, 0, 0]])
        if s == "E":
            return dict(notes=[], controls=[[t(96), 1, 10 + k, 0, 0]])
        if s == "Z":
            return dict(notes=[])
        raise ValueError(s)

    for n in range(min_parts, max_parts + 1):
        for shapes in itertools.product("ABCDEZ", repeat=n):
            for mask in range(2 ** n):
                for inp in ("list", "perf"):
                    for mg in MERGES:
                        i += 1
                        if block is not None and block_of(["multi", shapes, mask, inp, mg], block[1]) != block[0]:
                            continue
                        cfg = CONFIGS[i % 9]
                        parts = []
                        for k, s in enumerate(shapes):
                            p = shape(s, k, cfg)
                            if s == "Z":
                                if mask >> k & 1:
                                    break  # an empty part has no program variant
                                parts.append(p)
                                continue
                            if mask >> k & 1:
                                src = p["notes"][0] if p["notes"] else None
                                ch, tr = (src[4], src[5]) if src else (p["controls"][0][3], p["controls"][0][4])
                                p["programs"] = [[0.0, 10 + k, ch, tr]]
                            if k == 0 and i % 2:
                                tr0 = p["notes"][0][5] if p["notes"] else 0
                                if shapes[0] == "C" and inp == "perf" and sum(1 for x in shapes if x != "Z") < 2:
                                    tr0 = 0
                                p["keysigs"] = [[0.0, 2, "major", tr0]]
                            parts.append(p)
                        if len(parts) != len(shapes):
                            continue
                        c = _rt(parts, cfg, inp, mg, IOS[i % 3], "lpm")
                        if valid_rt(c):
                            yield c


GAP_TRACKS = (0, 1, 2, 4)
# what a track of a part carries: N a note, NC a note and a control, C only a control, P only a program change
GAP_CARRIERS = {1: [("N",), ("NC",), ("C",), ("P",)],
                2: [("N", "N"), ("NC", "N"), ("C", "N"), ("N", "C"), ("N", "P"), ("P", "N")]}
GAP_CORE = (("N",), ("NC",), ("N", "N"), ("NC", "N"))


def gap_part_descs():
    """every part description: a set of 1 or 2 track numbers out of GAP_TRACKS x what each track carries"""
    out = []
    for r in (1, 2):
        for trs in itertools.combinations(GAP_TRACKS, r):
            for car in GAP_CARRIERS[r]:
                out.append((trs, car))
    return out


def _gap_part(pi, desc, cfg, i):
    """events of different (part, track) have different pitches and disjoint time windows (merging never
    makes equal pitches meet); no time is a tick tie"""
    trs, car = desc
    t = lambda x: M.tk(x, *cfg)
    part = dict(notes=[], controls=[], programs=[])
    for k, (tr, c) in enumerate(zip(trs, car)):
        ch = [0, 1, 15][(pi + k + i) % 3]
        base = 130 * (2 * pi + k)
        if c in ("N", "NC"):
            part["notes"].append([60 + 2 * pi + k, t(base + F(481, 5)), t(base + F(20049, 100)), [1, 64, 127][(i + k) % 3], ch, tr])
        if c in ("NC", "C"):
            part["controls"].append([t(base + F(1203, 10)), [64, 67, 1][(i + pi) % 3], (i * 37 + k) % 128, ch, tr])
        if c == "P":
            part["programs"].append([t(base + F(903, 10)), (i * 13 + k) % 128, ch, tr])
    return part


def gen_track_gaps(quick, seed):
    """Performances whose parts use arbitrary (gapped, non zero-based, shared or distinct) track numbers"""
    descs = gap_part_descs()
    i = 0
    B2, B3 = 4, 8
    for d in descs:
        for mg in MERGES:
            i += 1
            cfg = CONFIGS[i % 9]
            c = _rt([_gap_part(0, d, cfg, i)], cfg, "perf", mg, IOS[i % 3], "lpm", layout=[list(d[0]), list(d[1])])
            if valid_rt(c):
                yield c
    for da in descs:
        for db in descs:
            i += 1
            core = da[1] in GAP_CORE and db[1] in GAP_CORE
            if quick and not core and block_of(["gaps2", da, db], B2) != seed % B2:
                continue
            cfg = CONFIGS[i % 9]
            mg = MERGES[0] if i % 2 else MERGES[(i // 2) % 4]
            parts = [_gap_part(0, da, cfg, i), _gap_part(1, db, cfg, i)]
            c = _rt(parts, cfg, "perf", mg, IOS[i % 3], "lp" if (i % 7 == 0 and IOS[i % 3] != "object") else "lpm",
                    layout=[[list(d[0]), list(d[1])] for d in (da, db)])
            if valid_rt(c):
                yield c
    # three parts: every triple of track sets, what the tracks carry cycled
    sets = [trs for r in (1, 2) for trs in itertools.combinations(GAP_TRACKS, r)]
    for ts in itertools.product(sets, repeat=3):
        i += 1
        if quick and block_of(["gaps3", ts], B3) != seed % B3:
            continue
        cfg = CONFIGS[i % 9]
        ds = []
        for k, trs in enumerate(ts):
            cars = GAP_CARRIERS[len(trs)]
            ds.append((trs, cars[(i // (1 + 5 * k) + k) % len(cars)]))
        mg = MERGES[0] if i % 2 else MERGES[(i // 2) % 4]
        c = _rt([_gap_part(k, d, cfg, i) for k, d in enumerate(ds)], cfg, "perf", mg, IOS[i % 3], "lpm",
                layout=[[list(d[0]), list(d[1])] for d in ds])
        if valid_rt(c):
            yield c


def gen_defaults():
    """omitted channel / track keys fall back to channel 1, track 0; default ppq/mpq/merge arguments."""
    i = 0
    cfg = (480, 500000)
    t = lambda x: M.tk(x, *cfg)
    for nch in (None, 0):
        for ntr in (None, 0):
            for cch in (None, 0, 1):
                for ctr in (None, 0):
                    for pch in (None, 1, "none"):
                        for inp in ("ppart", "list"):
                            for msave in (0, 1):
                                for dflt in (True, False):
                                    i += 1
                                    part = dict(notes=[[60, t(96), t(300), 64, nch, ntr], [62, t(F(2001, 10)), t(F(9601, 2)), 1, 3, 0]],
                                                controls=[[t(100), 64, 127, cch, ctr]])
                                    if pch != "none":
                                        part["programs"] = [[t(0), 9, pch, None]]
                                    c = _rt([part], cfg, inp, (msave, 0), IOS[i % 3], "lp" if i % 3 == 1 else "lpm", defaults=dflt)
                                    if valid_rt(c):
                                        yield c


def gen_ranges():
    """every velocity 1..127 x every channel 0..15; every control number and value on a diagonal."""
    i = 0
    for vel in range(1, 128):
        for ch in range(16):
            i += 1
            cfg = CONFIGS[i % 9]
            t = lambda x: M.tk(x, *cfg)
            part = dict(notes=[[(vel + ch) % 128, t(F(961, 10)), t(F(30051, 100)), vel, ch, 0]],
                        controls=[[t(F(401, 2)), (i * 3) % 128, (i * 5) % 128, ch, 0]])
            yield _rt([part], cfg, ["perf", "ppart", "list"][i % 3], (0, 0), "object", "lpm", gen2=False)


def gen_signatures():
    """every key signature (fifths -7..7 x major/minor/unspecified), time signatures beats 1..12 x
    beat types 1..32, text-like and numeric meta events, on a one-note part; also a single empty part."""
    i = 0
    cfg0 = CONFIGS[0]

    def base(cfg):
        return dict(notes=[[60, M.tk(96, *cfg), M.tk(F(9601, 20), *cfg), 64, 0, 0]])

    for fifths in range(-7, 8):
        for mode in ("major", "minor", None):
            for inp in ("perf", "ppart", "list"):
                i += 1
                cfg = CONFIGS[i % 9]
                p = base(cfg)
                p["keysigs"] = [[M.tk([0, 96, F(501, 2)][i % 3], *cfg), fifths, mode, 0]]
                yield _rt([p], cfg, inp, MERGES[i % 4], IOS[i % 3], "lpm")
    for beats in range(1, 13):
        for bt in (1, 2, 4, 8, 16, 32):
            i += 1
            cfg = CONFIGS[i % 9]
            p = base(cfg)
            p["timesigs"] = [[M.tk([0, 96, F(501, 2)][i % 3], *cfg), beats, bt, 0]]
            yield _rt([p], cfg, ["perf", "ppart", "list"][i % 3], MERGES[i % 4], IOS[i % 3], "lpm")
    metas = [("text", {"text": "a b"}), ("copyright", {"text": "(c)"}), ("track_name", {"name": "Piano"}),
             ("instrument_name", {"name": "pf"}), ("lyrics", {"text": "la"}), ("marker", {"text": "A"}),
             ("cue_marker", {"text": "cue"}), ("device_name", {"name": "dev"}), ("midi_port", {"port": 3}),
             ("channel_prefix", {"channel": 9})]
    for typ, attrs in metas:
        for ti in range(3):
            for inp in ("perf", "ppart", "list"):
                for mg in MERGES:
                    i += 1
                    cfg = CONFIGS[i % 9]
                    p = base(cfg)
                    p["metas"] = [[M.tk([0, 96, F(30051, 100)][ti], *cfg), typ, attrs, 0]]
                    if i % 2:
                        p["metas"].append([M.tk(F(961, 10), *cfg), "text", {"text": "second"}, 0])
                    yield _rt([p], cfg, inp, mg, IOS[i % 3], "lp" if (i % 4 == 0 and IOS[i % 3] != "object") else "lpm")
    for inp in ("perf", "ppart", "list"):
        for mg in MERGES:
            for io in IOS:
                yield _rt([dict(notes=[])], cfg0, inp, mg, io, "lpm")


def eval_unit(case):
    """direct calls of adjust_time / midi_ticks_to_seconds / seconds_to_midi_ticks"""
    import numpy as np
    from partitura.io.importmidi import adjust_time
    from partitura.utils.music import midi_ticks_to_seconds, seconds_to_midi_ticks

    res = CaseResult(states=1, transitions=0, traces=1)
    ppq = case["ppq"]
    changes = [tuple(c) for c in case["changes"]]
    # reference: tempo in force from each change on (later entry of a tick wins)
    uniq = {}
    for tick, mpq in changes:
        uniq[tick] = mpq
    clock = M.make_clock(sorted(uniq.items()), ppq, changes[0][1])
    bad = 0
    for tick in case["ticks"]:
        ok, v = guarded(res, "unit-adjust_time", adjust_time, tick, list(changes), ppq)
        res.transitions += 1
        if not ok:
            break
        if not _close(v, clock(tick)):
            bad += 1
            res.fail("unit-adjust_time", expected=float(clock(tick)), observed=float(v), where="adjust_time",
                     detail="tick=%d changes=%r ppq=%d" % (tick, changes, ppq))
            break
    mpq = changes[-1][1]
    ticks = list(case["ticks"])
    for form in ("scalar", "array"):
        try:
            if form == "scalar":
                got = [midi_ticks_to_seconds(t, mpq=mpq, ppq=ppq) for t in ticks]
                back = [seconds_to_midi_ticks(g, mpq=mpq, ppq=ppq) for g in got]
            else:
                got = midi_ticks_to_seconds(np.array(ticks), mpq=mpq, ppq=ppq)
                back = list(seconds_to_midi_ticks(np.asarray(got), mpq=mpq, ppq=ppq))
                got = list(got)
            res.transitions += 2
        except Exception as e:
            res.fail("unit-ticks-seconds", kind="exception", where=innermost_partitura_frame(e), observed=exc_text(e),
                     detail=form)
            continue
        exp = [M.tick_seconds(t, ppq, mpq) for t in ticks]
        if len(got) != len(exp) or not all(_close(g, e) for g, e in zip(got, exp)):
            res.fail("unit-ticks-seconds", expected=[float(e) for e in exp], observed=[float(g) for g in got],
                     where="midi_ticks_to_seconds", detail="%s mpq=%d ppq=%d" % (form, mpq, ppq))
        elif [int(b) for b in back] != ticks:
            res.fail("unit-ticks-seconds", expected=ticks, observed=[int(b) for b in back],
                     where="seconds_to_midi_ticks", detail="%s mpq=%d ppq=%d (ticks -> seconds -> ticks)" % (form, mpq, ppq))
    res.outcome = "unit changes=%d %s" % (len(changes), "ok" if not res.violations else "bad")
    res.nontrivial = len(changes) > 1
    return res


def gen_unit():
    ticks = [0, 1, 49, 50, 51, 100, 150, 200, 201, 960]
    vals = [500000, 250000, 600000, 333333]
    for ppq in (480, 96, 1000):
        for m0 in vals[:3]:
            for n in range(0, 4):
                for pos in itertools.combinations_with_replacement([0, 50, 100, 200], n):
                    for vs in itertools.product(vals, repeat=n):
                        yield dict(kind="unit", ppq=ppq, changes=[[0, m0]] + [[p, v] for p, v in zip(pos, vs)], ticks=ticks)


# --- raw files

RAW_CONTENT = {
    # layout name -> list of tracks (without tempo events)
    "one": [[
        [0, "pc", 0, 5], [0, "ks", "Am"], [0, "on", 0, 60, 64], [50, "on", 0, 62, 100], [75, "cc", 0, 64, 127],
        [100, "off", 0, 60], [120, "on", 1, 60, 1], [130, "on0", 1, 60], [220, "meta", "text", {"text": "x"}],
        [250, "off", 0, 62], [260, "cc", 0, 64, 0],
    ]],
    "two": [
        [[0, "on", 0, 60, 64], [50, "cc", 0, 67, 127], [100, "off", 0, 60], [100, "on", 0, 60, 70], [230, "on0", 0, 60],
         [230, "ts", 3, 8]],
        [[0, "pc", 1, 7], [10, "on", 1, 61, 127], [60, "off", 1, 61], [100, "on", 1, 60, 2], [150, "cc", 1, 1, 9],
         [220, "on0", 1, 60], [270, "pc", 1, 8]],
    ],
    "conductor": [
        [],
        [[0, "on", 0, 60, 64], [50, "on", 1, 60, 65], [100, "off", 0, 60], [200, "on0", 1, 60], [210, "cc", 0, 67, 1],
         [300, "meta", "marker", {"text": "end"}]],
    ],
    "three": [
        [[0, "meta", "track_name", {"name": "c"}]],
        [[0, "on", 0, 60, 64], [100, "off", 0, 60], [200, "cc", 0, 64, 100]],
        [[50, "on", 0, 60, 30], [250, "off", 0, 60], [250, "pc", 0, 3]],
    ],
}


def _insert_tempo(content, tempos, after):
    """tempos: list of (track, tick, mpq) in sequence order; inserted before (or after) the other events
    of the same tick, keeping sequence order among tempo events of one track and tick."""
    out = []
    for ti, evs in enumerate(content):
        mine = [(tick, mpq) for tr, tick, mpq in tempos if tr == ti]
        allev = []
        for pos, ev in enumerate(evs):
            allev.append((ev[0], 1, pos, ev))
        for pos, (tick, mpq) in enumerate(mine):
            allev.append((tick, 2 if after else 0, pos, [tick, "tempo", mpq]))
        allev.sort(key=lambda x: (x[0], x[1], x[2]))
        out.append([e[3] for e in allev])
    return out


def tempo_sequences(ntracks, ticks, values, maxlen):
    seen = set()
    opts = [(tr, tick, v) for tr in range(ntracks) for tick in ticks for v in values]
    for n in range(0, maxlen + 1):
        for seq in itertools.product(opts, repeat=n):
            # canonical form: per track, stable by tick
            canon = tuple(sorted(seq, key=lambda x: (x[0], x[1])))
            if canon in seen:
                continue
            seen.add(canon)
            yield n, list(canon)


def gen_raw_tempo(layouts, ticks, values, maxlen, block=None, full_len=2):
    i = 0
    for layout in layouts:
        content = RAW_CONTENT[layout]
        for n, seq in tempo_sequences(len(content), ticks, values, maxlen):
            for merge in (0, 1):
                if merge and layout == "three":
                    continue  # equal pitch and channel overlap across its tracks
                for ppq in (480, 96):
                    i += 1
                    bpm = 100 if i % 3 == 0 else 120
                    c = dict(kind="raw", ppq=ppq, tracks=_insert_tempo(content, seq, after=i % 2), merge=merge,
                             bpm=bpm, io=["object", "path"][i % 2], loader="lp" if i % 10 == 1 else "lpm",
                             defaults=(bpm == 120 and i % 4 == 0), layout=layout)
                    if n > full_len and block is not None and block_of(c, block[1]) != block[0]:
                        continue
                    yield c


RAW_PATTERNS = [
    ("disjoint", (0, 100, 200, 300)),
    ("abut", (0, 100, 100, 300)),
    ("overlap", (0, 200, 100, 300)),
    ("nested", (0, 300, 100, 200)),
    ("same-onset", (0, 100, 0, 300)),
    ("same-onset-rev", (0, 300, 0, 100)),
    ("identical", (0, 300, 0, 300)),
    ("zero-then-start", (100, 100, 100, 300)),
    ("same-offset", (0, 300, 100, 300)),
]


def gen_raw_pairing():
    i = 0
    keys = [(ch, p) for ch in (0, 1) for p in (60, 61)]
    for pname, (a0, a1, b0, b1) in RAW_PATTERNS:
        for ka in keys:
            for kb in keys:
                for offa in ("off", "on0"):
                    for offb in ("off", "on0"):
                        for bfirst in (0, 1):
                            for split in (0, 1):  # notes in one track / in two tracks
                                for merge in (0, 1):
                                    for tempo in (0, 1):
                                        same_key = ka == kb
                                        overlapping = pname not in ("disjoint", "abut", "zero-then-start")
                                        if same_key and overlapping and not (split and not merge):
                                            continue
                                        if same_key and split and merge and pname != "disjoint":
                                            continue
                                        if bfirst and (split or same_key):
                                            continue
                                        i += 1
                                        A = [[a0, "on", ka[0], ka[1], 64], [a1, offa, ka[0], ka[1]]]
                                        B = [[b0, "on", kb[0], kb[1], 65], [b1, offb, kb[0], kb[1]]]
                                        if split:
                                            tracks = [A, B]
                                        else:
                                            # stable by tick: file order inside a tick follows the list order
                                            tracks = [sorted(B + A if bfirst else A + B, key=lambda ev: ev[0])]
                                        if tempo:
                                            tracks = _insert_tempo(tracks, [(len(tracks) - 1, 150, 250000)], after=0)
                                        yield dict(kind="raw", ppq=[480, 96][i % 2], tracks=tracks, merge=merge, bpm=120,
                                                   io=["object", "path"][i % 2], loader="lpm", pattern=pname)


def gen_raw_keys():
    """channel/pitch keys that collide under a wrong sounding-note key; every channel; pitch bounds."""
    i = 0
    keys = [(ch, p) for ch in (0, 1, 2, 15) for p in (0, 1, 126, 127)]
    for ka in keys:
        for kb in keys:
            if ka == kb:
                continue
            i += 1
            evs = [[0, "on", ka[0], ka[1], 11], [10, "on", kb[0], kb[1], 22], [20, ["off", "on0"][i % 2], kb[0], kb[1]],
                   [30, ["on0", "off"][i % 2], ka[0], ka[1]]]
            yield dict(kind="raw", ppq=480, tracks=[evs], merge=i % 2, bpm=120, io="object", loader="lpm")
    for ch in range(16):
        for p in (0, 60, 127):
            for vel in (1, 127):
                i += 1
                evs = [[5, "on", ch, p, vel], [5, "cc", ch, (i * 7) % 128, (i * 3) % 128], [17, "off", ch, p, 99]]
                yield dict(kind="raw", ppq=96, tracks=[evs], merge=0, bpm=120, io="path", loader="lpm")

# ---------------------------------------------------------------------------------------------
# (c) silence removal: load_performance(..., first_note_at_zero=True)


def _silence_mismatch(exp, obs, claim_track, default_prog):
    """exp: dict(notes=[...exact seconds...], events=[(group key, seconds, value)]) on the file's own time
    axis; obs: observe(perf) of the performance loaded with first_note_at_zero=True.
    Returns None or (clause, expected, observed, detail)."""
    origin = min(n["on"] for n in exp["notes"])

    def trk(x):
        return x if claim_track else "any"

    def compat(e, o):
        for k in ("pitch", "vel", "ch"):
            if not _eq(e[k], o.get(k)):
                return False
        if claim_track and not _eq(e["track"], o.get("track")):
            return False
        return _close(o.get("on"), e["on"] - origin) and _close(o.get("off"), e["off"] - origin)

    if not M.match_records(exp["notes"], obs["notes"], compat):
        return ("silence-notes",
                sorted([dict(pitch=n["pitch"], vel=n["vel"], ch=n["ch"], track=trk(n["track"]), on=float(n["on"] - origin),
                             off=float(n["off"] - origin)) for n in exp["notes"]], key=repr),
                _render_obs("notes", obs["notes"]), "first onset of the file at %r s" % float(origin))
    eg = {}
    for key, t, v in exp["events"]:
        key = (key[0], trk(key[1])) + tuple(key[2:])
        eg.setdefault(key, []).append((t, v))
    og = {}
    try:
        for c in obs["controls"]:
            og.setdefault(("cc", trk(int(c["track"])), int(c["ch"]), int(c["num"])), []).append((c["t"], int(c["val"])))
        for c in obs["programs"]:
            og.setdefault(("pc", trk(int(c["track"])), int(c["ch"])), []).append((c["t"], int(c["prog"])))
    except (TypeError, ValueError):
        return ("silence-controls", "numeric track/channel/number/value", _render_obs("controls", obs["controls"]), "")
    has_prog = any(k[0] == "pc" for k in eg)
    for key in sorted(set(eg) | set(og), key=repr):
        clause = "silence-controls" if key[0] == "cc" else "silence-programs"
        what = "(kind, track, channel%s)=%r" % (", number" if key[0] == "cc" else "", key)
        if key not in eg:
            if key[0] == "pc" and default_prog and not has_prog and all(v == 0 for _, v in og[key]):
                continue  # default program written by the exporter
            return (clause, "no event for %s" % what, [[float(t), v] for t, v in og[key]],
                    "a controller that the file never sets")
        reason = SIL.compare_state(eg[key], og.get(key, []), origin)
        if reason is not None:
            return (clause, dict(group=list(key), state_from=[[float(t), v] for t, v in SIL.expected_steps(eg[key], origin)]),
                    dict(events=[[float(t), v] for t, v in og.get(key, [])]),
                    "%s; first onset of the file at %r s; %s" % (reason, float(origin), what))
    return None


def _expected_silence_raw(case, clock):
    parts = M.ref_read(case["tracks"], merge=bool(case["merge"]))
    if len(parts) != 1 or not parts[0]["notes"]:
        raise ValueError("generator: a silence case must yield exactly one part with notes")
    p = parts[0]
    tr = 0 if case["merge"] else p["track"]
    exp = dict(notes=[], events=[])
    for n in p["notes"]:
        exp["notes"].append(dict(pitch=n["pitch"], vel=n["vel"], ch=n["ch"], track=tr, on=clock(n["on"][0]), off=clock(n["off"][0])))
    for c in p["controls"]:
        exp["events"].append((("cc", tr, c["ch"], c["num"]), clock(c["t"][0]), c["val"]))
    for c in p["programs"]:
        exp["events"].append((("pc", tr, c["ch"]), clock(c["t"][0]), c["prog"]))
    return exp


def _expected_silence_rt(case):
    ppq, mpq = case["cfg"]

    def sec(t):
        o = M.tick_options(t, ppq, mpq)
        if len(o) != 1:
            raise ValueError("generator: tie in a silence case")
        return M.tick_seconds(o[0], ppq, mpq)

    exp = dict(notes=[], events=[])
    for p in case["parts"]:
        for pitch, on, off, vel, ch, tr in p.get("notes", []):
            exp["notes"].append(dict(pitch=pitch, vel=vel, ch=_ech(ch), track=0, on=sec(on), off=sec(off)))
        for t, num, val, ch, tr in p.get("controls", []):
            exp["events"].append((("cc", 0, _ech(ch), num), sec(t), val))
        for t, prog, ch, tr in p.get("programs", []):
            exp["events"].append((("pc", 0, _ech(ch)), sec(t), prog))
    return exp


def eval_silence(case):
    import contextlib
    import io

    from partitura.io import load_performance
    from partitura.performance import Performance

    res = CaseResult(states=1, transitions=0, traces=1)
    res.nontrivial = False
    path = None
    if case["src"] == "raw":
        mf = mido_of_abstract(case["tracks"], case["ppq"])
        if case["io"] == "object":
            arg = mf
        else:
            arg = path = tmp_path("c06sil.mid")
            mf.save(arg)
        merge = bool(case["merge"])
        readings = [_expected_silence_raw(case, clock) for clock in M.clocks(case["tracks"], case["ppq"], 500000)]
        claim_track = merge or len(case["tracks"]) == 1
        default_prog = False
    else:
        ok, parts = guarded(res, "silence-construct", build_parts, case)
        if not ok:
            res.outcome = "construct-exception"
            return res
        if case["inp"] == "perf":
            ok, obj = guarded(res, "silence-construct", Performance, parts)
            if not ok:
                res.outcome = "construct-exception"
                return res
        elif case["inp"] == "ppart":
            obj = parts[0]
        else:
            obj = list(parts)
        saved = _save(case, obj, res, stage="silence")
        res.transitions += 1
        if saved is None:
            res.outcome = "save-failed"
            return res
        arg = saved[1]
        if case["io"] != "object":
            path = arg
        merge = bool(case["mload"])
        readings = [_expected_silence_rt(case)]
        claim_track = True
        default_prog = True
    try:
        kw = dict(first_note_at_zero=True)
        if merge or case.get("explicit"):
            kw["merge_tracks"] = merge
        with contextlib.redirect_stdout(io.StringIO()):  # it prints the swallowed loader errors
            ok, perf = guarded(res, "silence-load", load_performance, arg, **kw)
        res.transitions += 1
    finally:
        if path is not None:
            _unlink(path)
    if not ok:
        res.outcome = "load-failed"
        return res
    ok, obs = guarded(res, "silence-loaded-structure", observe, perf)
    if not ok:
        res.outcome = "loaded-structure"
        return res
    nparts = len(perf.performedparts)
    if nparts != 1:
        res.fail("silence-parts", expected=1, observed=nparts, where="load_performance")
        res.outcome = "parts=%d" % nparts
        return res
    first = None
    for exp in readings:
        bad = _silence_mismatch(exp, obs, claim_track, default_prog)
        if bad is None:
            first = None
            break
        if first is None:
            first = bad
    if first is not None:
        clause, e, o, detail = first
        res.fail(clause, expected=e, observed=o, where="load_performance(first_note_at_zero=True) / "
                 "remove_silence_from_performed_part", detail=detail)
    check_ids(res, "silence", perf, where="load_performance(first_note_at_zero=True)")
    exp = readings[0]
    origin = min(n["on"] for n in exp["notes"])
    groups = {}
    for key, t, v in exp["events"]:
        groups.setdefault(key, []).append(t)
    before = sum(1 for ts in groups.values() if max(ts) < origin)
    straddle = sum(1 for ts in groups.values() if min(ts) < origin <= max(ts))
    res.nontrivial = origin > 0
    res.outcome = "silence=%s groups=%d only-before=%d straddling=%d %s" % (
        "yes" if origin > 0 else "no", len(groups), before, straddle, "ok" if not res.violations else "bad")
    return res


# controller groups of the silence spaces: (kind, channel, controller number); values per kind
SIL_GROUPS = [("cc", 0, 64), ("cc", 0, 7), ("cc", 1, 64), ("pc", 0, None)]
SIL_VALUES = {"cc": (0, 127), "pc": (3, 9)}
SIL_LAYOUTS = ("one", "cond", "two")
SIL_TEMPOS = (None, "pre", "post")


def silence_event_sets(npos, maxlen):
    """every set of <= maxlen events over (time position, group), each with every value of its alphabet"""
    positions = [(ti, g) for ti in range(npos) for g in range(len(SIL_GROUPS))]
    for n in range(maxlen + 1):
        for combo in itertools.combinations(positions, n):
            for vals in itertools.product((0, 1), repeat=n):
                yield n, [[ti, g, v] for (ti, g), v in zip(combo, vals)]


def gen_silence_raw(quick, block):
    """abstract files whose first note starts at tick S: note A (channel 0) [S, S+100], note B (channel 1)
    [S+50, S+150]; control / program change events at ticks before, at and after S."""
    i = 0
    for S, ticks in ((200, [0, 100, 200, 250, 400]), (0, [0, 50, 300])):
        maxlen = 3 if (S or not quick) else 2
        si = 0
        for n, evset in silence_event_sets(len(ticks), maxlen):
            si += 1
            for li, layout in enumerate(SIL_LAYOUTS):
                for xi, tempo in enumerate(SIL_TEMPOS):
                    i += 1
                    if quick:
                        # <=1 event: full product; 2 events: every layout, tempo cycled; 3 events: one
                        # (layout, tempo) per set, cycled, and only the sets of the seed's block
                        if n == 2 and xi != (si + li) % 3:
                            continue
                        if n == 3 and (li != si % 3 or xi != (si // 3) % 3):
                            continue
                        if n == 3 and block_of(["sil-raw", S, evset], block[1]) != block[0]:
                            continue
                    elif n == 3 and xi != (si + li) % 3:
                        continue
                    A = [[S, "on", 0, 60, 64], [S + 100, "off", 0, 60]]
                    B = [[S + 50, "on", 1, 62, 80], [S + 150, "on0", 1, 62]]
                    evs = []
                    for ti, g, v in evset:
                        kind, ch, num = SIL_GROUPS[g]
                        val = SIL_VALUES[kind][v]
                        evs.append([ticks[ti], "cc", ch, num, val] if kind == "cc" else [ticks[ti], "pc", ch, val])
                    first = i % 2  # events before / after the note messages of the same tick
                    if layout == "two":
                        t0 = [e for e in evs if e[2] == 0]
                        t1 = [e for e in evs if e[2] == 1]
                        content = [sorted(t0 + A if first else A + t0, key=lambda e: e[0]),
                                   sorted(t1 + B if first else B + t1, key=lambda e: e[0])]
                        merge = 1
                    else:
                        tr = sorted(evs + A + B if first else A + B + evs, key=lambda e: e[0])
                        content = [tr] if layout == "one" else [[], tr]
                        merge = (i // 2) % 2
                    if tempo is not None:
                        tick = S // 2 if tempo == "pre" else S + 75
                        content = _insert_tempo(content, [((i // 4) % 2 if layout == "two" else 0, tick, 250000)], after=(i // 8) % 2)
                    yield dict(kind="sil", src="raw", ppq=[480, 96][i % 2], tracks=content, merge=merge,
                               io=["path", "object"][(i // 2) % 2], explicit=i % 3 == 0, layout=layout, tempo=tempo)


def gen_silence_rt(quick, block):
    """performances saved with save_performance_midi: first note at S (tick units of the export
    configuration: 0, 200.49, 240 1/3), note A (channel 0) [S, S+100.2], note B (channel 1) [S+50.3, S+150.4]."""
    i = 0
    for S in (F(0), F(20049, 100), F(721, 3)):
        if S == 0:
            pos = [F(0), F(503, 10), F(2004, 10)]
        else:
            pos = [F(0), F(401, 4), S - F(3, 10), S, S + F(503, 10), S + F(2004, 10)]
        for n, evset in silence_event_sets(len(pos), 2):
            if quick and n == 2 and block_of(["sil-rt", str(S), evset], block[1]) != block[0]:
                i += 3
                continue
            for variant in ("single", "msave", "mload"):
                i += 1
                cfg = CONFIGS[i % 9]
                trb = 0 if variant == "single" else 1
                notes = [[60, M.tk(S, *cfg), M.tk(S + F(501, 5), *cfg), 64, 0, 0],
                         [62, M.tk(S + F(503, 10), *cfg), M.tk(S + F(752, 5), *cfg), 80, 1, trb]]
                part = dict(notes=notes, controls=[], programs=[])
                seen = set()
                ok = True
                for ti, g, v in evset:
                    kind, ch, num = SIL_GROUPS[g]
                    val = SIL_VALUES[kind][v]
                    t = M.tk(pos[ti], *cfg)
                    o = M.tick_options(t, cfg[0], cfg[1])
                    if len(o) != 1 or (g, o[0]) in seen:
                        ok = False  # a tie, or two events of one controller in one tick (order open)
                    seen.add((g, o[0]))
                    tr = trb if ch == 1 else 0
                    if kind == "cc":
                        part["controls"].append([t, num, val, ch, tr])
                    else:
                        part["programs"].append([t, val, ch, tr])
                if not ok:
                    continue
                if any(len(M.tick_options(x, cfg[0], cfg[1])) != 1 for nt in notes for x in (nt[1], nt[2])):
                    continue
                c = _rt([part], cfg, ["perf", "ppart", "list"][i % 3], (int(variant == "msave"), int(variant == "mload")),
                        IOS[(i // 3) % 3], "lp", gen2=False, variant=variant)
                c["kind"] = "sil"
                c["src"] = "rt"
                c["explicit"] = i % 2 == 0
                if valid_rt(c):
                    yield c


# ---------------------------------------------------------------------------------------------
# (d) generators: a loaded performance saved again

RESAVE_EDITS = [["none"], ["shift", 0.25], ["shift", 0.1003], ["scale", 2.0], ["scale", 0.5], ["scale", 1.2]]
RESAVE_ATTRS = ["loaded", "export"]
# (layout name, (pitch, channel, track) of note A, of note B)
RESAVE_LAYOUTS = [
    ("one-track-same-pitch", (60, 0, 0), (60, 0, 0)),
    ("one-track", (60, 0, 0), (61, 1, 0)),
    ("two-tracks", (60, 0, 0), (61, 1, 1)),
    ("two-tracks-same-pitch", (60, 0, 0), (60, 0, 1)),
]
RESAVE_CORE = [("one-track", "disjoint"), ("two-tracks", "abut-by-rounding")]


def _resave(first, cfg2, edit, attrs, i):
    io2 = IOS[i % 3]
    return dict(kind="resave", first=first, cfg2=list(cfg2), edit=edit, attrs=attrs,
                inp2=["perf", "list", "ppart"][(i // 3) % 3], io2=io2,
                loader2="lp" if (i % 5 == 0 and io2 != "object") else "lpm",
                defaults2=(tuple(cfg2) == (480, 500000) and i % 2 == 0))


def gen_resave_rt(block):
    """first export configuration x second export configuration x edit x part attributes x content"""
    i = 0
    for cfg1 in CONFIGS:
        for cfg2 in CONFIGS:
            for edit in RESAVE_EDITS:
                for attrs in RESAVE_ATTRS:
                    for lname, da, db in RESAVE_LAYOUTS:
                        for pname, pat in TWO_PATTERNS:
                            i += 1
                            if block is not None and (lname, pname) not in RESAVE_CORE and \
                                    block_of(["resave-rt", cfg1, cfg2, edit, attrs, lname, pname], block[1]) != block[0]:
                                continue
                            ta = _times(cfg1, pat)
                            na = [da[0], ta[0], ta[1], [1, 64, 127][i % 3], da[1], da[2]]
                            nb = [db[0], ta[2], ta[3], [64, 127, 1][i % 3], db[1], db[2]]
                            part = dict(notes=[na, nb], controls=[[ta[1], 64 if da[0] != db[0] else 67, (i * 37) % 128, da[1], da[2]]])
                            if i % 2:
                                part["programs"] = [[0.0, i % 128, db[1], db[2]]]
                            if i % 4 == 0:
                                part["keysigs"] = [[ta[0], [0, -3, 2, 7][(i // 4) % 4], [None, "minor", "major"][(i // 4) % 3], 0]]
                            if i % 4 == 1:
                                part["timesigs"] = [[ta[2], [3, 4, 6][(i // 4) % 3], [8, 4, 2][(i // 4) % 3], 0]]
                            if i % 4 == 2:
                                part["metas"] = [[ta[3], "text", {"text": "t%d" % (i % 7)}, 0]]
                            io = IOS[(i // 2) % 3]
                            first = _rt([part], cfg1, ["perf", "ppart", "list"][i % 3], MERGES[(i // 3) % 4], io,
                                        "lp" if (i % 7 == 0 and io != "object") else "lpm", pattern=pname, layout=lname,
                                        defaults=(cfg1 == (480, 500000) and i % 3 == 1))
                            if valid_rt(first):
                                yield _resave(first, cfg2, edit, attrs, i)


def _strip_meta(content):
    return [[ev for ev in tr if ev[1] not in ("ks", "ts", "meta")] for tr in content]


def gen_resave_raw(layouts, ticks, values, maxlen, block=None, full_len=1):
    """abstract files with tempo changes, loaded, then saved again.  Sequences of <= full_len tempo events:
    x every second configuration x part attributes (edit cycled); longer ones: second configuration in
    {(file ppq, 500000), (1000, 333333)}, edit and attributes cycled."""
    i = 0
    for layout in layouts:
        for n, seq in tempo_sequences(len(RAW_CONTENT[layout]), ticks, values, maxlen):
            for merge in (0, 1):
                if merge and layout == "three":
                    continue  # equal pitch and channel overlap across its tracks
                content = RAW_CONTENT[layout]
                if not merge and layout in ("conductor", "three"):
                    # the importer renumbers the tracks of notes, controls and programs of the parts it returns,
                    # not those of signatures / meta events (not claimed, see raw-tempo): none are generated
                    content = _strip_meta(content)
                for ppq in (480, 96):
                    if n <= full_len:
                        seconds = [(cfg2, attrs) for cfg2 in CONFIGS for attrs in RESAVE_ATTRS]
                    else:
                        seconds = [((ppq, 500000), None), ((1000, 333333), None)]
                    for cfg2, attrs in seconds:
                        i += 1
                        bpm = 100 if i % 3 == 0 else 120
                        first = dict(kind="raw", ppq=ppq, tracks=_insert_tempo(content, seq, after=i % 2), merge=merge,
                                     bpm=bpm, io=["object", "path"][i % 2], loader="lp" if i % 10 == 1 else "lpm",
                                     defaults=(bpm == 120 and i % 4 == 0), layout=layout)
                        c = _resave(first, cfg2, RESAVE_EDITS[i % len(RESAVE_EDITS)], attrs or RESAVE_ATTRS[(i // 6) % 2], i)
                        if n > full_len and block is not None and block_of(c, block[1]) != block[0]:
                            continue
                        yield c


# kinds of file track: N note + control, C control only (both yield a performed part); M only text-like meta
# events, Z nothing, T only a set_tempo event (none of them yields a part)
LAYOUT_KINDS = ("N", "C", "M", "Z", "T")


def _layout_tracks(kinds, merge):
    tracks = []
    kept = True  # every earlier track yields a part: the importer keeps this track's number
    for ti, kind in enumerate(kinds):
        ch = ti % 2
        if kind == "N":
            evs = [[20 * ti, "on", ch, 60 + ti, 64 + ti], [50 + 20 * ti, "cc", ch, 67, 10 + ti],
                   [120 + 20 * ti, "off" if ti % 2 else "on0", ch, 60 + ti]]
            if kept or merge:
                evs.insert(0, [0, "meta", "text", {"text": "t%d" % ti}])
        elif kind == "C":
            evs = [[30 + ti, "cc", ch, 1, 5 + ti]]
        elif kind == "M":
            evs = [[0, "meta", "track_name", {"name": "m%d" % ti}], [40, "meta", "marker", {"text": "x"}]]
        elif kind == "T":
            evs = [[40 + 30 * ti, "tempo", [600000, 250000][ti % 2]]]
        else:
            evs = []
        if kind not in ("N", "C"):
            kept = False
        tracks.append(evs)
    return tracks


def gen_resave_layouts(quick, seed):
    """abstract files whose tracks are, in every order, tracks that yield a performed part and tracks that do
    not (only meta events, empty, only a tempo change), loaded, then saved again and loaded"""
    i = 0
    B = 4
    for n in range(1, 5):
        for kinds in itertools.product(LAYOUT_KINDS, repeat=n):
            if not any(k in ("N", "C") for k in kinds):
                i += 6
                continue  # no performed part at all
            for merge in (0, 1):
                for inp2 in ("perf", "list", "ppart"):
                    i += 1
                    if quick and n == 4 and block_of(["layouts", kinds], B) != seed % B:
                        continue
                    ppq = [480, 96][i % 2]
                    first = dict(kind="raw", ppq=ppq, tracks=_layout_tracks(kinds, merge), merge=merge, bpm=120,
                                 io=["object", "path"][(i // 2) % 2], loader="lp" if i % 10 == 1 else "lpm",
                                 defaults=(i % 4 == 0), layout="".join(kinds))
                    c = _resave(first, CONFIGS[i % 9], RESAVE_EDITS[i % len(RESAVE_EDITS)], RESAVE_ATTRS[(i // 6) % 2], i)
                    c["inp2"] = inp2
                    yield c


def spaces(tier, seed):
    quick = tier == "quick"
    sp = []
    sp.append(Space("rt-one-note", lambda: gen_one_note(CONFIGS, ("perf", "ppart", "list"), MERGES), True,
                    "1 note, every (onset<=offset) pair of 15 times (exact ticks, k+1/2 ties, k+.49/.51, thirds, "
                    "decimals) x 9 (ppq,mpq) x 3 input kinds x 4 merge combinations; velocity, channel, one control "
                    "(any number/value), program, signature, text, output kind and loader cycled"))
    sp.append(Space("rt-single-track", gen_single_track, True,
                    "part and one-element list input with all events on track number 1, 2 or 7 (no track 0) x 9 (ppq, mpq) x merges x 4 time pairs"))
    sp.append(Space("rt-ranges", gen_ranges, True, "every velocity 1..127 x every channel 0..15, one note + one control"))
    sp.append(Space("rt-defaults", gen_defaults, True,
                    "omitted channel/track keys on notes, controls, programs x default ppq/mpq/merge arguments x part/list x merge on save"))
    sp.append(Space("rt-signatures", gen_signatures, True,
                    "one note + every key signature (fifths -7..7 x major/minor/unspecified) x 3 input kinds; every time "
                    "signature beats 1..12 x beat type {1..32}; 10 meta event types x 3 times x 3 input kinds x 4 merge "
                    "combinations; a single empty part x input kinds x merges x output kinds"))
    B2 = 4
    if quick:
        sp.append(Space("rt-two-notes", lambda: gen_two_notes(("perf", "ppart", "list"), MERGES, TWO_PATTERNS, (seed % B2, B2)),
                        True, "block %d of %d of: 2 notes, all ordered pairs of (pitch{60,61}, channel{0,1,15}, track{0,1}) x 10 "
                        "interval patterns x both list orders x 4 merge combinations x 3 input kinds" % (seed % B2, B2)))
    else:
        sp.append(Space("rt-two-notes", lambda: gen_two_notes(("perf", "ppart", "list"), MERGES, TWO_PATTERNS), True,
                        "2 notes, all ordered pairs of (pitch{60,61}, channel{0,1,15}, track{0,1}) x 10 interval patterns x "
                        "both list orders x 4 merge combinations x 3 input kinds"))
    B3 = 16
    sp.append(Space("rt-three-notes", lambda: gen_three_notes((seed % B3, B3) if quick else None), True,
                    ("block %d of %d (blocks of note-descriptor triples x input kind) of: " % (seed % B3, B3) if quick else "") +
                    "3 notes, all triples of (pitch{60,61}, channel{0,15}, track{0,1}) x 4 interval patterns x all 6 list "
                    "orders x 4 merge combinations x 3 input kinds"))
    BE = 4
    sp.append(Space("rt-events", lambda: gen_events((seed % BE, BE) if quick else None), True,
                    ("block %d of %d of the control x program product + all of: " % (seed % BE, BE) if quick else "") +
                    "364 control sets (all single controls over number{64,67,1} x value{0,64,127} x 3 channel/track "
                    "x 4 times; all ordered pairs of a 16-element pool) x 4 program sets; all key-signature x "
                    "time-signature x meta x program x 1|2 notes combinations; each x 3 input kinds x 4 merge combinations"))
    BM = 3
    sp.append(Space("rt-multi-part", lambda: gen_multi_part(2 if quick else 3), True,
                    "lists / Performances of 2%s performed parts, every combination of 6 part shapes (one track, two tracks, "
                    "second track only, equal pitch at disjoint times with pedal, controls only, empty) x with/without program "
                    "per part x list|Performance x 4 merge combinations" % ("" if quick else "..3")))
    if quick:
        sp.append(Space("rt-multi-part-3", lambda: gen_multi_part_only3((seed % BM, BM)), True,
                        "block %d of %d of the same with 3 parts" % (seed % BM, BM)))
    BT = 4
    sp.append(Space("raw-tempo",
                    lambda: gen_raw_tempo(["one", "two", "conductor"] + ([] if quick else ["three"]),
                                          [0, 50, 100, 200] + ([] if quick else [300]), [500000, 250000, 600000], 3,
                                          (seed % BT, BT) if quick else None),
                    True,
                    "abstract files (1 track, 2 tracks, conductor+1%s) x every sequence of <=3 set_tempo events over "
                    "(track, tick in {0,50,100,200%s}, mpq in {500000,250000,600000}) x merge x ppq{480,96}%s; default_bpm, "
                    "position inside the tick, loader and object/path cycled" % (
                        "" if quick else ", 3 tracks", "" if quick else ",300",
                        " (sequences of 3: block %d of %d)" % (seed % BT, BT) if quick else "")))
    sp.append(Space("raw-pairing", gen_raw_pairing, True,
                    "2 notes: 9 interval patterns x all ordered pairs of (channel{0,1}, pitch{60,61}) x note_off|zero-velocity "
                    "note_on for each x file order inside a tick x one|two tracks x merge x with/without a tempo change at tick 150"))
    sp.append(Space("unit-time", gen_unit, True,
                    "adjust_time on every tempo list [(0,m0)] + <=3 changes at non-decreasing ticks {0,50,100,200} with "
                    "mpq in {500000,250000,600000,333333} x ppq{480,96,1000} x 10 ticks; midi_ticks_to_seconds and "
                    "seconds_to_midi_ticks (scalar and array) on the same ticks"))
    sp.append(Space("raw-keys", gen_raw_keys, True,
                    "nested notes for all ordered pairs of (channel{0,1,2,15}, pitch{0,1,126,127}); every channel x pitch{0,60,127} x velocity{1,127}"))
    BS = 8
    sp.append(Space("silence-raw", lambda: gen_silence_raw(quick, (seed % BS, BS)), True,
                    "load_performance(first_note_at_zero=True) on abstract files: notes at [S,S+100] (channel 0) and "
                    "[S+50,S+150] (channel 1), S in {200, 0} ticks; every set of <=3 (S=200) / <=%d (S=0) control/program "
                    "change events over tick {0,100,200,250,400} (S=200) / {0,50,300} (S=0) x group {ch0 cc64, ch0 cc7, ch1 "
                    "cc64, ch0 program} x 2 values (no two events of a group in one tick); layouts {one track, empty "
                    "conductor track + one track, two tracks merged on load} x tempo change {none, inside the silence, "
                    "after the first onset}%s; ppq{480,96}, object/path, order inside a tick, merge flag cycled; only "
                    "files that yield one part" % (
                        (2, ": full product for <=1 event, every layout with the tempo cycled for 2 events, one "
                            "(layout, tempo) per set and block %d of %d of the sets for 3 events" % (seed % BS, BS)) if quick
                        else (3, ": full product for <=2 events, every layout with the tempo cycled for 3 events"))))
    BR = 4
    sp.append(Space("silence-rt", lambda: gen_silence_rt(quick, (seed % BR, BR)), True,
                    "save_performance_midi then load_performance(first_note_at_zero=True): two notes (channels 0, 1), first "
                    "onset S in {0, 200.49, 240 1/3} ticks of the export configuration; every set of <=2 control/program "
                    "change events over time {0, 100.25, S-0.3 (same tick as S), S, S+50.3, S+200.4} x the 4 groups x 2 "
                    "values%s x {one track; two tracks merged on save; two tracks merged on load}; 9 (ppq,mpq), "
                    "input kind and output kind cycled; no tick ties" % (
                        " (pairs: block %d of %d)" % (seed % BR, BR) if quick else "")))
    BV = 8
    sp.append(Space("resave-rt", lambda: gen_resave_rt((seed % BV, BV) if quick else None), True,
                    "a performance is saved with (ppq1, mpq1), loaded, edited, saved with (ppq2, mpq2) and loaded; the "
                    "expectation of the second file / load is computed from the seconds (note_on, note_off, time) of the "
                    "saved parts, whatever tick fields and ppq / mpq attributes they carry: all 9 x 9 pairs of "
                    "configurations x edit of every time after the first load {none, +0.25 s, +0.1003 s, x2, x0.5, x1.2} "
                    "(seconds only, through PerformedNote item assignment and the event dictionaries) x part attributes "
                    "ppq / mpq {as loaded, set to the second configuration} x content: 2 notes + 1 control in 4 layouts "
                    "(one track equal pitch, one track, two tracks, two tracks equal pitch) x the 10 interval patterns "
                    "of rt-two-notes%s; program / signature / text event, first input kind and merge flags, second input "
                    "kind {Performance, list of its parts, its first part}, default arguments, output kind and loader "
                    "cycled; no merging in the second round" % (
                        " (2 core contents complete, block %d of %d of the others)" % (seed % BV, BV) if quick else "")))
    BW = 4
    sp.append(Space("resave-raw",
                    lambda: gen_resave_raw(["one", "two", "conductor"] + ([] if quick else ["three"]), [0, 50, 100, 200],
                                           [500000, 250000, 600000], 2, (seed % BW, BW) if quick else None),
                    True,
                    "abstract files of raw-tempo (1 track, 2 tracks, conductor+1%s; signatures / meta events only where the "
                    "importer keeps the track number) with every sequence of <=2 set_tempo events over (track, tick in "
                    "{0,50,100,200}, mpq in {500000,250000,600000}) x merge on load x ppq{480,96}, loaded, edited, saved with "
                    "(ppq2, mpq2) and loaded; expectation as in resave-rt: <=1 tempo event: all 9 second configurations x "
                    "part attributes {as loaded, set to the second configuration}, edit cycled; 2 tempo events%s: second "
                    "configuration in {(file ppq, 500000), (1000, 333333)}, edit and attributes cycled; default_bpm "
                    "{120, 100}, second input kind, default arguments, output kind and loader cycled" % (
                        "" if quick else ", 3 tracks", " (block %d of %d)" % (seed % BW, BW) if quick else "")))
    BG2, BG3 = 4, 8
    sp.append(Space("rt-track-gaps", lambda: gen_track_gaps(quick, seed), True,
                    "Performances whose parts use arbitrary track numbers (gaps at the start, inside, numbers shared "
                    "between parts or not): a part = a set of 1 or 2 track numbers out of {0,1,2,4} x what each track "
                    "carries (1 track: note | note+control | control only | program only; 2 tracks: note/note, "
                    "note+control/note, control/note, note/control, note/program, program/note) = 52 part descriptions; "
                    "1 part: all x 4 merge combinations; 2 parts: all 52 x 52 ordered pairs%s; 3 parts: all 1000 triples of "
                    "track sets%s, carriers cycled; merge flags (half of the cases unmerged), 9 (ppq,mpq), output kind and "
                    "loader cycled; the numbers left by Performance() are checked (bijection onto 0..k-1) and the round "
                    "trip and its second generation must return them" % (
                        (" (both parts with notes on every track: complete; block %d of %d of the others)" % (seed % BG2, BG2),
                         " (block %d of %d)" % (seed % BG3, BG3)) if quick else ("", ""))))
    BL = 4
    sp.append(Space("resave-layouts", lambda: gen_resave_layouts(quick, seed), True,
                    "abstract files of 1..4 tracks, every sequence over the track kinds {note+control, control only, only "
                    "text-like meta events, empty, only a set_tempo} with at least one track that yields a performed part%s "
                    "x merge on load x second input kind {Performance, list of its parts, its first part}: loaded (compared "
                    "as raw-*; track numbers are not claimed there when a track yields no part), edited, saved with (ppq2, "
                    "mpq2) and loaded; a saved Performance must return every note / control / program / meta event with "
                    "the track number it holds, a list / part with the track numbers in use in ascending order; second "
                    "configuration, edit, part attributes, ppq{480,96}, output kind and loader cycled" % (
                        " (4 tracks: block %d of %d of the kind sequences)" % (seed % BL, BL) if quick else "")))
    # files first, then the round trips from small to large (the runner keeps the first 20000 violations)
    order = ["unit-time", "raw-keys", "raw-pairing", "raw-tempo", "resave-raw", "resave-layouts", "resave-rt", "silence-raw", "silence-rt", "rt-defaults", "rt-single-track", "rt-signatures", "rt-ranges",
             "rt-multi-part", "rt-track-gaps", "rt-multi-part-3", "rt-two-notes", "rt-events", "rt-three-notes", "rt-one-note"]
    sp.sort(key=lambda s: order.index(s.name))
    return sp


def gen_multi_part_only3(block):
    for c in gen_multi_part(3, block, min_parts=3):
        yield c


TRIGGERS = {}


if __name__ == "__main__":
    import checks.c06 as _m

    run_check(_m)
