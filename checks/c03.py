"""C03 - MusicXML export then import returns the same score; an independent reader of the written
file finds exactly the sounding notes; re-export of the re-imported score is a byte fixpoint.

Bounded-exhaustive enumeration of small scores (DESIGN section 4, C03) split into named sub-spaces;
each case is a compact description that mc/c03_gen.expand turns into a score spec (mc/ir.py), the
real Score is built through the public API, written with save_musicxml, read back with
load_musicxml, and compared on exactly the attributes listed in the statement (mc/c03_proj.py).
Reference values (notes that MusicXML cannot keep in their voice, sounding notes) come from the spec
alone (mc/c03_model.py); the written file is also read by the independent reader mc/c03_reader.py.

Construction-order and call-history dimensions: H1/H2 (order in which the voices are added), D3 (the divisions
table declared in any order and at any moment of the construction: mc/c03_model._build_part_phased, reference table
mc/c03_model.q_final), C6 (printed words of directions in every letter case; two files handled one after the other in
one process), D4 (divisions changes at every place of a two-measure part: a later measure whose only entry of the
divisions table lies in its middle, entries at the barline and in the middle, ...; the independent reader converts every
backup/forward/duration with the divisions value in force), N1/N2 (number forms: the numbers handed to the construction
API - voice, staff, times, octave/alter, dots and tuplet ratios, measure/ending/group numbers, signatures, clef, fingering,
tempo, quarter durations - as numpy scalars instead of Python ints, mc/c03_model.number_form; the score is the same score),
M1-M5 (magnitude of the numbers of ticks: the small families of A, D1, B1, C1 and the feature cores with every time and
divisions value multiplied by a factor up to 2^31+1 and the music moved behind an empty measure of up to 2^31+1 ticks,
mc/c03_gen.magnify; every reference value is computed in exact quarters from the spec, so it is the same at every magnitude).

Clauses: export-total / import-total / reexport-total (no exception), roundtrip-<attribute group>
(load(save(s)) == s on the statement's attributes), file-denotes-sounding-notes (independent reader),
byte-fixpoint (save(load(file)) == file).
"""
import io
import os

from mc.core import CaseResult, Space, run_check, guarded
from mc import c03_gen as G
from mc import c03_model as M

PID = "C03"
RULE = (
    "every case is a distinct compact score description enumerated by the named sub-space generators; "
    "non-trivial = the score has at least one note and the written file contains a backup, forward, chord, "
    "tie, grace, mid-measure attributes, direction, barline or a second part"
)
ASSUMPTIONS = [
    "generated scores follow the importer's conventions: Page 1 and System 1 from the first to the last point, "
    "first point at t=0, explicit voices and staves, measure number == position in the part and name a string, "
    "unique note ids, constant directions end at the next direction of the same family - loudness, tempo, articulation - "
    "else at the last point (score.set_end_times), "
    "tempo marks in integral quarters with unit 'q', barline fermatas with ref left/middle/right matching their place",
    "notes, rests and graces do not cross barlines or divisions changes; concurrently tied notes have distinct pitches; "
    "slurs run forward in time; a grace run belongs to the note that is written first in its voice at that onset",
    "voice re-assignment reading: notes that are longer than the shortest note of their voice at the same onset, or "
    "that sound past the next onset of their voice (per measure segment), may change voice to one that is unused "
    "during their span; every other note keeps its voice",
    "symbolic durations are compared through the public property GenericNote.symbolic_duration (a missing "
    "explicit value and the estimated value are the same thing); alter None == 0; direction staff None == 1 and only "
    "dynamics are put on staff 2; doc_order, Page/System and end times of signatures/clefs are not compared; the words of a "
    "direction are compared as printed = Direction.raw_text if set, else Direction.text (what save_musicxml writes and what "
    "load_musicxml stores as raw_text), so an object built with text only equals the one read back from its file",
    "declaration histories of the divisions table (D3): Part.set_quarter_duration(t, q) is read by its docstring (q takes effect "
    "from t until the time of the next quarter duration, a value set at t before is replaced); a call made where q is already in "
    "force and no entry exists adds nothing (the method's comment: 'unless it is redundant'), so what it means for a later "
    "re-declaration of an earlier time is open: histories with a call that does not change the table are not generated; the "
    "calls use the times of the final table only, so the final table has no entry that repeats the value before it (such an "
    "entry is written as a second <divisions> element, see the report of wave 6)",
    "grace_type is compared for 'grace' and 'acciaccatura' (slash), grace chains through grace_prev/grace_next ids",
    "tied grace notes (B4): a grace note has no duration, so a tie that stops on one grace note and another tie of the same "
    "pitch that starts on the next grace note (or the main note) of the run meet at one instant; MusicXML pairs ties by "
    "pitch and time and cannot tell them apart, so only contiguous runs of tie links through a grace run are generated "
    "(the statement's premise that concurrently tied notes have distinct pitches)",
    "excluded from the main sub-spaces and explored by the gated sub-spaces X1-X3 once known_findings.json has the "
    "corresponding open entry (see proposed_fixes/C03-NOTES.md): a divisions change inside a measure at a time where "
    "nothing starts or ends; a fermata on the right barline of a measure that is followed by another measure; plain "
    "score.Words objects; X4 (trigger redundant_divisions_entry, proposed_fixes/C03-s-redundant-divisions-entry.diff): a "
    "divisions table with an entry that repeats the value before it",
    "number forms (N1/N2): a score built through the public score API from numbers that are numpy integer scalars "
    "(numpy.int64, numpy.int32: what the rows of a note array or any numpy computation yield) is the same score as the one "
    "built from the equal Python ints, so all clauses apply to it unchanged and the loaded score is compared by value "
    "(numpy.int64(2) == 2); unsigned and floating types are not generated (their arithmetic differs from int arithmetic)",
    "magnitudes (M1-M5): MusicXML puts no upper bound on <divisions> or <duration> (positive numbers), and the score API "
    "takes any Python int as a time or quarter duration, so the same music on a grid of up to 3*(2^31+1) divisions per "
    "quarter, and music that follows an empty irregular measure (named 'L', no rest in it: its length is what the file "
    "says by a <forward>) of up to 2^31+1 ticks, are scores MusicXML can express; all clauses apply unchanged and all "
    "numbers are compared exactly (Python ints / Fractions, no float tolerance)",
    "lxml parsing/serialisation is trusted; the independent reader pairs ties by pitch and time",
]
CHUNK = 40


def _nontrivial(spec, data):
    if not any(o["k"] in ("note", "grace", "unpitched") for p in M.iter_parts(spec) for o in p["objs"]):
        return False
    return any(t in data for t in (b"<backup>", b"<forward>", b"<chord/>", b"<tie ", b"<grace", b"<direction>",
                                   b"<barline", b"<sound")) or data.count(b"<attributes>") > 1 or data.count(b"<part ") > 1


def _save_via_file(save_musicxml, score, mode):
    import tempfile

    with tempfile.TemporaryDirectory(prefix="c03-") as d:
        path = os.path.join(d, "s.musicxml")
        if mode == "path":
            r = save_musicxml(score, path)
        else:
            with open(path, "wb") as f:
                r = save_musicxml(score, f)
        if r is not None:
            raise AssertionError("save_musicxml(score, out) returned %r instead of None" % type(r).__name__)
        with open(path, "rb") as f:
            return f.read()


def _load_via_path(load_musicxml, data):
    import tempfile

    with tempfile.TemporaryDirectory(prefix="c03-") as d:
        path = os.path.join(d, "l.musicxml")
        with open(path, "wb") as f:
            f.write(data)
        return load_musicxml(path)


def eval_case(case):
    if "seq" in case:
        # several scores handled one after the other in this process; each one is checked on its own, so anything
        # that an earlier file leaves behind in the library shows up as a violation on a later one
        res = CaseResult(states=len(case["seq"]), transitions=0, traces=len(case["seq"]))
        outs = []
        nontrivial = True
        for i, sub in enumerate(case["seq"]):
            n0 = len(res.violations)
            _eval_one(sub, res)
            for v in res.violations[n0:]:
                v["detail"] = ("score %d of the sequence; " % (i + 1)) + (v.get("detail") or "")
            outs.append(res.outcome or "")
            nontrivial = nontrivial and bool(res.nontrivial)
        res.nontrivial = nontrivial
        res.outcome = "seq: " + " | ".join(outs)
        return res
    res = CaseResult(states=1, transitions=0, traces=1)
    return _eval_one(case, res)


def _eval_one(case, res):
    from partitura.io.exportmusicxml import save_musicxml
    from partitura.io.importmusicxml import load_musicxml
    from mc import c03_proj as P
    from mc import c03_reader as R

    nviol0 = len(res.violations)
    spec = G.expand(case)
    score = M.build_score(spec)
    parts = M.iter_parts(spec)

    res.transitions += 1
    mode = case.get("io")
    if mode is None:
        ok, data = guarded(res, "export-total", save_musicxml, score)
    else:
        ok, data = guarded(res, "export-total", _save_via_file, save_musicxml, score, mode)
    if not ok:
        res.outcome = "export-exception"
        return res
    if not isinstance(data, bytes):
        res.fail("export-total", expected="bytes", observed=type(data).__name__, where="save_musicxml")
        return res
    res.nontrivial = _nontrivial(spec, data)

    # (2) independent reading of the file == sounding notes of the score
    try:
        snd, ext = R.read_sounding(data)
    except Exception as ex:  # the file is not even well-formed / interpretable
        res.fail("file-denotes-sounding-notes", kind="mismatch", where="save_musicxml",
                 expected="an interpretable MusicXML file", observed="%s: %s" % (type(ex).__name__, ex))
        snd = None
    if snd is not None:
        for p in parts:
            exp = M.sounding(p)
            got = snd.get(p["id"])
            if got != exp:
                sa = set(map(repr, exp))
                sb = set(map(repr, got or []))
                res.fail("file-denotes-sounding-notes",
                         expected=[x for x in exp if repr(x) not in sb][:4] or exp[:6],
                         observed=[x for x in (got or []) if repr(x) not in sa][:4] or (got or [])[:6],
                         where="save_musicxml", detail="part %s (onset_q, dur_q, pitch), ties merged" % p["id"])
                break

    # (1) load(save(s)) == s on the listed attributes
    res.transitions += 1
    if mode == "path":
        ok, score2 = guarded(res, "import-total", _load_via_path, load_musicxml, data)
    else:
        ok, score2 = guarded(res, "import-total", load_musicxml, io.BytesIO(data))
    if not ok:
        res.outcome = "import-exception"
        return res
    pa = P.proj_score(score)
    pb = P.proj_score(score2)
    moved = {i: M.moved_ids(p) for i, p in enumerate(parts)}
    diffs = P.compare(pa, pb, moved)
    for clause, exp, obs in diffs:
        res.fail("roundtrip-" + clause, expected=exp, observed=obs, where="load_musicxml(save_musicxml(score))")

    # (3) byte fixpoint
    res.transitions += 1
    ok, data2 = guarded(res, "reexport-total", save_musicxml, score2)
    if ok and data2 != data:
        a = data.decode("utf8", "replace").splitlines()
        b = data2.decode("utf8", "replace").splitlines()
        i = 0
        while i < min(len(a), len(b)) and a[i] == b[i]:
            i += 1
        res.fail("byte-fixpoint", expected=[x.strip() for x in a[max(0, i - 2):i + 4]], observed=[x.strip() for x in b[max(0, i - 2):i + 4]],
                 where="save_musicxml(load_musicxml(file))", detail="first differing line %d" % (i + 1))
    nmoved = sum(len(v) for v in moved.values())
    own = res.violations[nviol0:]
    res.outcome = "ok moved=%d bk=%d fw=%d ch=%d" % (min(nmoved, 3), min(data.count(b"<backup>"), 3), min(data.count(b"<forward>"), 3),
                                                    min(data.count(b"<chord/>"), 2)) + \
        ((" words=%d" % min(data.count(b"<words>"), 3)) if b"<words>" in data else "") if not own else \
        "viol:" + ",".join(sorted(set(v["clause"] for v in own)))
    return res


def spaces(tier, seed):
    one = [[(0, 4)]]
    two = [[(0, 2), (2, 6)], [(0, 4), (4, 7)]]
    sp = []
    if tier == "quick":
        sp.append(Space("A1-core-1measure-le2", lambda: G.gen_A(one, 2), True,
                        "one 2/4 measure (4 units of an eighth), all sets of <=2 events: span x voice{1,2} x staff{1,2} x {note,rest}"))
        B = 8
        sp.append(Space("A1-core-1measure-3-block", G.stride(lambda: G.gen_A(one, 3, nmin=3), B, seed % B), True,
                        "block %d of %d (index stride) of all sets of 3 events of the same alphabet" % (seed % B, B)))
    else:
        sp.append(Space("A1-core-1measure-le3", lambda: G.gen_A(one, 3), True,
                        "one 2/4 measure, all sets of <=3 events: span x voice{1,2} x staff{1,2} x {note,rest}"))
    B = 8
    r = seed % B
    q = tier == "quick"

    def blk(gen):
        return G.stride(gen, B, r) if q else gen

    def bname(n):
        return n + ("-block" if q else "")
    btxt = ("block %d of %d (index stride) of: " % (r, B)) if q else ""
    sp.append(Space("A2-core-2measures-le2", lambda: G.gen_A(two, 2, staff_is_voice=True, name="A2"), True,
                    "pickup+full and full+irregular 2/4 layouts, all sets of <=2 events: span x voice{1,2} (staff=voice) x {note,rest}"))
    sp.append(Space(bname("A2-core-2measures-3"), blk(lambda: G.gen_A(two, 3, staff_is_voice=True, nmin=3, name="A2")), True,
                    btxt + "same layouts, all sets of 3 events"))
    sp.append(Space("A3-unpitched", lambda: G.gen_A_kinds(("n", "u")), True,
                    "one 2/4 measure, all sets of <=2 events: span x voice{1,2} x {note, unpitched}"))
    sp.append(Space("A4-estimated-symbolic-duration", lambda: G.gen_A_kinds(("n", "r"), nosym=True, name="A-nosym"), True,
                    "as A1 with <=2 events but no explicit symbolic duration (estimated by the library)"))
    sp.append(Space("B1-ties", lambda: G.gen_B_ties(False), True,
                    "three 1/4 measures; chains of 2-3 contiguous equal-pitch notes (durations 1-2 units, each inside a measure), "
                    "voices {1,2}^k, every non-empty subset of tie links"))
    sp.append(Space(bname("B1-ties-extra"), blk(lambda: G.gen_B_ties(True)), True,
                    btxt + "B1 plus one more event anywhere (other pitch / same pitch untied / rest, voice 1-2)"))
    sp.append(Space("B2-chord-ties", G.gen_B_chordties, True, "two simultaneous chains over a barline, equal and unequal chord members, second chain in voice 1 or 2"))
    b5 = ("ties between differently spelled notes of one sounding pitch (a tie joins notes of one sounding pitch: G#4 tied to "
          "Ab4 where the key changes, B#3 tied to C4): three 1/4 measures (grid of eighths); chains of contiguous notes "
          "(durations 1-2 units, each inside a measure) of one sounding pitch, voices {1,2}^k, every non-empty subset of tie "
          "links (as B1) x every assignment of the spellings {G#4, Ab4} / {B#3, C4, Dbb4} to the notes of the chain (one "
          "spelling throughout = the class of B1, kept as control); ")
    sp.append(Space("B5-enharmonic-ties-2", lambda: G.gen_B_enharmonic(2, True), True,
                    b5 + "chains of 2 notes; alone / as a chord tied to a chord with a second chain of the same spans, voices "
                    "and links a semitone lower (G4, B3) / higher (A4, Db4) that shares its letter with one of the spellings"))
    B5 = 16
    if q:
        sp.append(Space("B5-enharmonic-ties-3-block", G.stride(lambda: G.gen_B_enharmonic(3, False), B5, seed % B5), True,
                        "block %d of %d (index stride) of: " % (seed % B5, B5) + b5 + "chains of 3 notes, alone"))
    else:
        sp.append(Space("B5-enharmonic-ties-3", lambda: G.gen_B_enharmonic(3, True), True,
                        b5 + "chains of 3 notes; alone / with the second chain of B5-enharmonic-ties-2"))
    sp.append(Space("B3-grace", lambda: G.gen_B_grace(False), True,
                    "cores of 1-2 notes (span x voice{1,2}), grace run of length 1-2, plain or slashed, before either note"))
    sp.append(Space(bname("B3-grace-double"), blk(lambda: G.gen_B_grace(True)), True, btxt + "cores of 2 notes, a grace run before both"))
    b4 = ("two 1/4 measures (grid of eighths); main note m on every span of 1-2 units inside a measure x voice{1,2}; grace run "
          "g0[,g1] of length 1-2 before it, plain or slashed; optional note p of m's pitch ending where m starts (every span "
          "of 1-2 units inside a measure - also across the barline - x voice{1,2}); optional one-unit note f after m tied "
          "m->f; tie links = every non-empty contiguous run of links of p->g0[->g1]->m (each link has a grace note at one "
          "end; tied grace notes have the pitch of the chain, untied ones another pitch; runs with a gap = two ties of one "
          "pitch meeting at one instant are outside the statement's distinct-pitch premise)")
    b4x = ("; the cases in which a grace note is tied on both sides and its predecessor p is written after it in the file "
           "(p in voice 2 of the measure of m, m in voice 1) ")
    sp.append(Space("B4-grace-ties", lambda: G.gen_B_graceties(False, False), True,
                    b4 + b4x + "form the sub-space B4-grace-ties-predecessor-written-later"))
    sp.append(Space(bname("B4-grace-ties-chord"), blk(lambda: G.gen_B_graceties(True, False)), True,
                    btxt + b4 + "; m is the upper member of a two-note chord (second note untied)" + b4x +
                    "form the sub-space B4-grace-ties-predecessor-written-later"))
    sp.append(Space("B4-grace-ties-predecessor-written-later",
                    lambda: (c for ch in (False, True) for c in G.gen_B_graceties(ch, True)), True,
                    b4 + "; with and without the chord partner of m" + b4x + "only (the tie stop of the grace note is read before "
                    "the tie start of p; fires until proposed_fixes/C03-s-grace-tie-own-stop.diff is applied)"))
    L1 = ([(0, 4)], [[0, 2, 4]])
    L2 = ([(0, 2), (2, 4)], [[0, 1, 4]])
    sp.append(Space("C1-decoration-1note", lambda: (c for L in (L1, L2) for c in G.gen_C_single(L, 1, 1)), True,
                    "every single decoration instance (articulations, fingering, stem, note fermata, slur, dynamics p/sfz, words, "
                    "tempo word, tempo mark, wedge +/-, words with dashes, barline fermata) at every note / grid time / time interval of "
                    "every 1-note core (span x voice{1,2}) of one 2/4 measure and of two 1/4 measures"))
    sp.append(Space(bname("C1-decoration-2notes"), blk(lambda: (c for L in (L1, L2) for c in G.gen_C_single(L, 2, 2))), True,
                    btxt + "the same over every 2-note core"))
    sp.append(Space(bname("C2-decoration-pairs"), blk(G.gen_C_pairs), True, btxt + "all pairs of decoration instances on three fixed cores"))
    sp.append(Space("C3-tuplets", lambda: G.gen_C_tuplets(False), True, "six triplet eighths (divisions 3): every bracket and every pair of brackets"))
    sp.append(Space(bname("C3-tuplets-2voices"), blk(lambda: G.gen_C_tuplets(True)), True, btxt + "C3 with two quarters in voice 2"))
    sp.append(Space(bname("C4-slur-pairs"), blk(G.gen_C_slurpairs), True, btxt + "all pairs and triples of slurs over five notes in two voices"))
    h0 = ("build order = for every onset whether the notes starting there are added to the part top voice first or bottom "
          "voice first (all a part keeps of the order in which it was built); ")
    sp.append(Space(bname("H1-voice-build-order-slurs"), blk(lambda: G.gen_H_slurs(False)), True,
                    btxt + h0 + "two 1/4 measures (grid of eighths), voices 1 and 2 on one staff with a one-unit note at each of the "
                    "4 onsets; slurs = every pair of different notes i, j with i written before j (inside a voice, between the "
                    "voices, inside a measure, over the barline: 28); every single slur and every pair of slurs (pairs sharing a "
                    "note in both attachment orders) x all 2^4 build orders; plus the cores without the note of voice 1 at onset "
                    "0 / 2 / 0 and 2 (voice 1 enters after voice 2 in the measure) x build order {all top first, all bottom first}"))
    sp.append(Space(bname("H1-voice-build-order-slur-triples"), blk(lambda: G.gen_H_slurs(True)), True,
                    btxt + h0 + "the full 8-note core of H1, every set of three of the 28 slurs, all notes added bottom voice first"))
    sp.append(Space(bname("H2-voice-build-order-tuplets"), blk(G.gen_H_tuplets), True,
                    btxt + h0 + "two 1/4 measures, divisions 3, voices 1 and 2 (staff = voice) with six triplet eighths each; tuplet "
                    "brackets inside a voice from note i to note i+1..i+3 (inside a measure and over the barline: 24); every single "
                    "bracket and every pair (pairs sharing a note in both attachment orders) x build order {all top first, all bottom "
                    "first, bottom first in measure 1 only, bottom first in measure 2 only}"))
    c5 = ("two 1/4 measures, grid times 0..3; at every grid time any subset of the three constant-direction families "
          "{loudness (p, dolce, f), tempo (adagio, allegro), articulation (legato, staccato)} gets a new direction (all 8^4-1 "
          "assignments: every family changes alone / together with one / with both others, at first and later occurrences; "
          "each direction must end where the next of its own family starts, else at the end of the part); ")
    sp.append(Space("C5-constant-direction-sequences", lambda: G.gen_C_cdirs(False), True,
                    c5 + "core with an onset at every grid time; simultaneous directions attached in family order l,t,a and a,t,l"))
    c6 = ("two 1/4 measures with an onset at every grid time 0..3; direction tokens = {dolce, adagio, legato, cresc., rit.} "
          "x printed in {lower case, Capitalised, UPPER CASE} (Direction.raw_text, canonical text dolce / adagio / legato / "
          "crescendo / ritardando); ")
    sp.append(Space("C6-direction-words-letter-case", G.gen_C_wordcase, True,
                    c6 + "every token at every grid time; every ordered pair of tokens at grid times t1 < t2 (the same words in the "
                    "same and in another letter case included); every ordered pair of tokens of different kinds at one grid time"))
    sp.append(Space("C6-direction-words-two-files", G.gen_C_wordcase_sequences, True,
                    c6 + "two scores saved, loaded and re-saved one after the other in one process: A = one token at grid time 0, "
                    "then B = one token at any grid time, every (A, B); every clause on each score separately"))
    if q:
        sp.append(Space("C5-constant-direction-sequences-orders-block", G.stride(lambda: G.gen_C_cdirs(True), 16, seed % 16), True,
                        "block %d of 16 (index stride) of: " % (seed % 16) + c5 + "the other four family orders on that core and all six "
                        "orders on a core with grid times inside a note and at an empty barline (orders that do not change the case omitted)"))
    else:
        sp.append(Space("C5-constant-direction-sequences-orders", lambda: G.gen_C_cdirs(True), True,
                        c5 + "the other four family orders on that core and all six orders on a core with grid times inside a note "
                        "and at an empty barline (orders that do not change the case omitted)"))
    sp.append(Space(bname("D1-divisions-change"), blk(G.gen_D_divisions), True,
                    btxt + "divisions change q0->q1 (all ordered pairs from 1..4) in the middle of a 2/4 measure or at the barline of two 1/4 "
                    "measures; all cores of <=2 events not crossing the change"))
    d4 = ("two 2/4 measures = four quarters, every assignment of a divisions value to the four quarters with a change in the "
          "middle of at least one measure (the table changes at any subset of {middle of measure 1, barline, middle of "
          "measure 2}: a later measure with a single entry in its middle and none at its start, an entry at its start and "
          "one in its middle, ...), every mid-measure change on a time point (else: class of X1); ")
    d4dense = "cores = every non-empty occupancy of the 8 places (voice{1,2}, quarter) by a note filling the quarter"
    d4pairs = ("cores = all sets of <=2 events: span with a single symbol inside a quarter x {note voice 1, note voice 2, "
               "rest voice 1}")
    if q:
        sp.append(Space("D4-divisions-changes-2measures-dense", lambda: G.gen_D_divisions_measures((1, 2), True), True,
                        d4 + "divisions values {1,2} (12 assignments); " + d4dense))
        sp.append(Space("D4-divisions-changes-2measures-pairs-block",
                        G.stride(lambda: G.gen_D_divisions_measures((1, 2, 3), False), 16, seed % 16), True,
                        "block %d of 16 (index stride) of: " % (seed % 16) + d4 + "divisions values {1,2,3} (72 assignments); " + d4pairs))
    else:
        sp.append(Space("D4-divisions-changes-2measures-dense", lambda: G.gen_D_divisions_measures((1, 2, 3), True), True,
                        d4 + "divisions values {1,2,3} (72 assignments); " + d4dense))
        sp.append(Space("D4-divisions-changes-2measures-pairs", lambda: G.gen_D_divisions_measures((1, 2, 3), False), True,
                        d4 + "divisions values {1,2,3} (72 assignments); " + d4pairs))
    d3 = ("declaration history of the divisions table = Part(quarter_duration=init) and calls set_quarter_duration(t, q) "
          "made at a cut of the construction (before any object / after page, system, measures and time signature / after "
          "all notes), t in the times of the final table, init and q in its values plus one value it does not use; every "
          "init and every sequence of <=3 calls that each change the table and end in the final table (declared late, "
          "later change first, a value re-set at the same or an earlier time after a later one was declared); sequences of "
          "<=2 calls at every non-decreasing assignment of cuts, 3 calls together after the structure / after the notes; ")
    B3 = 16
    if q:
        sp.append(Space("D3-divisions-declaration-order-block", G.stride(G.gen_D_declaration_order, B3, seed % B3), True,
                        "block %d of %d (index stride) of: " % (seed % B3, B3) + d3 + "divisions q0->q1 in (1,2),(2,1),(2,3),(3,2) "
                        "after the first quarter of a 2/4 measure or at the barline of two 1/4 measures; all cores of <=2 notes "
                        "(span with a single symbol inside a divisions segment x voice{1,2}) with a time point at the change; "
                        "symbolic durations explicit / estimated by the library; 67 histories per core"))
        sp.append(Space("D3-divisions-declaration-order-3segments-block", G.stride(G.gen_D_declaration_order_3, B, r), True,
                        btxt + d3 + "three 1/4 measures with divisions (1,2,1),(2,1,2),(1,2,3),(3,2,1) (a call in the middle has "
                        "an earlier and a later entry); all cores of <=2 notes of voice 1; explicit / estimated symbolic durations"))
    else:
        sp.append(Space("D3-divisions-declaration-order", G.gen_D_declaration_order, True,
                        d3 + "divisions q0->q1 in (1,2),(2,1),(2,3),(3,2) "
                        "after the first quarter of a 2/4 measure or at the barline of two 1/4 measures; all cores of <=2 notes "
                        "(span with a single symbol inside a divisions segment x voice{1,2}) with a time point at the change; "
                        "symbolic durations explicit / estimated by the library; 67 histories per core"))
        sp.append(Space("D3-divisions-declaration-order-3segments", G.gen_D_declaration_order_3, True,
                        d3 + "three 1/4 measures with divisions (1,2,1),(2,1,2),(1,2,3),(3,2,1) (a call in the middle has "
                        "an earlier and a later entry); all cores of <=2 notes of voice 1; explicit / estimated symbolic durations"))
    sp.append(Space(bname("D2-key-time-clef-change"), blk(G.gen_D_attributes), True,
                    btxt + "key/time/clef changes at every grid position of two 2/4 measures, singly and in pairs, three cores"))
    sp.append(Space("E-parts-and-groups", G.gen_E_structure, True, "all forests of <=3 parts with groups nested <=2 deep, two attribute variants"))
    sp.append(Space("F-repeats-endings", G.gen_F_repeats, True, "three 1/4 measures: disjoint repeats x (no ending | one ending | endings 1+2), two cores"))
    n0 = ("number forms: the Python ints of a number family are handed to the construction API as numpy scalars of the same "
          "value (families: voice, staff of notes/clefs/directions, start and end times given to Part.add, octave and alter, "
          "dots and tuplet ratio of symbolic durations and Tuplets, measure number, time signature, key signature fifths, clef "
          "line and octave change, fingering, tempo bpm, ending number, quarter durations and their times, part group number; "
          "types numpy.int64 and numpy.int32); ")
    n1 = (n0 + "one 2/4 measure (4 units of an eighth), all sets of <=2 events: span x (voice, staff) in {(1,1),(2,1),(2,2),(3,2)} "
          "x {note, rest}; every family that has a value in the score alone and all of them together x both types")
    if q:
        sp.append(Space("N1-number-forms-core-block", G.stride(G.gen_N_cores, 16, seed % 16), True,
                        "block %d of 16 (index stride) of: " % (seed % 16) + n1))
    else:
        sp.append(Space("N1-number-forms-core", G.gen_N_cores, True, n1))
    sp.append(Space("N2-number-forms-features", G.gen_N_features, True,
                    n0 + "five fixed cores (two staves with voices 1-3, unequal chord, grace note, fingering, tempo mark, staff-2 "
                    "dynamics, key and clef change / triplets with two brackets against a second voice / divisions change at a "
                    "barline with a tie over it, repeat and ending / pickup measure with voices 2 and 4 only, dotted and unpitched "
                    "note, flat key, octave clef, wedge, fermata / three parts in nested numbered groups); every family that has a "
                    "value in the score alone, every pair of families and all of them together x both types"))
    sp.append(Space("G-file-io", G.gen_G_fileio, True, "a sample of E and C2 scores written to a path / a binary file object and loaded from a path"))
    m0 = ("magnitude of the numbers of ticks [factor, offset]: every time and every divisions value of the score is "
          "multiplied by factor in {1, 480, 10080, 302400, 2^24+1, 2^31+1} (the same music on a finer tick grid: divisions "
          "up to 3*(2^31+1) per quarter, single durations, backups and forwards up to 4*(2^31+1) ticks), then an empty "
          "irregular measure of offset in {0, 2^24+1, 2^31+1} ticks is put before the music (every onset of the music and "
          "every running position of the reader that far from 0); all 17 magnitudes but [1, 0]; ")
    for mname, fam, MB, mtxt in (
        ("M1-magnitude-core", G.fam_M_cores, 32,
         "one 2/4 measure (4 units of an eighth), all sets of <=2 events: span x voice{1,2} (staff=voice) x {note, rest}, "
         "symbolic durations explicit / estimated by the library"),
        ("M2-magnitude-divisions-change", G.fam_M_divisions, 32,
         "divisions change q0->q1 (times the factor) in (1,2),(2,1) in the middle of a 2/4 measure and at the barline of "
         "two 1/4 measures, in (2,3),(3,2) in the middle of a 2/4 measure; all cores of <=2 events not crossing the "
         "change (family of D1)"),
        ("M3-magnitude-ties", G.fam_M_ties, 8,
         "three 1/4 measures; chains of 2-3 contiguous equal-pitch notes, voices {1,2}^k, every non-empty subset of tie "
         "links (family of B1)"),
        ("M4-magnitude-decorations", G.fam_M_decorations, 32,
         "every single timeline decoration (note fermata, dynamics p/f/sfz, tempo word, tempo mark, words with and "
         "without dashes, wedge +/-, barline fermata) at every grid time / time interval of every 1-note core (span x "
         "voice{1,2}) of one 2/4 measure and of two 1/4 measures (family of C1)"),
        ("M5-magnitude-features", G.fam_M_features, 16,
         "the five feature cores of N2, every single triplet bracket of C3, all chord ties of B2, all part/group "
         "forests of E (parts with different divisions), every single key / time / clef change of D2, all repeats and "
         "endings of F"),
    ):
        gen = G.gen_M(fam, mname.split("-")[0])
        if q:
            sp.append(Space(mname + "-block", G.stride(gen, MB, seed % MB), True,
                            "block %d of %d (index stride, magnitude = outer loop) of: " % (seed % MB, MB) + m0 + mtxt))
        else:
            sp.append(Space(mname, gen, True, m0 + mtxt))
    if not q:
        sp.append(Space("A1-core-1measure-4", lambda: G.gen_A(one, 4, staff_is_voice=True, nmin=4), True,
                        "one 2/4 measure, all sets of 4 events: span x voice{1,2} (staff=voice) x {note,rest}"))
    else:
        sp.append(Space("A1-core-1measure-4-block", G.stride(lambda: G.gen_A(one, 4, staff_is_voice=True, nmin=4), 32, seed % 32), True,
                        "block %d of 32 (index stride) of all sets of 4 events: span x voice{1,2} (staff=voice) x {note,rest}" % (seed % 32)))
    # inputs of the proposed known findings: explored only once known_findings.json carries the open entry
    # (until then they would be reported as violations of a defect that is already documented in C03-NOTES.md)
    from mc.core import load_known_findings

    known = {e.get("trigger") for e in load_known_findings(PID)}
    if "divisions_change_without_time_point" in known:
        sp.append(Space(bname("X1-divisions-change-without-time-point"), blk(lambda: G.gen_D_divisions(True)), True,
                        btxt + "D1 cases in which nothing starts or ends at the time of the divisions change"))
    if "right_barline_fermata_before_next_measure" in known:
        sp.append(Space("X2-right-barline-fermata-inner", G.gen_X_right_fermata, True,
                        "fermata on the right barline of a measure that is followed by another measure"))
    if True:  # (was a proposed finding; repaired in /repo, so the space always runs)
        sp.append(Space(bname("X4-redundant-divisions-entry"), blk(G.gen_X_redundant_divisions), True,
                        btxt + "a divisions table with an entry that repeats the value before it (left behind when set_quarter_duration "
                        "replaces a value): uniform divisions 1-3 over a 2/4 measure / two 1/4 measures, and three 1/4 measures with "
                        "divisions (1,2,2),(2,2,1),(2,1,1),(1,1,2); cores of <=2 notes of voice 1; every declaration history (as D3) "
                        "that ends in that table"))
    if "plain_words_object" in known:
        sp.append(Space("X3-words-objects", G.gen_X_words, True, "a score.Words object at every grid time of every 1-note core"))
    return sp


def _any_score(pred):
    return lambda case, v: any(pred(c) for c in case.get("seq", [case]))


TRIGGERS = {
    "divisions_change_without_time_point": _any_score(G.has_divisions_change_without_point),
    "right_barline_fermata_before_next_measure": _any_score(G.has_inner_right_fermata),
    "plain_words_object": _any_score(G.has_words_object),
    "redundant_divisions_entry": _any_score(G.has_redundant_divisions_entry),
}

if __name__ == "__main__":
    import checks.c03 as _m

    run_check(_m)
