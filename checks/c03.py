"""C03 - MusicXML export then import returns the same score; an independent reader of the written
file finds exactly the sounding notes; re-export of the re-imported score is a byte fixpoint.

Bounded-exhaustive enumeration of small scores (DESIGN section 4, C03) split into named sub-spaces;
each case is a compact description that mc/c03_gen.expand turns into a score spec (mc/ir.py), the
real Score is built through the public API, written with save_musicxml, read back with
load_musicxml, and compared on exactly the attributes listed in the statement (mc/c03_proj.py).
Reference values (notes that MusicXML cannot keep in their voice, sounding notes, measure extents)
come from the spec alone (mc/c03_model.py); the file is also read by mc/c03_reader.py.
"""
import io

from mc.core import CaseResult, Space, run_check, guarded
from mc import c03_gen as G
from mc import c03_model as M

PID = "C03"
RULE = (
    "every case is a distinct compact score description enumerated by the named sub-space generators; "
    "non-trivial = the score has at least one note and the written file contains a backup, forward, chord, "
    "tie, grace, mid-measure attributes, direction, barline or a second part"
)
ASSUMPTIONS = [
    "generated scores follow the importer's conventions: Page 1 and System 1 from the first to the last point, "
    "first point at t=0, explicit voices and staves, measure name == str(number), unique note ids, constant "
    "directions end at the next direction of the same family (score.set_end_times), tempo in integral quarters",
    "notes, rests and graces do not cross barlines or divisions changes; concurrently tied notes have distinct pitches",
    "voice re-assignment reading: notes that are longer than the shortest note of their voice at the same onset, or "
    "that sound past the next onset of their voice (per measure segment), may change voice to one that is unused "
    "during their span; every other note keeps its voice",
    "symbolic durations are compared through the public property GenericNote.symbolic_duration (a missing "
    "explicit value and the estimated value are the same thing); alter None == 0; direction staff None == 1; "
    "Direction.raw_text, doc_order, Page/System and end times of signatures/clefs are not compared",
    "grace_type is compared for 'grace' and 'acciaccatura' (slash), grace chains through grace_prev/grace_next ids",
    "lxml parsing/serialisation is trusted",
]
CHUNK = 40


def _nontrivial(spec, data):
    if not any(o["k"] in ("note", "grace", "unpitched") for p in M.iter_parts(spec) for o in p["objs"]):
        return False
    return any(t in data for t in (b"<backup>", b"<forward>", b"<chord/>", b"<tie ", b"<grace", b"<direction>",
                                   b"<barline", b"<sound")) or data.count(b"<attributes>") > 1 or data.count(b"<part ") > 1


def eval_case(case):
    from partitura.io.exportmusicxml import save_musicxml
    from partitura.io.importmusicxml import load_musicxml
    from mc import ir
    from mc import c03_proj as P
    from mc import c03_reader as R

    res = CaseResult(states=1, transitions=0, traces=1)
    spec = G.expand(case)
    score = ir.build_score(spec)
    parts = M.iter_parts(spec)

    res.transitions += 1
    ok, data = guarded(res, "export-total", save_musicxml, score)
    if not ok:
        res.outcome = "export-exception"
        return res
    if not isinstance(data, bytes):
        res.fail("export-total", expected="bytes", observed=type(data).__name__, where="save_musicxml")
        return res
    res.nontrivial = _nontrivial(spec, data)

    # (2) independent reading of the file == sounding notes of the score
    try:
        snd, ext = R.read_sounding(data)
    except Exception as ex:  # the file is not even well-formed / interpretable
        res.fail("file-denotes-sounding-notes", kind="mismatch", where="save_musicxml",
                 expected="an interpretable MusicXML file", observed="%s: %s" % (type(ex).__name__, ex))
        snd = None
    if snd is not None:
        for p in parts:
            exp = M.sounding(p)
            got = snd.get(p["id"])
            if got != exp:
                sa = set(map(repr, exp))
                sb = set(map(repr, got or []))
                res.fail("file-denotes-sounding-notes",
                         expected=[x for x in exp if repr(x) not in sb][:4] or exp[:6],
                         observed=[x for x in (got or []) if repr(x) not in sa][:4] or (got or [])[:6],
                         where="save_musicxml", detail="part %s (onset_q, dur_q, pitch), ties merged" % p["id"])
                break

    # (1) load(save(s)) == s on the listed attributes
    res.transitions += 1
    ok, score2 = guarded(res, "import-total", load_musicxml, io.BytesIO(data))
    if not ok:
        res.outcome = "import-exception"
        return res
    pa = P.proj_score(score)
    pb = P.proj_score(score2)
    moved = {i: M.moved_ids(p) for i, p in enumerate(parts)}
    diffs = P.compare(pa, pb, moved)
    for clause, exp, obs in diffs:
        res.fail("roundtrip-" + clause, expected=exp, observed=obs, where="load_musicxml(save_musicxml(score))")

    # (3) byte fixpoint
    res.transitions += 1
    ok, data2 = guarded(res, "reexport-total", save_musicxml, score2)
    if ok and data2 != data:
        a = data.decode("utf8", "replace").splitlines()
        b = data2.decode("utf8", "replace").splitlines()
        i = 0
        while i < min(len(a), len(b)) and a[i] == b[i]:
            i += 1
        res.fail("byte-fixpoint", expected=[x.strip() for x in a[max(0, i - 2):i + 4]], observed=[x.strip() for x in b[max(0, i - 2):i + 4]],
                 where="save_musicxml(load_musicxml(file))", detail="first differing line %d" % (i + 1))
    nmoved = sum(len(v) for v in moved.values())
    res.outcome = "ok moved=%d bk=%d fw=%d ch=%d" % (min(nmoved, 3), min(data.count(b"<backup>"), 3), min(data.count(b"<forward>"), 3),
                                                    min(data.count(b"<chord/>"), 2)) if not res.violations else \
        "viol:" + ",".join(sorted(set(v["clause"] for v in res.violations)))
    return res


def spaces(tier, seed):
    one = [[(0, 4)]]
    two = [[(0, 2), (2, 6)], [(0, 4), (4, 7)]]
    sp = []
    if tier == "quick":
        sp.append(Space("A1-core-1measure-le2", lambda: G.gen_A(one, 2), True,
                        "one 2/4 measure (4 units of an eighth), all sets of <=2 events: span x voice{1,2} x staff{1,2} x {note,rest}"))
        B = 8
        sp.append(Space("A1-core-1measure-3-block", G.stride(lambda: G.gen_A(one, 3, nmin=3), B, seed % B), True,
                        "block %d of %d (index stride) of all sets of 3 events of the same alphabet" % (seed % B, B)))
    else:
        sp.append(Space("A1-core-1measure-le3", lambda: G.gen_A(one, 3), True,
                        "one 2/4 measure, all sets of <=3 events: span x voice{1,2} x staff{1,2} x {note,rest}"))
    B = 8
    r = seed % B
    q = tier == "quick"

    def blk(gen):
        return G.stride(gen, B, r) if q else gen

    def bname(n):
        return n + ("-block" if q else "")
    btxt = ("block %d of %d (index stride) of: " % (r, B)) if q else ""
    sp.append(Space("A2-core-2measures-le2", lambda: G.gen_A(two, 2, staff_is_voice=True, name="A2"), True,
                    "pickup+full and full+irregular 2/4 layouts, all sets of <=2 events: span x voice{1,2} (staff=voice) x {note,rest}"))
    sp.append(Space(bname("A2-core-2measures-3"), blk(lambda: G.gen_A(two, 3, staff_is_voice=True, nmin=3, name="A2")), True,
                    btxt + "same layouts, all sets of 3 events"))
    sp.append(Space("A3-unpitched", lambda: G.gen_A_kinds(("n", "u")), True,
                    "one 2/4 measure, all sets of <=2 events: span x voice{1,2} x {note, unpitched}"))
    sp.append(Space("A4-estimated-symbolic-duration", lambda: G.gen_A_kinds(("n", "r"), nosym=True, name="A-nosym"), True,
                    "as A1 with <=2 events but no explicit symbolic duration (estimated by the library)"))
    sp.append(Space("B1-ties", lambda: G.gen_B_ties(False), True,
                    "three 1/4 measures; chains of 2-3 contiguous equal-pitch notes (durations 1-2 units, each inside a measure), "
                    "voices {1,2}^k, every non-empty subset of tie links"))
    sp.append(Space(bname("B1-ties-extra"), blk(lambda: G.gen_B_ties(True)), True,
                    btxt + "B1 plus one more event anywhere (other pitch / same pitch untied / rest, voice 1-2)"))
    sp.append(Space("B2-chord-ties", G.gen_B_chordties, True, "two simultaneous chains over a barline, equal and unequal chord members, second chain in voice 1 or 2"))
    sp.append(Space("B3-grace", lambda: G.gen_B_grace(False), True,
                    "cores of 1-2 notes (span x voice{1,2}), grace run of length 1-2, plain or slashed, before either note"))
    sp.append(Space(bname("B3-grace-double"), blk(lambda: G.gen_B_grace(True)), True, btxt + "cores of 2 notes, a grace run before both"))
    return sp


TRIGGERS = {}

if __name__ == "__main__":
    import checks.c03 as _m

    run_check(_m)
