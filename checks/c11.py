"""C11 - adding measures and tying notes normalise notation without changing what sounds.

Bounded-exhaustive check of `add_measures`, `tie_notes`, `find_tuplets`, `fill_rests`,
`sanitize_part` (partitura/score.py) and of `estimate_symbolic_duration`,
`symbolic_to_numeric_duration`, `format_symbolic_duration`, `find_tie_split`
(partitura/utils/music.py) against a reference model written from the property statement
(mc/c11_model.py, exact Fractions).  Clauses:

  measures-tile            after add_measures the measures are exactly the pre-existing ones plus, in
                           every stretch not inside a measure, bars of the length of the signature in
                           force, cut only by a signature change, an existing measure or the part end
                           (reported as measures-overlap when the measures found overlap each other)
  existing-measures-untouched   the pre-existing Measure objects keep their start and end
  measures-numbered        all measures are numbered 1..n in time order
  note-array-unchanged     the note array (every column, plus staff) before and after tie_notes /
                           find_tuplets / fill_rests / sanitize_part is identical, and its
                           (onset_div, duration_div, pitch, voice, id, staff) rows are those of the case
  note-within-measure      after tie_notes every pitched note lies within one measure
  tie-chain                every tie link (tie_next and tie_prev) joins two registered notes that are
                           contiguous and agree in pitch, voice and staff
  symbolic-duration        every symbolic duration stored on a note or rest, and every one the
                           `symbolic_duration` property reports, evaluates to the numeric duration
                           under the divisions in force at its start
  estimate-roundtrip       estimate_symbolic_duration(d, q) is {} / a tuple of parts (no single notated
                           value) or a value that converts back to d; a plain or dotted value is found
  split-pieces             find_tie_split returns None or <= max_splits+1 contiguous pieces from start
                           to end whose symbolic durations evaluate to their lengths

The spaces untied-* run find_tuplets on parts whose notes tie_notes has not split yet (find_tuplets alone
on the bare part, or between add_measures and tie_notes), over every unit duration up to five quarters:
untyped notes that have no single notated value (two to four tied values, longer than a bar) are then
still present when tuplets are searched; the same clauses apply after every operation.

The spaces long-notes* are the magnitude dimension of the one-note family: one note held over 25 to 300 bars
(2600 once the proposed fix C11-s-long-tie-chain is in), so that tie_notes builds tie chains of dozens to
thousands of pieces, at 1 to 960 divisions per quarter; the same clauses apply after every operation.

Edit cases (spaces edit-requery*) run a first pass, then move one untyped note or change the divisions
through the public API, then run a second pass with the same clauses evaluated against the edited
part (symbolic durations that the edit itself invalidates - values stored by the first pass on objects
whose divisions the user changed afterwards - are not compared).

Result-edit cases (spaces result-edit*) take a symbolic duration the library hands out (from
estimate_symbolic_duration with and without composite durations, from find_tie_split, from the
symbolic_duration of a note or rest before or after the operations), edit that dict in place as a caller
may (the duration tables of partitura/utils/globals.py are module-level state), and then evaluate the
same clauses on everything asked afterwards: the estimator over every duration of the divisions value,
find_tie_split of the same span, the other notes of the part the dict came from, and a fresh part run
through all operations.  The dict is restored after every sequence, so cases do not influence each other.
"""
import itertools
from fractions import Fraction as F

from mc.core import CaseResult, Space, run_check, block_of, guarded, innermost_partitura_frame, exc_text, Hang
from mc import c11_model as M

PID = "C11"
RULE = (
    "a part case is (divisions, time signatures, pre-existing measures, notes, ties/slurs, operation "
    "order), built through Part.add and run through the real functions in the given order with the "
    "oracle evaluated after every operation; an estimator case is a (divisions, duration range) block, "
    "every duration one state; a split case is one (divisions, start) with every duration one state; "
    "non-trivial = a measure was added and a note was split or a rest was added / the estimate is "
    "non-empty / a split was found (untied-* spaces: find_tuplets met an untyped note without a plain or "
    "dotted value); an edit case is a part case plus one edit (a note moved to another "
    "(onset, end), or other divisions) and a second operation sequence, the oracle again evaluated after "
    "every operation, non-trivial = the edit changes the notated value of a note; a result-edit case is (divisions, "
    "layout, one note [s, s+d], source of a symbolic duration, in-place edit): every non-empty dict the source hands out "
    "is edited, all queries are repeated with the same clauses, the dict is put back; non-trivial = a dict was edited"
)
ASSUMPTIONS = [
    "the first time signature stands at the first time point (0); bar lines implied by the signatures fall on divisions",
    "pre-existing measures do not overlap; divisions change only at bar lines of the generated layouts",
    "notes carry integer voice and staff; no grace notes (sanitize_part removes orphan grace notes by design); "
    "pre-existing ties join contiguous notes of equal pitch, voice and staff",
    "numeric durations are compared with twice the estimator's documented tolerance eps=1e-3 quarters (the tuplet "
    "branch applies eps to the ratio normal*S/qdur, i.e. up to qdur*eps/actual <= 2*eps quarters); one division is "
    ">= 2.08e-3 quarters for every divisions value <= 480",
    "an empty symbolic duration ({} or None) and a tuple of parts are 'no single notated value'; which notes get "
    "split, how many pieces, ids of new notes, the voice of filled rests and the fate of slurs are not compared",
    "the symbolic duration of a note that spans a change of divisions is not compared",
    "order of note-array rows with equal onset and pitch is not compared",
    "long-notes*: ids of the notes tie_notes creates are not compared (the statement does not speak of them; only the id "
    "column of the note array, i.e. the ids of the notes that start a chain, is); timeline positions stay below 2**31 "
    "(2600 bars of 4/4 at 480 divisions = 4 992 000)",
    "edit cases: the moved note has, before the edit, a plain or dotted notated value and lies inside one bar, so no "
    "operation stores a symbolic duration on it and the library keeps estimating it from the numeric duration; after a "
    "change of divisions the symbolic durations stored earlier (rests, tied pieces, notes that are not plain or cross a "
    "bar line) are not compared; in the second pass tie_notes only runs after add_measures",
    "result-edit cases: a symbolic duration returned by the library belongs to the caller; editing it in place is not an "
    "input to any later query (the statement quantifies over numeric durations and parts, not over the history of the "
    "process).  When the edited dict is the value stored on a note or rest, that object itself is not compared afterwards "
    "(the caller changed it); every other object and every later result is",
]
CHUNK = 16

OPS = {
    "A": ("add_measures", lambda S, p: S.add_measures(p)),
    "T": ("tie_notes", lambda S, p: S.tie_notes(p)),
    "U": ("find_tuplets", lambda S, p: S.find_tuplets(p)),
    "R": ("fill_rests", lambda S, p: S.fill_rests(p, measurewise=True)),
    "G": ("fill_rests", lambda S, p: S.fill_rests(p, measurewise=False)),
    "S": ("sanitize_part", lambda S, p: S.sanitize_part(p)),
    # query only: the oracle reads symbolic_duration / duration_from_symbolic of every note
    "Q": ("symbolic_duration", lambda S, p: None),
}


# ---------------------------------------------------------------------------------------------
# building the real part


def build(case):
    import partitura.score as S

    dv = case["dv"]
    part = S.Part("P1", quarter_duration=dv[0][1])
    for t, q in dv[1:]:
        part.set_quarter_duration(t, q)
    for t, b, bt in case["ts"]:
        part.add(S.TimeSignature(b, bt), t)
    ms = []
    for i, (s, e) in enumerate(case["ms"]):
        m = S.Measure(number=100 + 7 * i, name="x%d" % i)
        part.add(m, s, e)
        ms.append(m)
    notes = []
    syms = case.get("syms") or {}
    for i, n in enumerate(case["notes"]):
        step, alter, octv, _ = M.pitch_of(n[2])
        sym = syms.get(str(i))
        o = S.Note(step, octv, alter, id="n%d" % i, voice=n[3], staff=n[4],
                   symbolic_duration=dict(sym) if sym else None)
        part.add(o, n[0], n[1])
        notes.append(o)
    for i, j in case.get("ties") or []:
        notes[i].tie_next = notes[j]
        notes[j].tie_prev = notes[i]
    for i, j in case.get("slurs") or []:
        a = notes[i] if i is not None else None
        b = notes[j] if j is not None else None
        sl = S.Slur(a, b)
        s = a.start.t if a is not None else b.start.t
        e = b.end.t if b is not None else a.end.t
        part.add(sl, s, e)
    return part, notes, ms


def full_rows(part):
    na = part.note_array(include_staff=True)
    names = na.dtype.names
    return names, sorted(tuple(r) for r in na.tolist())


def key_rows(names, rows):
    ix = [names.index(c) for c in ("onset_div", "duration_div", "pitch", "voice", "id", "staff")]
    return sorted(tuple(r[i] for i in ix) for r in rows)


# ---------------------------------------------------------------------------------------------
# oracle pieces on the real part


def check_measures(res, case, part, ms, where):
    exp = M.ref_tiling(case)
    got = [(m.start.t, m.end.t, m) for m in part.measures]
    got_ext = sorted((int(s), int(e)) for s, e, _ in got)
    exp_ext = sorted((s, e) for s, e, _ in exp)
    if got_ext != exp_ext:
        overlap = any(a[1] > b[0] for a, b in zip(got_ext, got_ext[1:]))
        res.fail("measures-overlap" if overlap else "measures-tile", expected=exp_ext, observed=got_ext, where=where,
                 detail="existing=%r ts=%r dv=%r" % (case["ms"], case["ts"], case["dv"]))
    for i, m in enumerate(ms):
        se = (None if m.start is None else m.start.t, None if m.end is None else m.end.t)
        if se != tuple(case["ms"][i]) or not any(x is m for _, _, x in got):
            res.fail("existing-measures-untouched", expected=case["ms"][i], observed=se, where=where)
            break
    order = sorted(got, key=lambda x: (x[0], x[1]))
    nums = [m.number for _, _, m in order]
    if nums != list(range(1, len(order) + 1)):
        res.fail("measures-numbered", expected=list(range(1, len(order) + 1)), observed=nums, where=where,
                 detail="measures=%r" % ([(s, e) for s, e, _ in order],))
    return sum(1 for _, _, new in exp if new)


def _pitch_key(n):
    return (getattr(n, "step", None), getattr(n, "alter", None) or 0, getattr(n, "octave", None))


def check_notes(res, case, part, where, tied, skip=()):
    import partitura.score as S

    gen = list(part.iter_all(S.GenericNote, include_subclasses=True))
    reg = set(id(g) for g in gen)
    dv = case["dv"]
    # -- tie chains: every link, read forwards and backwards
    for g in gen:
        bad = None
        for a, b, label in ((g, g.tie_next, "tie_next"), (g.tie_prev, g, "tie_prev")):
            if a is None or b is None:
                continue
            other = b if label == "tie_next" else a
            if id(other) not in reg:
                bad = ("%s of %s registered on the part" % (label, g.id), "%s is not in the part" % (other.id,))
            elif a.end.t != b.start.t:
                bad = ("contiguous %s link" % label, "%s ends at %s, %s starts at %s" % (a.id, a.end.t, b.id, b.start.t))
            elif _pitch_key(a) != _pitch_key(b) or a.voice != b.voice or a.staff != b.staff or type(a) is not type(b):
                bad = ("one pitch, voice and staff along the %s link" % label,
                       "%s %r v%s s%s -> %s %r v%s s%s" % (a.id, _pitch_key(a), a.voice, a.staff, b.id, _pitch_key(b), b.voice, b.staff))
            if bad:
                break
        if bad:
            res.fail("tie-chain", expected=bad[0], observed=bad[1], where=where)
            break
    # -- every pitched note within one measure
    if tied:
        spans = [(m.start.t, m.end.t) for m in part.measures]
        for g in gen:
            if isinstance(g, S.Note) and not any(s <= g.start.t and g.end.t <= e for s, e in spans):
                res.fail("note-within-measure", expected="a measure containing [%s, %s]" % (g.start.t, g.end.t),
                         observed="measures %r" % (spans,), where=where, detail="note %s" % g.id)
                break
    # -- symbolic durations
    pieces = 0
    for g in gen:
        if g.tie_prev is not None:
            pieces += 1
        s, e = g.start.t, g.end.t
        q = M.div_at(dv, s)
        if e > s and M.div_at(dv, e - 1) != q:
            continue
        if any(g is x for x in skip):
            continue
        for label, sd in (("stored", g._sym_dur), ("property", g.symbolic_duration)):
            if not sd:
                continue
            try:
                ok = M.sym_matches(sd, e - s, q)
            except M.BadSym as ex:
                res.fail("symbolic-duration", expected="a well-formed symbolic duration", observed=str(ex), where=where)
                return pieces
            if not ok:
                res.fail("symbolic-duration", expected="%d divisions at %d per quarter" % (e - s, q),
                         observed="%s %r = %s quarters" % (label, sd, M.sym_quarters(sd)),
                         where=where if label == "stored" else "GenericNote.symbolic_duration",
                         detail="%s %s [%s, %s]" % (type(g).__name__, g.id, s, e))
                return pieces
        sd = g.symbolic_duration
        if sd:
            dfs = g.duration_from_symbolic
            refv = float(M.sym_quarters(sd) * q)
            if dfs is None or abs(float(dfs) - refv) > 1e-9 * max(1.0, refv):
                res.fail("symbolic-duration", expected=refv, observed=dfs, where="GenericNote.duration_from_symbolic",
                         detail="%r at %d divisions" % (sd, q))
                return pieces
    return pieces


def run_ops(res, S, case, part, ms, ops, ref, st, skip=()):
    """run the operations `ops` on the part, evaluating the oracle (reference: `case`, note rows `ref`)
    after every one; `st` carries names/before (last note array), tied, added, pieces, done"""
    for op in ops:
        fname, fn = OPS[op]
        where = "GenericNote.symbolic_duration" if op == "Q" else "score.py:%s" % fname
        res.transitions += 1
        ok, _ = guarded(res, "total:%s" % fname, fn, S, part)
        if not ok:
            st["done"] += op + "!"
            break
        st["done"] += op
        res.states += 1
        if op == "A":
            st["added"] = check_measures(res, case, part, ms, where)
        ok, v = guarded(res, "note-array", full_rows, part)
        if not ok:
            break
        names2, after = v
        if key_rows(names2, after) != ref:
            res.fail("note-array-unchanged", expected=ref, observed=key_rows(names2, after), where=where,
                     detail="ops so far %s" % st["done"])
            break
        if op != "A" and (names2 != st["names"] or after != st["before"]):
            diff = [(a, b) for a, b in zip(st["before"], after) if a != b][:2]
            res.fail("note-array-unchanged", expected="identical rows", observed=diff, where=where,
                     detail="ops so far %s" % st["done"])
            break
        st["names"], st["before"] = names2, after
        if op == "T":
            st["tied"] = True
        st["pieces"] = check_notes(res, case, part, where, st["tied"], skip)
        if res.violations:
            break


def eval_part(case):
    import partitura.score as S

    res = CaseResult(states=0, transitions=0, traces=1)
    part, notes, ms = build(case)
    ref = M.ref_rows(case)
    ok, v = guarded(res, "note-array", full_rows, part)
    if not ok:
        res.outcome = "note-array-raises"
        return res
    names, before = v
    if key_rows(names, before) != ref:
        # the generator's own reading of the input is wrong: a harness problem, not a finding
        raise AssertionError("input note array %r != reference %r" % (key_rows(names, before), ref))
    st = dict(names=names, before=before, tied=False, added=0, pieces=0, done="")
    run_ops(res, S, case, part, ms, case["ops"], ref, st)
    done, added, pieces = st["done"], st["added"], st["pieces"]
    n_rests = sum(1 for _ in part.iter_all(S.Rest))
    res.states = max(res.states, 1)
    res.nontrivial = bool(added and (pieces or n_rests))
    if case.get("untied"):
        # find_tuplets met an untyped note that has no plain or dotted value
        res.nontrivial = any(M.plain_sym(n[1] - n[0], M.div_at(case["dv"], n[0])) is None for n in case["notes"])
    res.outcome = "part %s new=%s pieces=%s rests=%s" % (done if "!" in done else len(done), min(added, 3), min(pieces, 3), min(n_rests, 3))
    return res


def apply_edit(part, notes, ed):
    if ed[0] == "span":
        o = notes[ed[1]]
        if ed[2] == o.start.t:
            # only the end moves: the way tie_notes itself shortens a note
            part.remove(o, "end")
            part.add(o, end=ed[3])
        else:
            part.remove(o)
            part.add(o, ed[2], ed[3])
    else:
        part.set_quarter_duration(0, ed[1])


def eval_edit(case):
    import partitura.score as S

    res = CaseResult(states=0, transitions=0, traces=2)
    part, notes, ms = build(case)
    ref = M.ref_rows(case)
    ok, v = guarded(res, "note-array", full_rows, part)
    if not ok:
        res.outcome = "note-array-raises"
        return res
    names, before = v
    if key_rows(names, before) != ref:
        raise AssertionError("input note array %r != reference %r" % (key_rows(names, before), ref))
    st = dict(names=names, before=before, tied=False, added=0, pieces=0, done="")
    ed = case["edit"]
    run_ops(res, S, case, part, ms, case["ops"], ref, st)
    if not res.violations and "!" not in st["done"]:
        c2 = M.edited_case(case)
        ref2 = M.ref_rows(c2)
        skip = []
        if ed[0] == "div":
            # symbolic durations stored by the first pass were right under the old divisions; the user
            # changed the divisions, so only the notes the library keeps estimating are compared
            keep = [notes[i] for i in M.untyped_notes(case)]
            skip = [g for g in part.iter_all(S.GenericNote, include_subclasses=True) if not any(g is k for k in keep)]
        if "A" in case["ops"]:
            ms2 = sorted(part.measures, key=lambda m: (m.start.t, m.end.t))
            if [[m.start.t, m.end.t] for m in ms2] != c2["ms"]:
                raise AssertionError("measures after the first pass %r != reference %r" % ([[m.start.t, m.end.t] for m in ms2], c2["ms"]))
        else:
            ms2 = ms
        res.transitions += 1
        ok, _ = guarded(res, "total:edit", apply_edit, part, notes, ed)
        if ok:
            st["done"] += "|"
            ok, v = guarded(res, "note-array", full_rows, part)
        if ok:
            names, before = v
            if key_rows(names, before) != ref2:
                # Part.add / Part.remove / set_quarter_duration are not the subject of this property
                raise AssertionError("note array after the edit %r != reference %r" % (key_rows(names, before), ref2))
            st.update(names=names, before=before, tied=False, added=0)
            run_ops(res, S, c2, part, ms2, case["ops2"], ref2, st, skip)
    done, added, pieces = st["done"], st["added"], st["pieces"]
    n_rests = sum(1 for _ in part.iter_all(S.Rest))
    res.states = max(res.states, 1)
    if ed[0] == "span":
        n = case["notes"][ed[1]]
        res.nontrivial = (ed[3] - ed[2]) != (n[1] - n[0])
    else:
        res.nontrivial = True
    res.outcome = "edit %s %s new=%s pieces=%s rests=%s" % (ed[0], done if "!" in done else len(done), min(added, 3), min(pieces, 3), min(n_rests, 3))
    return res


# ---------------------------------------------------------------------------------------------
# estimator


def sweep_est(res, div, lo, hi, kinds):
    """estimator clauses on every integer duration lo..hi at `div` divisions per quarter; kinds counts
    [empty, single, composite] results; returns False when there is a violation"""
    from partitura.utils.music import estimate_symbolic_duration as est
    from partitura.utils.music import symbolic_to_numeric_duration as s2n
    from partitura.utils.music import format_symbolic_duration as fmt

    def one(sym, dur, what):
        try:
            ok = M.sym_matches(sym, dur, div)
        except M.BadSym as ex:
            res.fail("estimate-roundtrip", expected="a well-formed symbolic duration", observed=str(ex),
                     where="estimate_symbolic_duration", detail="dur=%d div=%d %s" % (dur, div, what))
            return False
        back = s2n(sym, div)
        refv = float(M.sym_quarters(sym) * div)
        if abs(float(back) - refv) > 1e-9 * max(1.0, refv):
            res.fail("symbolic-to-numeric", expected=refv, observed=back, where="symbolic_to_numeric_duration",
                     detail="%r at %d divisions" % (sym, div))
            return False
        if not ok:
            res.fail("estimate-roundtrip", expected=dur, observed="%r = %s divisions" % (sym, back),
                     where="estimate_symbolic_duration", detail="dur=%d div=%d %s" % (dur, div, what))
            return False
        f = fmt(sym)
        if f != M.format_ref(sym):
            res.fail("format", expected=M.format_ref(sym), observed=f, where="format_symbolic_duration")
            return False
        return True

    for dur in range(lo, hi + 1):
        res.states += 1
        res.traces += 1
        res.transitions += 2
        try:
            a = est(dur, div)
            b = est(dur, div, return_com_durations=True)
        except Hang:
            raise
        except Exception as ex:
            res.fail("estimate-roundtrip", kind="exception", where=innermost_partitura_frame(ex), observed=exc_text(ex),
                     detail="dur=%d div=%d" % (dur, div))
            break
        if isinstance(a, tuple) or a is None or (a and not isinstance(a, dict)):
            res.fail("estimate-roundtrip", expected="a dict", observed=repr(a), where="estimate_symbolic_duration",
                     detail="dur=%d div=%d" % (dur, div))
            break
        if a:
            kinds[1] += 1
            if not one(a, dur, "single"):
                break
            if b != a:
                res.fail("estimate-roundtrip", expected=a, observed=b, where="estimate_symbolic_duration",
                         detail="dur=%d div=%d: return_com_durations changes a single value" % (dur, div))
                break
        else:
            if M.plain_value_exists(dur, div):
                res.fail("estimate-roundtrip", expected="the plain or dotted value %s quarters" % F(dur, div), observed=repr(a),
                         where="estimate_symbolic_duration", detail="dur=%d div=%d" % (dur, div))
                break
            if isinstance(b, tuple):
                kinds[2] += 1
                if len(b) < 2 or not all(isinstance(x, dict) and x for x in b):
                    res.fail("estimate-roundtrip", expected="a tuple of >= 2 symbolic durations", observed=repr(b),
                             where="estimate_symbolic_duration", detail="dur=%d div=%d" % (dur, div))
                    break
                try:
                    tot = sum(M.sym_quarters(x) for x in b)
                except M.BadSym as ex:
                    res.fail("estimate-roundtrip", expected="well-formed parts", observed=str(ex), where="estimate_symbolic_duration")
                    break
                if abs(tot - F(dur, div)) >= M.EPS_Q:
                    res.fail("estimate-roundtrip", expected="parts adding up to %s quarters" % F(dur, div),
                             observed="%r = %s quarters" % (b, tot), where="estimate_symbolic_duration",
                             detail="dur=%d div=%d composite" % (dur, div))
                    break
            elif b:
                res.fail("estimate-roundtrip", expected="{} or a tuple", observed=repr(b), where="estimate_symbolic_duration",
                         detail="dur=%d div=%d: single value only with return_com_durations" % (dur, div))
                break
            else:
                kinds[0] += 1
    return not res.violations


def eval_est(case):
    res = CaseResult(states=0, transitions=0, traces=0)
    kinds = [0, 0, 0]  # empty, single, composite
    sweep_est(res, case["div"], case["lo"], case["hi"], kinds)
    res.nontrivial = kinds[1] + kinds[2] > 0
    res.outcome = "est empty=%s single=%s composite=%s" % (kinds[0] > 0, kinds[1] > 0, kinds[2] > 0)
    return res


def eval_split(case):
    from partitura.utils.music import find_tie_split

    div, start, ms = case["div"], case["start"], case["max"]
    res = CaseResult(states=0, transitions=0, traces=0)
    found = none = 0
    for dur in range(case["lo"], case["hi"] + 1):
        end = start + dur
        res.states += 1
        res.traces += 1
        res.transitions += 1
        try:
            sp = find_tie_split(start, end, div, ms)
        except Hang:
            raise
        except Exception as ex:
            res.fail("split-pieces", kind="exception", where=innermost_partitura_frame(ex), observed=exc_text(ex),
                     detail="start=%d end=%d div=%d max=%d" % (start, end, div, ms))
            break
        if sp is None:
            none += 1
            continue
        found += 1
        ctx = "start=%d end=%d div=%d max=%d" % (start, end, div, ms)
        good = isinstance(sp, list) and 1 <= len(sp) <= ms + 1 and all(isinstance(x, tuple) and len(x) == 3 for x in sp)
        if good:
            good = sp[0][0] == start and sp[-1][1] == end and all(a[1] == b[0] for a, b in zip(sp, sp[1:])) \
                and all(int(l) == l and int(r) == r and l < r for l, r, _ in sp)
        if not good:
            res.fail("split-pieces", expected="<= %d contiguous pieces from %d to %d" % (ms + 1, start, end), observed=repr(sp),
                     where="find_tie_split", detail=ctx)
            break
        for l, r, sym in sp:
            try:
                ok = bool(sym) and M.sym_matches(sym, r - l, div)
            except M.BadSym as ex:
                ok = False
            if not ok:
                res.fail("split-pieces", expected="piece [%d, %d] notated with its length" % (l, r), observed=repr(sym),
                         where="find_tie_split", detail=ctx)
                break
        if res.violations:
            break
    res.nontrivial = found > 0
    res.outcome = "split found=%s none=%s" % (found > 0, none > 0)
    return res


# ---------------------------------------------------------------------------------------------
# results belong to the caller: edit a returned symbolic duration in place, then ask again

# A genuine defect this space found on the unchanged tree (proposed fix
# proposed_fixes/C11-s-composite-alias.diff): the parts of a composite estimate
# (estimate_symbolic_duration(..., return_com_durations=True), and the rests fill_rests makes from one)
# ARE the dicts of the module-level table SYM_COMPOSITE_DURS (copy.copy of a tuple copies nothing), so
# editing one rewrites the table.  While this is pending, a sequence whose edited dict is an entry of that
# table is counted ("pending") but not run; with the fix no returned dict is a table entry and nothing is
# left out.  Set to False to run them regardless.
COMPOSITE_ALIAS_PENDING = False


def _composite_table_entry(sd):
    import partitura.utils.globals as G

    for tup in getattr(G, "SYM_COMPOSITE_DURS", ()):
        for x in tup if isinstance(tup, (tuple, list)) else (tup,):
            if x is sd:
                return True
    return False


def alias_edit(sd, ed):
    """the caller's in-place edit of a symbolic duration it was handed; every edit changes the value"""
    if ed == "clear":
        sd.clear()
    elif ed in ("dots1", "dots2", "dots3"):
        sd["dots"] = ((sd.get("dots", 0) or 0) + int(ed[-1])) % 4
    elif ed in ("longer", "shorter"):
        names = M.FULL_NAMES
        i = names.index(sd["type"]) if sd.get("type") in names else 4
        j = i - 1 if ed == "longer" else i + 1
        if j < 0 or j >= len(names):
            j = i + 1 if ed == "longer" else i - 1
        sd["type"] = names[j]
    elif ed == "tuplet":
        # what find_tuplets does to the estimate it asked for
        a, n = (5, 4) if sd.get("actual_notes") == 3 else (3, 2)
        sd["actual_notes"], sd["normal_notes"] = a, n
    else:
        raise ValueError(ed)


def _merge(res, sub):
    res.states += sub.states
    res.transitions += sub.transitions
    res.traces += sub.traces
    for v in sub.violations:
        if len(res.violations) < 8:
            res.violations.append(v)


def alias_targets(res, case, pcase):
    """the symbolic durations the library hands out in this case: list of (label, dict, owner, part); owner =
    the note or rest on which the dict is stored (the edit then is the user's own change of that object)"""
    from partitura.utils.music import estimate_symbolic_duration as est
    from partitura.utils.music import find_tie_split
    import partitura.score as S

    q, d, s, src = case["q"], case["dur"], case["s"], case["src"]
    out = []
    if src == "est":
        res.transitions += 1
        ok, a = guarded(res, "estimate-roundtrip", est, d, q)
        if ok and isinstance(a, dict) and a:
            out.append(("estimate_symbolic_duration(%d, %d)" % (d, q), a, None, None))
    elif src == "com":
        res.transitions += 1
        ok, b = guarded(res, "estimate-roundtrip", lambda: est(d, q, return_com_durations=True))
        if ok:
            for i, x in enumerate(b if isinstance(b, tuple) else (b,)):
                if isinstance(x, dict) and x:
                    out.append(("estimate_symbolic_duration(%d, %d, return_com_durations=True)[%d]" % (d, q, i), x, None, None))
    elif src == "split":
        res.transitions += 1
        ok, sp = guarded(res, "split-pieces", find_tie_split, s, s + d, q, 3)
        if ok and isinstance(sp, list):
            for i, x in enumerate(sp):
                if isinstance(x, tuple) and len(x) == 3 and isinstance(x[2], dict) and x[2]:
                    out.append(("find_tie_split(%d, %d, %d)[%d]" % (s, s + d, q, i), x[2], None, None))
    elif src == "note":
        part, notes, ms = build(pcase)
        ref = M.ref_rows(pcase)
        names, before = full_rows(part)
        st = dict(names=names, before=before, tied=False, added=0, pieces=0, done="")
        run_ops(res, S, pcase, part, ms, case["ops"], ref, st)
        if not res.violations and "!" not in st["done"]:
            gen = sorted(part.iter_all(S.GenericNote, include_subclasses=True),
                         key=lambda g: (g.start.t, g.end.t, type(g).__name__, str(g.id)))
            for g in gen:
                stored = g._sym_dur is not None
                sd = g.symbolic_duration
                if isinstance(sd, dict) and sd:
                    out.append(("%s %s [%s, %s].symbolic_duration (%s) after %r" % (
                        type(g).__name__, g.id, g.start.t, g.end.t, "stored" if stored else "estimated", case["ops"]),
                        sd, g if stored else None, (part, st["tied"])))
    else:
        raise ValueError(src)
    return out


def eval_alias(case):
    """obtain a symbolic duration from the library, edit the returned dict in place, then ask the library
    again: the estimator over every duration of the same divisions, find_tie_split of the same span, every
    other note of the part the dict came from, and a fresh part run through all operations"""
    res = CaseResult(states=0, transitions=0, traces=0)
    q, d, s, ed = case["q"], case["dur"], case["s"], case["edit"]
    ts, ms = layout(q, LAYOUTS[case["lay"]])
    pcase = mk([[0, q]], ts, ms, [[s, s + d, 1, 1, 1]], "ATURS")
    targets = alias_targets(res, case, pcase)
    ran = pending = 0
    for label, sd, owner, src_part in targets:
        if res.violations:
            break
        if COMPOSITE_ALIAS_PENDING and _composite_table_entry(sd):
            pending += 1
            continue
        orig = dict(sd)
        try:
            alias_edit(sd, ed)
            ran += 1
            res.transitions += 1
            n0 = len(res.violations)
            # the part the dict came from: every other note (and the note itself when the library estimates it)
            if src_part is not None:
                part, tied = src_part
                guarded(res, "symbolic-duration", check_notes, res, pcase, part, "GenericNote.symbolic_duration", tied,
                        [owner] if owner is not None else [])
            # the estimator, every duration of these divisions
            if not res.violations:
                sweep_est(res, q, 1, 16 * q, [0, 0, 0])
            # the same span split again
            if not res.violations:
                _merge(res, eval_split(dict(div=q, start=s, lo=d, hi=d, max=3)))
            # a fresh part through every operation
            if not res.violations:
                _merge(res, eval_part(pcase))
            for v in res.violations[n0:]:
                v["detail"] = ("after the caller edited (%s: %r -> %r) the dict returned by %s; " % (ed, orig, dict(sd), label)
                               + (v.get("detail") or ""))[:600]
        finally:
            # leave the process as it was found, whatever the library shares
            sd.clear()
            sd.update(orig)
    res.states = max(res.states, 1)
    res.nontrivial = ran > 0
    res.outcome = "alias %s targets=%s ran=%s pending=%s" % (case["src"], min(len(targets), 3), min(ran, 3), min(pending, 1))
    return res


def eval_case(case):
    k = case["k"]
    if k == "alias":
        return eval_alias(case)
    if k == "part":
        return eval_part(case)
    if k == "edit":
        return eval_edit(case)
    if k == "est":
        return eval_est(case)
    if k == "split":
        return eval_split(case)
    raise ValueError(k)


# ---------------------------------------------------------------------------------------------
# enumeration

TS = {"2/4": (2, 4), "3/4": (3, 4), "4/4": (4, 4), "6/8": (6, 8)}
SIGS = ["2/4", "3/4", "4/4", "6/8"]


def bar_q(name):
    b, bt = TS[name]
    return F(4 * b, bt)


def mk(dv, ts, ms, notes, ops, ties=None, slurs=None, syms=None):
    c = dict(k="part", dv=dv, ts=ts, ms=ms, notes=notes, ops=ops)
    if ties:
        c["ties"] = ties
    if slurs:
        c["slurs"] = slurs
    if syms:
        c["syms"] = syms
    return c


def valid(case):
    return M.ref_tiling(case) is not None


class Shard(object):
    """deterministic sharding of an enumeration: element k belongs to block mix(k) mod nb (a
    multiplicative hash of the running index, so that a block is spread over all loop dimensions)"""

    def __init__(self, nb=1, pick=0):
        self.nb, self.pick, self.k = nb, pick % nb, 0

    def take(self):
        self.k += 1
        return self.nb == 1 or (((self.k * 2654435761) & 0xFFFFFFFF) >> 9) % self.nb == self.pick


def intervals(n):
    return [(a, b) for a in range(n) for b in range(a + 1, n + 1)]


def gen_measures(qs, pairs, sh):
    """one long note from 0 to the end (E quarters); every position of an optional second signature;
    no / every single pre-existing measure on the quarter grid (pairs: every two non-overlapping ones)"""
    for q in qs:
        for E in (8, 9):
            ivs = intervals(E)
            if pairs:
                exs = [[x, y] for x in ivs for y in ivs if x[1] <= y[0]]
            else:
                exs = [[]] + [[x] for x in ivs]
            for ts1 in SIGS:
                seconds = [None] + [(t2, n2) for t2 in range(1, E + 1) for n2 in SIGS if n2 != ts1]
                for sec in seconds:
                    ts = [[0] + list(TS[ts1])]
                    if sec is not None:
                        ts.append([sec[0] * q] + list(TS[sec[1]]))
                    for ex in exs:
                        if not sh.take():
                            continue
                        ms = [[a * q, b * q] for a, b in ex]
                        c = mk([[0, q]], ts, ms, [[0, E * q, 1, 1, 1]], "AT")
                        if valid(c):
                            yield c


def gen_three_sigs(qs, sh):
    """three signatures (every two positions of the changes, every sequence of different neighbours),
    no or one pre-existing measure at every quarter interval, one long note"""
    E = 9
    ivs = intervals(E)
    exs = [[]] + [[x] for x in ivs]
    for q in qs:
        for t2 in range(1, E):
            for t3 in range(t2 + 1, E):
                for n1 in SIGS:
                    for n2 in SIGS:
                        for n3 in SIGS:
                            if n1 == n2 or n2 == n3:
                                continue
                            ts = [[0] + list(TS[n1]), [t2 * q] + list(TS[n2]), [t3 * q] + list(TS[n3])]
                            for ex in exs:
                                if not sh.take():
                                    continue
                                ms = [[a * q, b * q] for a, b in ex]
                                c = mk([[0, q]], ts, ms, [[0, E * q, 1, 1, 1]], "AT")
                                if valid(c):
                                    yield c


LAYOUTS = [
    # name, signatures as (quarter position, name), pre-existing measures in quarters
    ("44", [(0, "4/4")], []),
    ("34-24", [(0, "3/4"), (3, "2/4")], []),
    ("68", [(0, "6/8")], []),
    ("24-34off", [(0, "2/4"), (3, "3/4")], []),
    ("44-pickup", [(0, "4/4")], [(0, 1)]),
    ("34-irregular", [(0, "3/4")], [(2, 4)]),
]
ORDERS = ["ATURS", "ATUGS", "AUTRS", "ARTUS", "ASTGU", "AGTSR"]


def layout(q, lay):
    _, sigs, pre = lay
    ts = [[int(p * q)] + list(TS[n]) for p, n in sigs]
    ms = [[int(a * q), int(b * q)] for a, b in pre]
    return ts, ms


def gen_one_note(qs, span, orders, sh):
    """one note, every onset and every end on the division grid within `span` divisions"""
    for q in qs:
        for lay in LAYOUTS:
            ts, ms = layout(q, lay)
            for s, e in intervals(span):
                for ops in orders:
                    if not sh.take():
                        continue
                    c = mk([[0, q]], ts, ms, [[s, e, 1, 1, 1]], ops)
                    if valid(c):
                        yield c


VS2 = [(1, 1, 1, 1), (1, 1, 2, 1), (1, 1, 2, 2)]  # (voice, staff) of note 0 and of note 1


def gen_two_notes(qs, span, lays, orders, sh):
    """two notes, every unordered pair of (onset, end) on the division grid within `span` divisions, same
    voice / two voices / two staves, equal or different pitch; operation orders cycled"""
    k = 0
    for q in qs:
        ivs = intervals(span)
        for lay in lays:
            ts, ms = layout(q, lay)
            for ia, a in enumerate(ivs):
                for b in ivs[ia:]:
                    # the order advances by one per (voice pattern, pitch) and by one more per pair (7 in
                    # all, coprime to the number of orders), so that every voice pattern meets every order
                    k += 1
                    for (v0, s0, v1, s1) in VS2:
                        for p1 in (0, 1):
                            k += 1
                            if not sh.take():
                                continue
                            c = mk([[0, q]], ts, ms, [[a[0], a[1], 0, v0, s0], [b[0], b[1], p1, v1, s1]], orders[k % len(orders)])
                            if valid(c):
                                yield c


VS3 = [((1, 1), (1, 1), (1, 1)), ((1, 1), (2, 1), (1, 1)), ((1, 1), (1, 1), (2, 2))]


def gen_three_notes(qs, span, lays, orders, sh):
    """three notes, every unordered triple of (onset, end) within `span` divisions, three voice/staff
    patterns, pitches 0,1,0; operation orders cycled"""
    k = 0
    for q in qs:
        ivs = intervals(span)
        for lay in lays:
            ts, ms = layout(q, lay)
            for ia, a in enumerate(ivs):
                for ib in range(ia, len(ivs)):
                    b = ivs[ib]
                    for c3 in ivs[ib:]:
                        # two extra steps per triple (5 in all, coprime to the number of orders): every
                        # voice pattern meets every operation order
                        k += 2
                        for vs in VS3:
                            k += 1
                            if not sh.take():
                                continue
                            notes = [[a[0], a[1], 0, vs[0][0], vs[0][1]], [b[0], b[1], 1, vs[1][0], vs[1][1]],
                                     [c3[0], c3[1], 0, vs[2][0], vs[2][1]]]
                            c = mk([[0, q]], ts, ms, notes, orders[k % len(orders)])
                            if valid(c):
                                yield c


def gen_runs(qs, orders, sh):
    """runs of k equal contiguous notes (tuplet candidates) after an offset, plus an optional closing
    note; every unit duration and offset"""
    for q in qs:
        for lay in LAYOUTS[:4]:
            ts, ms = layout(q, lay)
            for k in (3, 4, 5):
                for d in range(1, 2 * q + 1):
                    for off in range(0, min(q, 4) + 1):
                        for tail in (0, 1, d + 1):
                            notes = [[off + i * d, off + (i + 1) * d, i % 2, 1, 1] for i in range(k)]
                            if tail:
                                notes.append([off + k * d, off + k * d + tail, 0, 1, 1])
                            for ops in orders:
                                if not sh.take():
                                    continue
                                c = mk([[0, q]], ts, ms, notes, ops)
                                if valid(c):
                                    yield c


UNTIED_ORDERS = ["U", "AUTRS", "UATGS"]


def gen_untied_runs(qs, lays, ks, dmax_q, offs, tails, orders, sh):
    """find_tuplets run on notes that tie_notes has not split yet (directly on the part, or after
    add_measures only): runs of k equal contiguous untyped notes, EVERY unit duration from one division
    to dmax_q quarters - plain, dotted and tuplet values, values that need two to four tied values and
    values longer than a bar -, after an offset, with an optional closing note (tails: 0 none, 1 one
    division, 2 unit+1 divisions)"""
    for q in qs:
        for lay in lays:
            ts, ms = layout(q, lay)
            for k in ks:
                for d in range(1, dmax_q * q + 1):
                    for off in offs:
                        for tail in tails:
                            notes = [[off + i * d, off + (i + 1) * d, i % 2, 1, 1] for i in range(k)]
                            if tail:
                                notes.append([off + k * d, off + k * d + (1 if tail == 1 else d + 1), 0, 1, 1])
                            for ops in orders:
                                if not sh.take():
                                    continue
                                c = mk([[0, q]], ts, ms, notes, ops)
                                c["untied"] = 1
                                if valid(c):
                                    yield c


def gen_untied_words(qs, lens, dmax_q, orders, sh):
    """find_tuplets before tie_notes on contiguous notes of one voice whose durations spell every word of
    the given lengths over the two-letter alphabet {d, one quarter} (except the all-quarters word), for
    every d from one division to dmax_q quarters: runs of the value d of every length, interrupted and
    framed by notes of a plain value"""
    for q in qs:
        ts, ms = layout(q, LAYOUTS[0])
        for d in range(1, dmax_q * q + 1):
            if d == q:
                continue
            for n in lens:
                for word in itertools.product((d, q), repeat=n):
                    if d not in word:
                        continue
                    for ops in orders:
                        if not sh.take():
                            continue
                        notes, t = [], 0
                        for i, w in enumerate(word):
                            notes.append([t, t + w, i % 2, 1, 1])
                            t += w
                        c = mk([[0, q]], ts, ms, notes, ops)
                        c["untied"] = 1
                        if valid(c):
                            yield c


def gen_linked(qs, span, orders, sh):
    """chains of two or three contiguous notes of one pitch: pre-existing ties (all / first / last link),
    slurs ending and starting on notes that get split, dangling slurs, given symbolic durations"""
    cuts = list(itertools.combinations(range(span + 1), 3)) + list(itertools.combinations(range(span + 1), 4))
    for q in qs:
        for lay in (LAYOUTS[0], LAYOUTS[1], LAYOUTS[5]):
            ts, ms = layout(q, lay)
            for cut in cuts:
                notes = [[a, b, 1, 1, 1] for a, b in zip(cut, cut[1:])]
                n = len(notes)
                tie_sets = [[[i, i + 1] for i in range(n - 1)], [[0, 1]], [[n - 2, n - 1]]]
                tie_sets = [t for i, t in enumerate(tie_sets) if t not in tie_sets[:i]]
                syms = {}
                for i, nt in enumerate(notes):
                    ps = M.plain_sym(nt[1] - nt[0], q)
                    if ps:
                        syms[str(i)] = ps
                for ties in tie_sets:
                    for slurs in ([], [[0, n - 1]], [[0, 1], [1, n - 1]], [[None, n - 1], [0, None]], "syms"):
                        for ops in orders:
                            if not sh.take():
                                continue
                            if slurs == "syms":
                                c = mk([[0, q]], ts, ms, notes, ops, ties=ties, syms=syms)
                            else:
                                c = mk([[0, q]], ts, ms, notes, ops, ties=ties, slurs=slurs)
                            if valid(c):
                                yield c


def gen_divchange(orders, sh):
    """the divisions change at the first bar line; one note, every onset in the first two bars and every
    end within three bars"""
    for (q0, q1) in ((2, 4), (4, 2), (2, 3), (4, 6), (1, 2), (3, 1)):
        for name in ("2/4", "3/4"):
            bar = int(bar_q(name) * q0)
            bar1 = int(bar_q(name) * q1)
            ts = [[0] + list(TS[name])]
            dv = [[0, q0], [bar, q1]]
            for s in range(0, bar + bar1):
                for e in range(s + 1, bar + 2 * bar1 + 1):
                    for ops in orders:
                        if not sh.take():
                            continue
                        c = mk(dv, ts, [], [[s, e, 1, 1, 1]], ops)
                        if valid(c):
                            yield c


def gen_voice_overlap(cfgs, n, orders, sh):
    """n notes of one voice and staff (different pitches), every unordered n-tuple of (onset, end) on
    the division grid inside one bar: chords, nested and overlapping notes, gaps before, between, after"""
    k = 0
    for q, sig in cfgs:
        bar = int(bar_q(sig) * q)
        ts = [[0] + list(TS[sig])]
        for combo in itertools.combinations_with_replacement(intervals(bar), n):
            k += 1
            if not sh.take():
                continue
            notes = [[a, b, i, 1, 1] for i, (a, b) in enumerate(combo)]
            c = mk([[0, q]], ts, [], notes, orders[k % len(orders)])
            if valid(c):
                yield c


# A genuine defect the space long-notes-wide found on the unchanged tree (proposed fix
# proposed_fixes/C11-s-long-tie-chain.diff): GenericNote.duration_tied / end_tied / tie_next_notes /
# tie_prev_notes are defined recursively, one Python frame per tied note, so Part.note_array() raises
# RecursionError after tie_notes has split a note into about a thousand pieces (995 bars at the top level of a
# script; fewer when the caller's stack is deeper).  While this is pending the instances of LONG_BARS_HUGE are
# left out of the enumeration (the bounds text says so); with the fix they pass.  Set to False to run them.
LONG_CHAIN_PENDING = False

LONG_BARS = [25, 26, 27, 28, 29, 30, 40, 100]
LONG_BARS_WIDE = LONG_BARS + [60, 300]
LONG_BARS_HUGE = [1100, 2600]


def gen_long_notes(qs, lays, bars, orders, cycle, sh):
    """magnitude dimension of one-note: a held note (pedal point) over `bars` bars of the last signature of
    the layout plus a tail of 0 or 1 division, starting on the first bar line, one division after it, or in
    the middle of a bar, over a quarter note of a second voice at the start; the divisions scale every time
    (1 to 960 divisions per quarter).  tie_notes has to split the note into bars(+1) tied notes (chains of 25
    to 31 pieces one by one, then 40 .. 2600); operation orders all (cycle False) or one per case in turn"""
    k = 0
    for q in qs:
        for lay in lays:
            ts, ms = layout(q, lay)
            bar = int(bar_q(lay[1][-1][1]) * q)
            for nb in bars:
                for s in sorted(set([0, 1, bar // 2])):
                    for tail in (0, 1):
                        k += 1
                        for j, ops in enumerate(orders):
                            if cycle and j != k % len(orders):
                                continue
                            if not sh.take():
                                continue
                            c = mk([[0, q]], ts, ms, [[s, s + nb * bar + tail, 1, 1, 1], [0, q, 0, 2, 1]], ops)
                            if valid(c):
                                yield c


EDIT_DIVS = [1, 2, 3, 4, 6, 8]
EDIT_OPS = [("Q", "Q"), ("Q", "ATURS"), ("ATUR", "ATURS")]
EDIT_OPS_WIDE = [(a, b) for a in ("Q", "AT", "ATUR", "AUGS") for b in ("Q", "ATURS", "ATUGS", "ARS")]


def gen_edit(qs, lays, span, moves, others, op_pairs, cycle, sh):
    """first pass, one edit, second pass.  The target note: every (onset, end) within `span` divisions that
    is a plain or dotted value inside one bar.  Edits: moves == "end": every other end; "all": every other
    (onset, end) within the span; always: every other divisions value of EDIT_DIVS.  others: no second note,
    or (True) also every second note of the same voice on the quarter grid.  op_pairs: all of them for
    every edit (cycle False) or one per edit in turn (cycle True)"""
    k = 0
    for q in qs:
        ivs = intervals(span)
        seconds = [None]
        if others:
            seconds += [(a * q, b * q) for a, b in intervals(span // q)]
        for lay in lays:
            ts, ms = layout(q, lay)
            for (s, e) in ivs:
                for sec in seconds:
                    notes = [[s, e, 0, 1, 1]]
                    if sec is not None:
                        notes.append([sec[0], sec[1], 1, 1, 1])
                    base = mk([[0, q]], ts, ms, notes, "A")
                    if not valid(base) or 0 not in M.untyped_notes(base):
                        continue
                    if moves == "end":
                        edits = [["span", 0, s, e2] for e2 in range(s + 1, span + 1) if e2 != e]
                    else:
                        edits = [["span", 0, s2, e2] for s2, e2 in ivs if (s2, e2) != (s, e)]
                    edits += [["div", q2] for q2 in EDIT_DIVS if q2 != q]
                    k += 1
                    for ed in edits:
                        k += 1
                        for j, (o1, o2) in enumerate(op_pairs):
                            if cycle and j != k % len(op_pairs):
                                continue
                            if not sh.take():
                                continue
                            c = dict(base, k="edit", ops=o1, edit=ed, ops2=o2)
                            if "A" in o2 and not valid(M.edited_case(c)):
                                continue
                            yield c


ALIAS_EDITS = ["dots1", "longer", "tuplet", "clear"]
ALIAS_EDITS_WIDE = ["dots1", "dots2", "dots3", "longer", "shorter", "tuplet", "clear"]
ALIAS_SRC = [("est", ""), ("com", ""), ("split", ""), ("note", ""), ("note", "ATUR")]
ALIAS_SRC_WIDE = ALIAS_SRC + [("note", "AT"), ("note", "AUGS")]


def gen_alias(qs, lays, srcs, edits, sh):
    """one note [s, s+d]: every onset s inside the first bar and every duration d up to two whole notes
    (8 quarters) on the division grid; the symbolic durations the library hands out for it - by
    estimate_symbolic_duration(d, q), by the same with composite durations (every part), by
    find_tie_split(s, s+d, q) (every piece), by the symbolic_duration of every note and rest of the part
    after the given operations - each edited in place in every way of `edits`, then all queries repeated"""
    for q in qs:
        for li in lays:
            ts, ms = layout(q, LAYOUTS[li])
            bar = int(bar_q(LAYOUTS[li][1][0][1]) * q)
            for d in range(1, 8 * q + 1):
                for s in range(0, bar):
                    if not valid(mk([[0, q]], ts, ms, [[s, s + d, 1, 1, 1]], "A")):
                        continue
                    for src, ops in srcs:
                        for ed in edits:
                            if not sh.take():
                                continue
                            yield dict(k="alias", q=q, lay=li, dur=d, s=s, src=src, ops=ops, edit=ed)


def gen_est(divs, per=512):
    for div in divs:
        hi = 16 * div
        lo = 1
        while lo <= hi:
            yield dict(k="est", div=div, lo=lo, hi=min(hi, lo + per - 1))
            lo += per


def gen_split(divs, span_q, maxes, per=128):
    for div in divs:
        for start in range(0, min(2 * div, 48)):
            for mx in maxes:
                hi = span_q * div
                lo = 1
                while lo <= hi:
                    yield dict(k="split", div=div, start=start, lo=lo, hi=min(hi, lo + per - 1), max=mx)
                    lo += per


def spaces(tier, seed):
    sp = []
    quick = tier == "quick"

    def add(name, fn, nb, bounds):
        # quick: block seed mod nb of the enumeration; thorough: all of it
        if quick and nb > 1:
            sp.append(Space(name, lambda: fn(Shard(nb, seed)), True, bounds + " (quick: block %d of %d)" % (seed % nb, nb)))
        else:
            sp.append(Space(name, lambda: fn(Shard()), True, bounds))

    # -- estimator
    if quick:
        core = list(range(1, 49)) + [96, 120, 240, 480, 960]
        rest = [d for d in range(49, 960) if d not in core]
        extra = [d for i, d in enumerate(rest) if i % 32 == seed % 32]
        sp.append(Space("estimator-core", lambda: gen_est(core), True,
                        "divisions 1..48, 96, 120, 240, 480, 960; every integer duration 1..16*divisions; with and without composite durations"))
        sp.append(Space("estimator-block", lambda: gen_est(extra), True,
                        "every 32nd divisions value of 49..959 (offset seed mod 32); every integer duration 1..16*divisions"))
    else:
        sp.append(Space("estimator-all", lambda: gen_est(range(1, 961)), True,
                        "divisions 1..960; every integer duration 1..16*divisions; with and without composite durations"))
    # -- find_tie_split
    sdivs = list(range(1, 13)) + [16, 24, 48] if quick else list(range(1, 25)) + [32, 48, 96, 120]
    sp.append(Space("tie-split", lambda: gen_split(sdivs, 8, (1, 2, 3)), True,
                    "find_tie_split(start, start+dur, divs, max_splits): divs %s, start 0..min(2*divs,48)-1, every dur up to 8 quarters, max_splits 1..3" % (sdivs,)))
    # -- measures
    mq = [1, 3] if quick else [1, 2, 3, 4, 6]
    add("measures-single", lambda sh: gen_measures(mq, False, sh), 1,
        "divs %s; part of 8 or 9 quarters (one note over everything); first signature 2/4,3/4,4/4,6/8; no or one other signature at "
        "every quarter (also at the very end); no or one pre-existing measure at every quarter interval; ops add_measures, tie_notes" % (mq,))
    add("measures-pairs", lambda sh: gen_measures([1, 3, 6], True, sh), 48,
        "as measures-single with every two non-overlapping pre-existing measures, divs {1,3,6}")
    add("three-signatures", lambda sh: gen_three_sigs([1, 3], sh), 12,
        "divs {1,3}; 9 quarters; three signatures with different neighbours at every two quarter positions; no or one pre-existing measure "
        "at every quarter interval")
    # -- notes
    oq = [1, 2, 4, 6] if quick else [1, 2, 3, 4, 6, 8, 12]
    ospan = 24 if quick else 36
    add("one-note", lambda sh: gen_one_note(oq, ospan, ORDERS[:2], sh), 1,
        "6 layouts x divs %s x every (onset, end) within %d divisions x operation orders %s" % (oq, ospan, ORDERS[:2]))
    add("one-note-orders", lambda sh: gen_one_note(oq, ospan, ORDERS[2:], sh), 12,
        "as one-note with the operation orders %s" % (ORDERS[2:],))
    # -- magnitude dimension: the same one-note family held over dozens to thousands of bars, small and large divisions
    add("long-notes", lambda sh: gen_long_notes([1, 480], LAYOUTS, LONG_BARS, ORDERS[:2], True, sh), 1,
        "6 layouts x divs {1, 480} x one note held over N bars of the last signature, N in %s (tie chains of 25..31 pieces one by "
        "one, 41, 101), plus a tail of 0 or 1 division, starting at 0, 1 division or half a bar, over one quarter note of a second "
        "voice; operation orders %s in turn" % (LONG_BARS, ORDERS[:2]))
    add("long-notes-wide",
        lambda sh: itertools.chain(
            gen_long_notes([1, 2, 3, 480, 960], LAYOUTS, LONG_BARS_WIDE, ORDERS, False, sh),
            [] if LONG_CHAIN_PENDING else gen_long_notes([1, 480], LAYOUTS, LONG_BARS_HUGE, ORDERS[:2], False, sh)), 32,
        "as long-notes with divs {1,2,3,480,960}, N in %s, every operation order of %s%s" % (
            LONG_BARS_WIDE, ORDERS,
            "; N in %s (a tie chain of about a thousand pieces and more: Part.note_array raises RecursionError) left out while the "
            "proposed fix C11-s-long-tie-chain is pending" % (LONG_BARS_HUGE,) if LONG_CHAIN_PENDING else
            "; N in %s with divs {1,480} and the operation orders %s" % (LONG_BARS_HUGE, ORDERS[:2])))
    add("two-notes", lambda sh: gen_two_notes([1, 2, 4], 12, LAYOUTS[:3] + LAYOUTS[4:5], ORDERS, sh), 48,
        "divs {1,2,4} x 4 layouts x every unordered pair of (onset, end) within 12 divisions x {one voice, two voices, two staves} "
        "x pitch {same, other}; operation orders cycled")
    add("three-notes", lambda sh: gen_three_notes([1, 2], 8, LAYOUTS[:2], ORDERS, sh), 32,
        "divs {1,2} x 2 layouts x every unordered triple of (onset, end) within 8 divisions x 3 voice/staff patterns; operation orders cycled")
    rq = [1, 2, 3, 4, 6] if quick else [1, 2, 3, 4, 5, 6, 7, 8, 12]
    add("runs", lambda sh: gen_runs(rq, ORDERS[:2] if quick else ORDERS[:4], sh), 1,
        "divs %s; runs of 3..5 equal contiguous notes, unit duration 1..2*divs, offset 0..min(divs,4), closing note none/1/unit+1, 4 layouts" % (rq,))
    # -- find_tuplets on parts whose notes tie_notes has not split yet
    uq = [2, 3, 4, 6, 8, 12, 16, 24]
    add("untied-runs", lambda sh: gen_untied_runs(uq, LAYOUTS[:1], (3, 5), 5, (0,), (0, 1), UNTIED_ORDERS[:2], sh), 1,
        "find_tuplets before tie_notes (operation orders %s: find_tuplets alone on the bare part, or after add_measures and before "
        "tie_notes, fill_rests, sanitize_part): divs %s, 4/4; runs of 3 or 5 equal contiguous untyped notes of EVERY unit duration from 1 "
        "division to 5 quarters (plain, dotted, tuplet values, values needing two to four tied values, values longer than a bar), closing "
        "note none / 1 division" % (UNTIED_ORDERS[:2], uq))
    uqw = [1, 2, 3, 4, 5, 6, 8, 12, 16, 24, 32]
    add("untied-runs-wide",
        lambda sh: gen_untied_runs(uqw, LAYOUTS[:2], (3, 4, 5, 7, 9), 5, (0, 1), (0, 2), UNTIED_ORDERS, sh), 24,
        "as untied-runs with divs %s, layouts 44 and 34-24, runs of 3, 4, 5, 7, 9 notes, every unit duration up to 5 quarters, offset 0 or 1 "
        "division, closing note none / unit+1 divisions, operation orders %s" % (uqw, UNTIED_ORDERS))
    add("untied-words", lambda sh: gen_untied_words([4, 8, 16, 24], (3, 4, 5), 5, ["AUTRS"], sh), 8,
        "find_tuplets before tie_notes: divs {4,8,16,24}, 4/4; contiguous notes of one voice spelling every word of length 3..5 over "
        "{d, one quarter} (not all quarters) for every d from 1 division to 5 quarters; ops add_measures, find_tuplets, tie_notes, "
        "fill_rests, sanitize_part")
    add("linked", lambda sh: gen_linked([1, 2, 4], 10, ORDERS[:3], sh), 16,
        "divs {1,2,4} x 3 layouts x chains of 2..3 contiguous equal-pitch notes with cut points anywhere in 0..10 x pre-existing ties "
        "(all / first / last link) x (no slur, slur over all, two slurs, dangling slurs, given symbolic durations) x 3 operation orders")
    add("divisions-change", lambda sh: gen_divchange(ORDERS[:2], sh), 6,
        "divisions change (2->4, 4->2, 2->3, 4->6, 1->2, 3->1) at the first bar line of 2/4 or 3/4; one note, every onset in the first "
        "two bars and every end within three bars")
    # -- several notes of one voice inside a bar (overlaps, nesting, gaps) under fill_rests
    add("voice-overlap", lambda sh: gen_voice_overlap([(2, "3/4")], 3, ["AR"], sh), 1,
        "divs 2, one bar of 3/4 (6 divisions); three notes of one voice and staff, every unordered triple of (onset, end) inside the bar; "
        "ops add_measures, fill_rests(measurewise)")
    VO = ["AR", "ATR", "ARTUS", "AUTRS", "AGR", "ARG"]
    add("voice-overlap-wide",
        lambda sh: itertools.chain(gen_voice_overlap([(2, "4/4"), (4, "2/4")], 3, VO, sh),
                                   gen_voice_overlap([(1, "4/4"), (2, "3/4")], 4, VO, sh)), 16,
        "notes of one voice and staff inside one bar, every unordered tuple of (onset, end): three notes in 8 divisions (divs 2 in 4/4, "
        "divs 4 in 2/4), four notes in 4 or 6 divisions (divs 1 in 4/4, divs 2 in 3/4); operation orders %s cycled" % (VO,))
    # -- edit, then normalise / query again
    add("edit-requery", lambda sh: gen_edit([2], LAYOUTS[:2], 12, "end", False, EDIT_OPS, False, sh), 1,
        "divs 2 x layouts 44, 34-24 x one note, every (onset, end) within 12 divisions that is a plain or dotted value inside one bar; "
        "edit: every other end within 12 divisions (Part.remove(note, 'end'), Part.add(note, end=...)) or "
        "Part.set_quarter_duration(0, q2) for every other q2 of %s; (first pass, second pass) each of %s" % (EDIT_DIVS, EDIT_OPS))
    add("edit-requery-wide",
        lambda sh: gen_edit([2, 4], LAYOUTS[:2], 8, "all", True, EDIT_OPS_WIDE, True, sh), 16,
        "divs {2,4} x layouts 44, 34-24 x target note as in edit-requery within 8 divisions x no second note or every second note of the "
        "same voice on the quarter grid; edit: the target moved to every other (onset, end) within 8 divisions (Part.remove, Part.add) or "
        "every other divisions value of %s; first pass in {Q, AT, ATUR, AUGS} x second pass in {Q, ATURS, ATUGS, ARS}, pairs cycled" % (EDIT_DIVS,))
    # -- the caller edits a symbolic duration it was handed, then asks again
    add("result-edit", lambda sh: gen_alias([2], [0], ALIAS_SRC, ALIAS_EDITS, sh), 1,
        "divs 2, 4/4; one note [s, s+d], every onset s in the first bar x every duration d of 1..16 divisions; a symbolic duration "
        "obtained from estimate_symbolic_duration(d, divs), from the same with return_com_durations (every part), from "
        "find_tie_split(s, s+d, divs) (every piece), from Note.symbolic_duration on the bare part, or from symbolic_duration of every "
        "note and rest after add_measures, tie_notes, find_tuplets, fill_rests; the returned dict edited in place (%s: one more dot, "
        "next longer type, time modification 3:2 as find_tuplets writes it, emptied); then every query again: the estimator on every "
        "duration 1..16*divs, find_tie_split of the span, the other notes of the part the dict came from (the note itself too when "
        "it has no stored value), and a fresh copy of the part through add_measures, tie_notes, find_tuplets, fill_rests, "
        "sanitize_part; the dict is put back after each sequence%s" % (
            ALIAS_EDITS, "; dicts that are entries of SYM_COMPOSITE_DURS are left out while the proposed fix "
            "C11-s-composite-alias is pending" if COMPOSITE_ALIAS_PENDING else ""))
    add("result-edit-wide",
        lambda sh: gen_alias([1, 3, 4], [0, 1], ALIAS_SRC_WIDE, ALIAS_EDITS_WIDE, sh), 48,
        "as result-edit with divs {1,3,4}, layouts 44 and 34-24, durations up to 8 quarters, also the notes and rests after "
        "(add_measures, tie_notes) and (add_measures, find_tuplets, fill_rests(global), sanitize_part), edits %s" % (ALIAS_EDITS_WIDE,))
    return sp


TRIGGERS = {}

if __name__ == "__main__":
    import checks.c11 as _m

    run_check(_m)
