"""C12 - pitch, key, duration and time-unit conversions are mutually consistent.

Bounded-exhaustive enumeration of the *inputs* of the conversion functions in
`partitura/utils/music.py`, the constant tables in `partitura/utils/globals.py` and the small
arithmetic properties of `partitura/score.py` (Note.midi_pitch, Note.alter_sign, KeySignature.name,
Tempo.microseconds_per_quarter, Interval, Tuplet.duration_multiplier).  Every value returned by the
real implementation is compared with a reference computed here from first principles
(twelve-tone arithmetic, the line of fifths, exact `Fraction` durations and tick counts).

Sub-spaces (all enumerated completely):
  spelling   steps (upper and lower case) x alter {None,-3..3} x octave -1..9
  notename   every string of the grammar [A-G](#|b|x|##|bb)?[0-9]
  midi       MIDI pitch 0..127 x number form (int, numpy int, float) incl. frequency both ways
  midi-array the 128 pitches as numpy arrays (int64, int32, float64) x four tunings
  keys       fifths -12..12 x every accepted mode spelling + unknown modes x int form
  keynames   the 30 key names of the reference line of fifths
  modes      mode spellings and unknown modes through key_mode_to_int / key_int_to_mode
  clefs      clef signs and codes
  symdur     symbolic type x dots 0..3 x tuplet ratio x divisions
  tempo      tempo unit string (type x dots 0..3) x bpm, incl. Tempo.microseconds_per_quarter
  tuplets    actual type x normal type x (actual, normal) ratios
  intervals  number 1..14 x quality x direction
  ticks      seconds grid k/1000 x ppq x mpq, scalars (int, float, numpy scalar) and arrays
             (float64, int64, int32, 2-D, strided, empty), both directions
  tables     agreement between the independent constant tables
"""
import math
from fractions import Fraction

import numpy as np

from mc.core import CaseResult, Space, run_check, block_of, innermost_partitura_frame, exc_text, Hang

PID = "C12"
RULE = (
    "every input of each conversion is enumerated over the stated alphabet (one case = one input "
    "tuple, or one block of 250 consecutive grid times for the tick conversion); cases are distinct by "
    "construction; non-trivial = the implementation returned a value that was compared with the "
    "reference (a correct rejection of an invalid key/mode/interval also counts)"
)
ASSUMPTIONS = [
    "trusted base: C4 = 60, base pitch classes C D E F G A B = 0 2 4 5 7 9 11, line of fifths F C G D A E B, "
    "note durations long..256th = 16..1/64 quarters, dot multiplier 2 - 2^-dots, A4 = MIDI 69",
    "alter None is read as 0; ensure_pitch_spelling_format may return None or 0 for alter None",
    "the double sharp may be written 'x' or '##' (both are in the grammar); any accidental string with the "
    "right semitone count is accepted in names produced by the implementation",
    "Note.alter_sign is only claimed for alter in {None,-2..2} (documented range); for +-3 an exception or a "
    "correct sign are both accepted",
    "note names with octave -1 have no inverse (the grammar has no minus sign): only the forward direction is checked",
    "a tick value exactly (within 1e-7) half-way between two ticks / microseconds may be rounded either way",
    "unknown modes used for the rejection clause are unambiguous non-modes (church mode names, '', 0, 2, -2, 3, 'foo')",
    "Interval: compound numbers 8..14 are accepted at construction like their simple class (code's reading); an "
    "undefined class (e.g. P3, M4) or direction must not yield a semitone value; semitones is unsigned (direction ignored)",
    "frequency_to_midi_pitch maps a frequency within 40 cents of an equal-tempered pitch to that pitch",
    "tick arrays of dtype int32 are inputs of midi_ticks_to_seconds (performance note arrays store ticks as i4)",
]
CHUNK = 40

# ---------------------------------------------------------------------------------------------
# reference model (first principles; nothing here is read from partitura)

REF_STEPS = "CDEFGAB"
_MAJOR_SCALE = (2, 2, 1, 2, 2, 2)  # whole/half steps C..B
REF_PC = {}
_acc = 0
for _i, _s in enumerate(REF_STEPS):
    REF_PC[_s] = _acc
    if _i < 6:
        _acc += _MAJOR_SCALE[_i]
del _acc, _i, _s

LINE_OF_FIFTHS = "FCGDAEB"

REF_LABEL = {
    "long": Fraction(16), "breve": Fraction(8), "whole": Fraction(4), "half": Fraction(2), "h": Fraction(2),
    "quarter": Fraction(1), "q": Fraction(1), "eighth": Fraction(1, 2), "e": Fraction(1, 2),
    "16th": Fraction(1, 4), "32nd": Fraction(1, 8), "64th": Fraction(1, 16), "128th": Fraction(1, 32),
    "256th": Fraction(1, 64),
}
TYPES = ["long", "breve", "whole", "half", "h", "quarter", "q", "eighth", "e", "16th", "32nd", "64th",
         "128th", "256th"]
CLEF_SIGNS = ["G", "F", "C", "percussion", "TAB", "jianpu", "none"]

PERFECT = {"dd": -2, "d": -1, "P": 0, "A": 1, "AA": 2}
IMPERFECT = {"dd": -3, "d": -2, "m": -1, "M": 0, "A": 1, "AA": 2}


def ref_dot(dots):
    return 2 - Fraction(1, 2 ** dots)


def ref_midi(step, alter, octave):
    return 12 * (octave + 1) + REF_PC[step.upper()] + (alter or 0)


def acc_value(s):
    """semitones of an accidental string; None if it is not one"""
    if s is None:
        return None
    if any(ch not in "#xbsfn" for ch in s):
        return None
    up = s.count("#") + s.count("s") + 2 * s.count("x")
    down = s.count("b") + s.count("f")
    if up and down and "n" not in s:
        return None
    return up - down


def parse_name(name):
    """independent parser of '<STEP><accidentals><octave>' -> (step, alter, octave) or None"""
    if not isinstance(name, str) or len(name) < 2 or name[0] not in REF_STEPS:
        return None
    i = 1
    while i < len(name) and name[i] in "#xb":
        i += 1
    acc, octs = name[1:i], name[i:]
    try:
        octave = int(octs)
    except ValueError:
        return None
    v = acc_value(acc)
    if v is None:
        return None
    return name[0], v, octave


def ref_key_name(fifths, minor):
    p = fifths + (4 if minor else 1)
    letter = LINE_OF_FIFTHS[p % 7]
    acc = p // 7
    return letter + ("#" * acc if acc > 0 else "b" * (-acc)) + ("m" if minor else "")


def ref_tonic_pc(fifths, minor):
    return (7 * fifths + (9 if minor else 0)) % 12


def ref_interval_semitones(number, quality):
    """simple intervals 1..7; None if the class does not exist"""
    g = (number - 1) % 7 + 1
    base = REF_PC[REF_STEPS[g - 1]]
    tab = PERFECT if g in (1, 4, 5) else IMPERFECT
    if quality not in tab:
        return None
    return base + tab[quality] + 12 * ((number - 1) // 7)


def round_readings(x, window=Fraction(1, 10 ** 7)):
    """accepted integer readings of round(x) for an exact Fraction x"""
    lo = math.floor(x)
    fr = x - lo
    if abs(fr - Fraction(1, 2)) <= window:
        return (lo, lo + 1)
    return (lo,) if fr < Fraction(1, 2) else (lo + 1,)


def close(a, ref, rel=1e-9):
    try:
        a = float(a)
    except Exception:
        return False
    r = float(ref)
    return a == a and abs(a - r) <= rel * max(1.0, abs(r))


# self-check of the reference (a failure here is a harness error, not a finding)
assert REF_PC == {"C": 0, "D": 2, "E": 4, "F": 5, "G": 7, "A": 9, "B": 11}
for _f in range(-7, 8):
    for _m in (False, True):
        _n = ref_key_name(_f, _m).rstrip("m") if _m else ref_key_name(_f, _m)
        assert (REF_PC[_n[0]] + acc_value(_n[1:])) % 12 == ref_tonic_pc(_f, _m), (_f, _m, _n)
assert ref_key_name(0, False) == "C" and ref_key_name(0, True) == "Am" and ref_key_name(-7, False) == "Cb"
assert ref_interval_semitones(5, "P") == 7 and ref_interval_semitones(3, "m") == 3 and ref_interval_semitones(7, "M") == 11
assert ref_midi("C", 0, 4) == 60 and ref_midi("a", None, 4) == 69


# ---------------------------------------------------------------------------------------------
# helpers for running the implementation


class Ctx(object):
    def __init__(self, res):
        self.res = res
        self.n = 0
        self.notes = []

    def call(self, clause, fn, *a, **kw):
        """run fn; exception -> violation. returns (ok, value)"""
        self.n += 1
        try:
            return True, fn(*a, **kw)
        except Hang:
            raise
        except Exception as e:  # noqa
            self.res.fail(clause, kind="exception", where=innermost_partitura_frame(e) or getattr(fn, "__name__", ""),
                          observed=exc_text(e), detail="args=%r %r" % (a, kw) if kw else "args=%r" % (a,))
            return False, None

    def rejects(self, clause, fn, *a, **kw):
        """run fn expecting a rejection (any exception). returns (rejected, value)"""
        self.n += 1
        try:
            v = fn(*a, **kw)
        except Hang:
            raise
        except Exception:  # noqa
            return True, None
        return False, v

    def eq(self, clause, observed, expected, where, detail=""):
        ok = False
        try:
            ok = bool(observed == expected)
        except Exception:
            ok = False
        if not ok:
            self.res.fail(clause, expected=expected, observed=observed, where=where, detail=detail)
        return ok

    def among(self, clause, observed, readings, where, detail=""):
        ok = False
        try:
            ok = any(bool(observed == r) for r in readings)
        except Exception:
            ok = False
        if not ok:
            self.res.fail(clause, expected=list(readings), observed=observed, where=where, detail=detail)
        return ok


def is_intlike(v):
    return isinstance(v, (int, np.integer)) and not isinstance(v, bool)


def spelling_eq(got, step, alter, octave, alter_none_ok=False):
    try:
        g_step, g_alter, g_oct = got
    except Exception:
        return False
    if g_step != step:
        return False
    if g_alter is None:
        if not (alter_none_ok and (alter is None or alter == 0)):
            return False
    elif isinstance(g_alter, (str, bool)) or g_alter != (alter or 0):
        return False
    if isinstance(g_oct, (str, bool)) or g_oct is None or g_oct != octave:
        return False
    return True


def num(x, form):
    if form == "int":
        return int(x)
    if form == "float":
        return float(x)
    if form == "npint":
        return np.int64(x)
    if form == "npint32":
        return np.int32(x)
    if form == "npfloat":
        return np.float64(x)
    raise ValueError(form)


# ---------------------------------------------------------------------------------------------
# evaluators


def ev_spelling(case, res, cx):
    import partitura.utils.music as M
    import partitura.score as S

    step, alter, octave = case["step"], case["alter"], case["octave"]
    STEP = step.upper()
    a0 = alter or 0
    midi = ref_midi(step, alter, octave)
    d = "step=%r alter=%r octave=%r" % (step, alter, octave)

    ok, v = cx.call("spelling-to-midi", M.pitch_spelling_to_midi_pitch, step, alter, octave)
    if ok:
        cx.eq("spelling-to-midi", v, midi, "pitch_spelling_to_midi_pitch", d)
    if alter is not None:
        ok, v = cx.call("spelling-to-midi", M.pitch_spelling_to_midi_pitch, step, np.int64(alter), np.int64(octave))
        if ok:
            cx.eq("spelling-to-midi", v, midi, "pitch_spelling_to_midi_pitch(numpy ints)", d)

    # Note.midi_pitch / step normalisation / alter_sign
    ok, note = cx.call("note-midi-pitch", S.Note, step, octave, alter)
    if ok:
        cx.eq("note-step-uppercase", note.step, STEP, "Note.step", d)
        ok, v = cx.call("note-midi-pitch", lambda: note.midi_pitch)
        if ok:
            cx.eq("note-midi-pitch", v, midi, "Note.midi_pitch", d)
        if abs(a0) <= 2:
            ok, v = cx.call("note-alter-sign", lambda: note.alter_sign)
            if ok and not (isinstance(v, str) and all(ch in "#xb" for ch in v) and acc_value(v) == a0):
                res.fail("note-alter-sign", expected="accidental sign worth %d semitone(s)" % a0, observed=v,
                         where="Note.alter_sign", detail=d)
        else:
            rej, v = cx.rejects("note-alter-sign", lambda: note.alter_sign)
            if not rej and not (isinstance(v, str) and all(ch in "#xb" for ch in v) and acc_value(v) == a0):
                res.fail("note-alter-sign", expected="exception or a sign worth %d semitones" % a0, observed=v,
                         where="Note.alter_sign", detail=d)

    # step2pc (documented for upper-case steps and integer alter)
    if step == STEP and alter is not None:
        ok, v = cx.call("step2pc", M.step2pc, step, alter)
        if ok:
            cx.eq("step2pc", v, (REF_PC[STEP] + alter) % 12, "step2pc", d)
            cx.eq("step2pc-agrees-with-midi", v, midi % 12, "step2pc vs pitch_spelling_to_midi_pitch", d)

    # ensure_pitch_spelling_format: numeric alter
    ok, v = cx.call("ensure-format", M.ensure_pitch_spelling_format, step, alter, octave)
    if ok and not spelling_eq(v, STEP, alter, octave, alter_none_ok=True):
        res.fail("ensure-format", expected=[STEP, alter, octave], observed=v, where="ensure_pitch_spelling_format", detail=d)

    # names
    if alter is not None:
        ok, name = cx.call("spelling-to-name", M.pitch_spelling_to_note_name, step, alter, octave)
        if ok:
            p = parse_name(name)
            if p != (STEP, alter, octave):
                res.fail("spelling-to-name", expected="%s with %d semitone accidental, octave %d" % (STEP, alter, octave),
                         observed=name, where="pitch_spelling_to_note_name", detail=d)
            elif octave >= 0:
                ok, v = cx.call("name-inverts-spelling", M.note_name_to_pitch_spelling, name)
                if ok and not spelling_eq(v, STEP, alter, octave):
                    res.fail("name-inverts-spelling", expected=[STEP, alter, octave], observed=v,
                             where="note_name_to_pitch_spelling(pitch_spelling_to_note_name(.))", detail="%s name=%r" % (d, name))
                ok, v = cx.call("name-to-midi", M.note_name_to_midi_pitch, name)
                if ok:
                    cx.eq("name-to-midi", v, midi, "note_name_to_midi_pitch", "%s name=%r" % (d, name))
    res.outcome = "spelling:pc=%d" % (midi % 12)
    res.nontrivial = True


ACC_SYMBOLS = ["", "#", "b", "x", "##", "bb"]


def ev_notename(case, res, cx):
    import partitura.utils.music as M

    name = case["name"]
    step, alter, octave = name[0], acc_value(name[1:-1]), int(name[-1])
    midi = ref_midi(step, alter, octave)
    d = "name=%r" % (name,)
    ok, v = cx.call("name-to-spelling", M.note_name_to_pitch_spelling, name)
    if ok:
        if not spelling_eq(v, step, alter, octave):
            res.fail("name-to-spelling", expected=[step, alter, octave], observed=v, where="note_name_to_pitch_spelling", detail=d)
        else:
            ok, back = cx.call("spelling-inverts-name", M.pitch_spelling_to_note_name, *v)
            if ok and parse_name(back) != (step, alter, octave):
                res.fail("spelling-inverts-name", expected=name, observed=back,
                         where="pitch_spelling_to_note_name(note_name_to_pitch_spelling(.))", detail=d)
            ok, m2 = cx.call("spelling-to-midi", M.pitch_spelling_to_midi_pitch, *v)
            if ok:
                cx.eq("spelling-to-midi", m2, midi, "pitch_spelling_to_midi_pitch(note_name_to_pitch_spelling(.))", d)
    ok, v = cx.call("name-to-midi", M.note_name_to_midi_pitch, name)
    if ok:
        cx.eq("name-to-midi", v, midi, "note_name_to_midi_pitch", d)
        if ok and not is_intlike(v):
            res.fail("name-to-midi", expected="an integer", observed=repr(v), where="note_name_to_midi_pitch", detail=d)
    # the accidental symbol alone, through ensure_pitch_spelling_format
    sym = name[1:-1] or "n"
    for st in (step, step.lower()):
        ok, v = cx.call("ensure-format", M.ensure_pitch_spelling_format, st, sym, octave)
        if ok and not spelling_eq(v, step, alter, octave):
            res.fail("ensure-format", expected=[step, alter, octave], observed=v, where="ensure_pitch_spelling_format",
                     detail="step=%r alter=%r octave=%r" % (st, sym, octave))
    res.outcome = "name:alter=%d" % alter
    res.nontrivial = True


A4S = [440, 415.0, 442.5, 432]


def ref_freq(m, a4):
    return float(a4) * 2.0 ** ((m - 69) / 12.0)


def ev_midi(case, res, cx):
    import partitura.utils.music as M

    m, form = case["m"], case["form"]
    mv = num(m, form)
    d = "midi=%r (%s)" % (m, form)
    if form != "float":
        ok, sp = cx.call("midi-to-spelling", M.midi_pitch_to_pitch_spelling, mv)
        if ok:
            wf = False
            try:
                st, al, oc = sp
                wf = (isinstance(st, str) and st in REF_STEPS and is_intlike(al) and -2 <= al <= 2 and is_intlike(oc))
            except Exception:
                wf = False
            if not wf:
                res.fail("midi-to-spelling", expected="(step in A-G, integer alter in -2..2, integer octave)", observed=sp,
                         where="midi_pitch_to_pitch_spelling", detail=d)
            else:
                if ref_midi(st, int(al), int(oc)) != m:
                    res.fail("midi-to-spelling", expected="a spelling of MIDI pitch %d" % m, observed=sp,
                             where="midi_pitch_to_pitch_spelling", detail=d)
                ok, back = cx.call("spelling-inverts-midi", M.pitch_spelling_to_midi_pitch, st, al, oc)
                if ok:
                    cx.eq("spelling-inverts-midi", back, m, "pitch_spelling_to_midi_pitch(midi_pitch_to_pitch_spelling(.))", d)
                ok, nm = cx.call("spelling-to-name", M.pitch_spelling_to_note_name, st, al, oc)
                if ok and oc >= 0:
                    ok, back = cx.call("name-to-midi", M.note_name_to_midi_pitch, nm)
                    if ok:
                        cx.eq("name-to-midi", back, m, "note_name_to_midi_pitch(name of midi)", "%s name=%r" % (d, nm))
    # frequency
    for a4 in A4S:
        fr = ref_freq(m, a4)
        kw = {} if a4 == 440 and case.get("default_a4") else {"a4": a4}
        ok, f = cx.call("midi-to-frequency", M.midi_pitch_to_frequency, mv, **kw)
        if ok:
            if not close(f, fr):
                res.fail("midi-to-frequency", expected=fr, observed=f, where="midi_pitch_to_frequency", detail="%s a4=%r" % (d, a4))
            else:
                ok, back = cx.call("frequency-inverts-midi", M.frequency_to_midi_pitch, f, **kw)
                if ok:
                    cx.eq("frequency-inverts-midi", back, m, "frequency_to_midi_pitch(midi_pitch_to_frequency(.))", "%s a4=%r" % (d, a4))
                    if not is_intlike(back):
                        res.fail("frequency-to-midi-type", expected="an integer", observed=repr(back),
                                 where="frequency_to_midi_pitch", detail=d)
        for cents in (-40, 0, 40):
            f2 = fr * 2.0 ** (cents / 1200.0)
            for ff in (f2, np.float64(f2)):
                ok, back = cx.call("frequency-to-midi", M.frequency_to_midi_pitch, ff, **kw)
                if ok:
                    cx.eq("frequency-to-midi", back, m, "frequency_to_midi_pitch", "%s a4=%r cents=%d" % (d, a4, cents))
        # integer frequencies (octaves of an integer a4)
        if (m - 69) % 12 == 0 and m >= 69 and float(a4).is_integer():
            fi = int(a4) * 2 ** ((m - 69) // 12)
            ok, back = cx.call("frequency-to-midi", M.frequency_to_midi_pitch, fi, **kw)
            if ok:
                cx.eq("frequency-to-midi", back, m, "frequency_to_midi_pitch(int)", "%s a4=%r freq=%d" % (d, a4, fi))
    res.outcome = "midi:pc=%d" % (m % 12)
    res.nontrivial = True


def ev_midi_array(case, res, cx):
    import partitura.utils.music as M

    dt, a4 = case["dtype"], case["a4"]
    ms = np.arange(128).astype(dt)
    if case.get("shape2d"):
        ms = ms.reshape(8, 16)
    ref = np.array([ref_freq(m, a4) for m in range(128)]).reshape(ms.shape)
    d = "dtype=%s a4=%r shape=%r" % (dt, a4, ms.shape)
    keep = ms.copy()
    ok, f = cx.call("midi-to-frequency-array", M.midi_pitch_to_frequency, ms, a4)
    if ok:
        if not (isinstance(f, np.ndarray) and f.shape == ms.shape and np.all(np.abs(f - ref) <= 1e-9 * np.maximum(1.0, ref))):
            res.fail("midi-to-frequency-array", expected="a4*2^((m-69)/12) elementwise", observed=f,
                     where="midi_pitch_to_frequency(array)", detail=d)
        else:
            for cents in (-40, 0, 40):
                ok, back = cx.call("frequency-to-midi-array", M.frequency_to_midi_pitch, f * 2.0 ** (cents / 1200.0), a4)
                if ok and not (isinstance(back, np.ndarray) and back.shape == ms.shape and back.dtype.kind == "i"
                               and np.array_equal(back, np.arange(128).reshape(ms.shape))):
                    res.fail("frequency-to-midi-array", expected="0..127 as an integer array", observed=back,
                             where="frequency_to_midi_pitch(array)", detail="%s cents=%d" % (d, cents))
    if not np.array_equal(keep, ms):
        res.fail("argument-unchanged", expected="input array untouched", observed=ms, where="midi_pitch_to_frequency", detail=d)
    res.outcome = "midi-array"
    res.nontrivial = True


MODES_MAJOR = ["major", None, "none", 1]
MODES_MINOR = ["minor", -1]
MODES_UNKNOWN = ["dorian", "phrygian", "lydian", "mixolydian", "locrian", "", "foo", 0, 2, -2, 3]


def mode_kind(mode):
    for x in MODES_MAJOR:
        if type(x) is type(mode) and x == mode:
            return "major"
    for x in MODES_MINOR:
        if type(x) is type(mode) and x == mode:
            return "minor"
    return None


def ev_keys(case, res, cx):
    import partitura.utils.music as M
    import partitura.score as S

    f, mode, form = case["fifths"], case["mode"], case["form"]
    fv = num(f, form)
    mv = mode
    if case.get("npmode") and isinstance(mode, int):
        mv = np.int64(mode)
    kind = mode_kind(mode)
    d = "fifths=%r (%s) mode=%r%s" % (f, form, mode, " (numpy)" if mv is not mode else "")
    valid = kind is not None and -7 <= f <= 7
    if valid:
        exp = ref_key_name(f, kind == "minor")
        for label, fn in (("fifths_mode_to_key_name", lambda: M.fifths_mode_to_key_name(fv, mv)),
                          ("KeySignature.name", lambda: S.KeySignature(fv, mv).name)):
            ok, v = cx.call("key-name", fn)
            if ok and cx.eq("key-name", v, exp, label, d):
                ok, back = cx.call("key-name-inverse", M.key_name_to_fifths_mode, v)
                if ok:
                    okk = False
                    try:
                        okk = (back[0] == f and back[1] == kind and len(back) == 2)
                    except Exception:
                        okk = False
                    if not okk:
                        res.fail("key-name-inverse", expected=[f, kind], observed=back,
                                 where="key_name_to_fifths_mode(fifths_mode_to_key_name(.))", detail=d)
        if mode is None and not case.get("npmode"):
            ok, v = cx.call("key-name", M.fifths_mode_to_key_name, fv)
            if ok:
                cx.eq("key-name", v, exp, "fifths_mode_to_key_name(default mode)", d)
        res.outcome = "key:%s" % kind
    else:
        why = "fifths outside -7..7" if kind is not None else "unknown mode"
        for label, fn in (("fifths_mode_to_key_name", lambda: M.fifths_mode_to_key_name(fv, mv)),
                          ("KeySignature.name", lambda: S.KeySignature(fv, mv).name)):
            rej, v = cx.rejects("key-rejected", fn)
            if not rej:
                res.fail("key-rejected", expected="an exception (%s)" % why, observed=v, where=label, detail=d)
        res.outcome = "key:rejected:%s" % why
    res.nontrivial = True


def ev_keyname(case, res, cx):
    import partitura.utils.music as M

    f, minor = case["fifths"], case["minor"]
    name = ref_key_name(f, minor)
    kind = "minor" if minor else "major"
    d = "name=%r" % (name,)
    ok, v = cx.call("key-name-to-fifths-mode", M.key_name_to_fifths_mode, name)
    if ok:
        okk = False
        try:
            okk = (len(v) == 2 and v[0] == f and v[1] == kind and is_intlike(v[0]))
        except Exception:
            okk = False
        if not okk:
            res.fail("key-name-to-fifths-mode", expected=[f, kind], observed=v, where="key_name_to_fifths_mode", detail=d)
        else:
            ok, back = cx.call("key-fifths-inverse", M.fifths_mode_to_key_name, v[0], v[1])
            if ok:
                cx.eq("key-fifths-inverse", back, name, "fifths_mode_to_key_name(key_name_to_fifths_mode(.))", d)
    res.outcome = "keyname:%s" % kind
    res.nontrivial = True


def ev_mode(case, res, cx):
    import partitura.utils.music as M

    mode = case["mode"]
    mv = np.int64(mode) if case.get("npmode") and isinstance(mode, int) else mode
    kind = mode_kind(mode)
    d = "mode=%r%s" % (mode, " (numpy)" if mv is not mode else "")
    if kind is None:
        for fn in (M.key_mode_to_int, M.key_int_to_mode):
            rej, v = cx.rejects("mode-rejected", fn, mv)
            if not rej:
                res.fail("mode-rejected", expected="an exception (unknown mode)", observed=v, where=fn.__name__, detail=d)
        res.outcome = "mode:rejected"
    else:
        code = 1 if kind == "major" else -1
        ok, v = cx.call("mode-to-int", M.key_mode_to_int, mv)
        if ok:
            if not (is_intlike(v) and v == code):
                res.fail("mode-to-int", expected=code, observed=v, where="key_mode_to_int", detail=d)
            else:
                ok, back = cx.call("mode-decodes", M.key_int_to_mode, v)
                if ok:
                    cx.eq("mode-decodes", back, kind, "key_int_to_mode(key_mode_to_int(.))", d)
        ok, v = cx.call("int-to-mode", M.key_int_to_mode, mv)
        if ok:
            if cx.eq("int-to-mode", v, kind, "key_int_to_mode", d):
                ok, back = cx.call("mode-encodes", M.key_mode_to_int, v)
                if ok:
                    cx.eq("mode-encodes", back, code, "key_mode_to_int(key_int_to_mode(.))", d)
        res.outcome = "mode:%s" % kind
    res.nontrivial = True


def ev_clef(case, res, cx):
    import partitura.utils.music as M

    if "sign" in case:
        sign = case["sign"]
        d = "sign=%r" % (sign,)
        ok, code = cx.call("clef-encode", M.clef_sign_to_int, sign)
        if ok:
            if not is_intlike(code):
                res.fail("clef-encode", expected="an integer code", observed=repr(code), where="clef_sign_to_int", detail=d)
            else:
                ok, back = cx.call("clef-decodes", M.clef_int_to_sign, code)
                if ok:
                    cx.eq("clef-decodes", back, sign, "clef_int_to_sign(clef_sign_to_int(.))", d)
                ok, back = cx.call("clef-decodes", M.clef_int_to_sign, np.int64(code))
                if ok:
                    cx.eq("clef-decodes", back, sign, "clef_int_to_sign(numpy int)", d)
                # codes are distinct
                others = []
                for s2 in CLEF_SIGNS:
                    if s2 != sign:
                        ok, c2 = cx.call("clef-encode", M.clef_sign_to_int, s2)
                        if ok:
                            others.append(c2)
                if code in others:
                    res.fail("clef-codes-distinct", expected="a code of its own", observed=code, where="clef_sign_to_int", detail=d)
        res.outcome = "clef:sign"
    else:
        code = case["code"]
        d = "code=%r" % (code,)
        ok, sign = cx.call("clef-decode", M.clef_int_to_sign, code)
        if ok:
            if sign not in CLEF_SIGNS:
                res.fail("clef-decode", expected="one of %r" % (CLEF_SIGNS,), observed=sign, where="clef_int_to_sign", detail=d)
            else:
                ok, back = cx.call("clef-encodes", M.clef_sign_to_int, sign)
                if ok:
                    cx.eq("clef-encodes", back, code, "clef_sign_to_int(clef_int_to_sign(.))", d)
        res.outcome = "clef:code"
    res.nontrivial = True


RATIOS_SYM = [None, [3, 2], [2, 3], [5, 4], [6, 4], [7, 4], [7, 8], [4, 3], [9, 8]]
DIVS = [1, 2, 4, 6, 12, 480]


def ev_symdur(case, res, cx):
    import partitura.utils.music as M

    typ, dots, ratio, divs, form = case["type"], case["dots"], case["ratio"], case["divs"], case["form"]
    sym = {"type": typ}
    if form == "full":
        sym["dots"] = dots
        sym["actual_notes"] = ratio[0] if ratio else None
        sym["normal_notes"] = ratio[1] if ratio else None
    else:  # minimal dictionary: keys only when needed
        if dots:
            sym["dots"] = dots
        if ratio:
            sym["actual_notes"], sym["normal_notes"] = ratio
    exp = divs * REF_LABEL[typ] * ref_dot(dots)
    if ratio:
        exp = exp * Fraction(ratio[1], ratio[0])
    keep = dict(sym)
    d = "sym=%r divs=%d" % (sym, divs)
    ok, v = cx.call("symbolic-duration", M.symbolic_to_numeric_duration, sym, divs)
    if ok and not close(v, exp):
        res.fail("symbolic-duration", expected=exp, observed=v, where="symbolic_to_numeric_duration", detail=d)
    if sym != keep:
        res.fail("argument-unchanged", expected=keep, observed=sym, where="symbolic_to_numeric_duration", detail=d)
    res.outcome = "symdur:dots=%d:%s" % (dots, "tuplet" if ratio else "plain")
    res.nontrivial = True


BPMS = [1, 30, 60, 72, 100, 120, 144, 208, 66.5, 92.25]


def ev_tempo(case, res, cx):
    import partitura.utils.music as M
    import partitura.score as S

    typ, dots, bpm = case["type"], case["dots"], case["bpm"]
    unit = None if typ is None else typ + "." * dots
    bq = Fraction(bpm) * (REF_LABEL[typ] * ref_dot(dots) if typ is not None else 1)
    d = "unit=%r bpm=%r" % (unit, bpm)
    if unit is not None:
        ok, v = cx.call("quarter-tempo", M.to_quarter_tempo, unit, bpm)
        if ok:
            if not close(v, bq):
                res.fail("quarter-tempo", expected=bq, observed=v, where="to_quarter_tempo", detail=d)
            elif not isinstance(v, float):
                res.fail("quarter-tempo", expected="a float", observed=repr(v), where="to_quarter_tempo", detail=d)
    readings = round_readings(Fraction(60 * 10 ** 6) / bq, window=Fraction(1, 10 ** 5))
    ctor = (lambda: S.Tempo(bpm, unit)) if not case.get("default_unit") else (lambda: S.Tempo(bpm))
    ok, t = cx.call("tempo-mpq", ctor)
    if ok:
        ok, v = cx.call("tempo-mpq", lambda: t.microseconds_per_quarter)
        if ok:
            if cx.among("tempo-mpq", v, readings, "Tempo.microseconds_per_quarter", d) and not is_intlike(v):
                res.fail("tempo-mpq", expected="an integer", observed=repr(v), where="Tempo.microseconds_per_quarter", detail=d)
    res.outcome = "tempo:dots=%d" % dots
    res.nontrivial = True


TUPLET_ACTUAL = list(range(2, 13))
TUPLET_NORMAL = list(range(1, 9))


def ev_tuplet(case, res, cx):
    import partitura.score as S

    at, nt, a = case["actual_type"], case["normal_type"], case["actual"]
    for n in TUPLET_NORMAL:
        d = "actual=%d %r normal=%d %r" % (a, at, n, nt)
        exp = Fraction(n, a)
        if at is not None:
            exp = exp * REF_LABEL[nt] / REF_LABEL[at]
        ok, tp = cx.call("tuplet-multiplier", S.Tuplet, None, None, a, n, at, nt)
        if not ok:
            continue
        ok, v = cx.call("tuplet-multiplier", lambda: tp.duration_multiplier)
        if ok:
            good = False
            try:
                good = (Fraction(v) == exp) if isinstance(v, (int, Fraction)) else False
            except Exception:
                good = False
            if not good:
                res.fail("tuplet-multiplier", expected=exp, observed=v, where="Tuplet.duration_multiplier", detail=d)
    res.states = len(TUPLET_NORMAL)
    res.traces = len(TUPLET_NORMAL)
    res.outcome = "tuplet:%s" % ("same-type" if at == nt else "mixed-type")
    res.nontrivial = True


QUALITIES = ["dd", "d", "m", "M", "P", "A", "AA", "X", ""]
DIRECTIONS = ["up", "down", "sideways"]


def ev_interval(case, res, cx):
    import partitura.score as S

    n, q, direction = case["number"], case["quality"], case["direction"]
    d = "number=%d quality=%r direction=%r" % (n, q, direction)
    ref = ref_interval_semitones(n, q)
    valid = ref is not None and direction in ("up", "down")
    mk = (lambda: S.Interval(n, q)) if case.get("default_direction") else (lambda: S.Interval(n, q, direction))
    if valid:
        ok, iv = cx.call("interval-accepted", mk)
        if ok:
            cx.eq("interval-fields", (iv.number, iv.quality, iv.direction), (n, q, direction), "Interval", d)
            ok2, _ = cx.call("interval-accepted", iv.validate)
            if n <= 7:
                ok, v = cx.call("interval-semitones", lambda: iv.semitones)
                if ok:
                    okv = False
                    try:
                        okv = is_intlike(v) and abs(int(v)) == abs(ref) and (direction == "down" or v == ref)
                    except Exception:
                        okv = False
                    if not okv:
                        res.fail("interval-semitones", expected=ref, observed=v, where="Interval.semitones", detail=d)
                res.outcome = "interval:semitones=%d" % ref
            else:
                res.outcome = "interval:compound-accepted"
    else:
        # an undefined class/direction must not produce a size
        def size():
            return S.Interval(n, q, direction).semitones

        rej, v = cx.rejects("interval-rejected", size)
        if not rej:
            res.fail("interval-rejected", expected="an exception (no such interval class or direction)", observed=v,
                     where="Interval", detail=d)
        res.outcome = "interval:rejected"
    res.nontrivial = True


BLOCK = 250


def ev_ticks(case, res, cx):
    import partitura.utils.music as M

    ppq, mpq, lo, hi, pform = case["ppq"], case["mpq"], case["lo"], case["hi"], case["pform"]
    P, Q = num(ppq, pform), num(mpq, pform)
    ks = list(range(lo, hi))
    ctxd = "ppq=%r mpq=%r (%s)" % (ppq, mpq, pform)
    n_states = 0
    exp_ticks = []
    for k in ks:
        x = Fraction(10 ** 6 * ppq * k, 1000 * mpq)
        exp_ticks.append(round_readings(x))

    def check_tick(v, readings, label, d, want_py=True):
        if isinstance(v, bool) or not is_intlike(v):
            res.fail("seconds-to-ticks-type", expected="an integer", observed=repr(v), where=label, detail=d)
            return None
        if not any(v == r for r in readings):
            res.fail("seconds-to-ticks", expected=list(readings), observed=v, where=label, detail=d)
            return None
        return int(v)

    # --- scalars
    for k, readings in zip(ks, exp_ticks):
        n_states += 1
        forms = [("float", k / 1000.0), ("npfloat", np.float64(k / 1000.0))]
        if k % 1000 == 0:
            forms += [("int", k // 1000), ("npint", np.int64(k // 1000))]
        j = None
        for fname, t in forms:
            d = "%s t=%r (%s)" % (ctxd, t, fname)
            ok, v = cx.call("seconds-to-ticks", M.seconds_to_midi_ticks, t, Q, P)
            if ok:
                r = check_tick(v, readings, "seconds_to_midi_ticks", d)
                if r is not None and j is None:
                    j = r
            if len(res.violations) >= 8:
                break
        if k % 50 == 0:
            ok, v = cx.call("seconds-to-ticks", M.seconds_to_midi_ticks, k / 1000.0, mpq=Q, ppq=P)
            if ok:
                check_tick(v, readings, "seconds_to_midi_ticks(keywords)", "%s t=%r" % (ctxd, k / 1000.0))
            ok, v = cx.call("seconds-to-ticks", M.seconds_to_midi_ticks, t=k / 1000.0, mpq=Q, ppq=P)
            if ok:
                check_tick(v, readings, "seconds_to_midi_ticks(t=...)", "%s t=%r" % (ctxd, k / 1000.0))
            if (ppq, mpq) == (480, 500000):
                ok, v = cx.call("seconds-to-ticks", M.seconds_to_midi_ticks, k / 1000.0)
                if ok:
                    check_tick(v, readings, "seconds_to_midi_ticks(defaults)", "t=%r" % (k / 1000.0,))
        # and back
        if j is None:
            j = readings[0]
        sec_ref = Fraction(j * mpq, 10 ** 6 * ppq)
        half_tick = Fraction(mpq, 2 * 10 ** 6 * ppq)
        for fname, jv in (("int", j), ("npint", np.int64(j)), ("npint32", np.int32(j)), ("float", float(j))):
            d = "%s ticks=%r (%s)" % (ctxd, j, fname)
            ok, s = cx.call("ticks-to-seconds", M.midi_ticks_to_seconds, jv, Q, P)
            if not ok:
                continue
            if isinstance(s, (bool, str)) or not isinstance(s, (float, np.floating)):
                res.fail("ticks-to-seconds-type", expected="a float", observed=repr(s), where="midi_ticks_to_seconds", detail=d)
                continue
            if not close(s, sec_ref):
                res.fail("ticks-to-seconds", expected=sec_ref, observed=s, where="midi_ticks_to_seconds", detail=d)
                continue
            if abs(Fraction(float(s)) - Fraction(k, 1000)) > half_tick * (1 + Fraction(1, 10 ** 6)) + Fraction(1, 10 ** 12):
                res.fail("ticks-and-back", expected="within half a tick of %r s" % (k / 1000.0,), observed=s,
                         where="midi_ticks_to_seconds(seconds_to_midi_ticks(.))", detail=d)
            ok, j2 = cx.call("seconds-inverts-ticks", M.seconds_to_midi_ticks, s, Q, P)
            if ok:
                cx.eq("seconds-inverts-ticks", j2, j, "seconds_to_midi_ticks(midi_ticks_to_seconds(.))", d)
        if (ppq, mpq) == (480, 500000) and k % 50 == 0:
            ok, s = cx.call("ticks-to-seconds", M.midi_ticks_to_seconds, j)
            if ok and not close(s, sec_ref):
                res.fail("ticks-to-seconds", expected=sec_ref, observed=s, where="midi_ticks_to_seconds(defaults)", detail="ticks=%r" % j)
        if len(res.violations) >= 8:
            break

    # --- arrays
    def check_tick_array(arr_in, out, readings_list, label, d):
        if not isinstance(out, np.ndarray) or out.dtype.kind != "i":
            res.fail("seconds-to-ticks-array-type", expected="integer numpy array", observed=repr(out)[:200], where=label, detail=d)
            return False
        if out.shape != arr_in.shape:
            res.fail("seconds-to-ticks-array", expected="shape %r" % (arr_in.shape,), observed="shape %r" % (out.shape,), where=label, detail=d)
            return False
        flat = out.ravel().tolist()
        bad = [(i, v) for i, (v, rd) in enumerate(zip(flat, readings_list)) if v not in rd]
        if bad:
            i, v = bad[0]
            res.fail("seconds-to-ticks-array", expected=list(readings_list[i]), observed=v, where=label,
                     detail="%s element %d of %d (%d wrong)" % (d, i, len(flat), len(bad)))
            return False
        return True

    tf = np.array([k / 1000.0 for k in ks], dtype=float)
    arrays = [("float64", tf, exp_ticks)]
    if len(ks) % 2 == 0 and len(ks) >= 4:
        arrays.append(("float64-2d", tf.reshape(2, -1), exp_ticks))
    arrays.append(("float64-strided", tf[::3], exp_ticks[::3]))
    arrays.append(("empty", np.array([], dtype=float), []))
    ki = [k for k in ks if k % 1000 == 0]
    if ki:
        ei = [exp_ticks[k - lo] for k in ki]
        arrays.append(("int64", np.array([k // 1000 for k in ki], dtype=np.int64), ei))
        arrays.append(("int32", np.array([k // 1000 for k in ki], dtype=np.int32), ei))
    for aname, arr, rd in arrays:
        keep = arr.copy()
        d = "%s array=%s[%d] seconds %r..%r" % (ctxd, aname, arr.size, lo / 1000.0, (hi - 1) / 1000.0)
        ok, out = cx.call("seconds-to-ticks-array", M.seconds_to_midi_ticks, arr, Q, P)
        if ok:
            check_tick_array(arr, out, rd, "seconds_to_midi_ticks(array)", d)
        if not np.array_equal(keep, arr):
            res.fail("argument-unchanged", expected="input array untouched", observed="changed", where="seconds_to_midi_ticks", detail=d)
    ok, out = cx.call("seconds-to-ticks-array", M.seconds_to_midi_ticks, t=tf, mpq=Q, ppq=P)
    if ok:
        check_tick_array(tf, out, exp_ticks, "seconds_to_midi_ticks(t=array)", ctxd)

    js = [rd[0] for rd in exp_ticks]
    sec_refs = [float(Fraction(j * mpq, 10 ** 6 * ppq)) for j in js]
    tick_arrays = [("int64", np.array(js, dtype=np.int64)), ("int32", np.array(js, dtype=np.int32)),
                   ("float64", np.array(js, dtype=float)), ("int64-strided", np.array(js, dtype=np.int64)[::3]),
                   ("empty", np.array([], dtype=np.int64))]
    if len(js) % 2 == 0 and len(js) >= 4:
        tick_arrays.append(("int32-2d", np.array(js, dtype=np.int32).reshape(2, -1)))
    for aname, arr in tick_arrays:
        keep = arr.copy()
        refs = np.array(sec_refs[::3] if aname.endswith("strided") else ([] if aname == "empty" else sec_refs), dtype=float).reshape(arr.shape)
        d = "%s array=%s[%d] ticks %r..%r" % (ctxd, aname, arr.size, js[0] if js else None, js[-1] if js else None)
        ok, out = cx.call("ticks-to-seconds-array", M.midi_ticks_to_seconds, arr, Q, P)
        if ok:
            if not isinstance(out, np.ndarray) or out.dtype.kind != "f" or out.shape != arr.shape:
                res.fail("ticks-to-seconds-array-type", expected="float array of shape %r" % (arr.shape,), observed=repr(out)[:200],
                         where="midi_ticks_to_seconds(array)", detail=d)
            else:
                err = np.abs(out.astype(float) - refs) > 1e-9 * np.maximum(1.0, np.abs(refs))
                if err.any():
                    i = int(np.flatnonzero(err.ravel())[0])
                    res.fail("ticks-to-seconds-array", expected=float(refs.ravel()[i]), observed=float(out.ravel()[i]),
                             where="midi_ticks_to_seconds(array)",
                             detail="%s element %d: ticks=%r (%d wrong)" % (d, i, arr.ravel()[i].item(), int(err.sum())))
                else:
                    ok, back = cx.call("seconds-inverts-ticks-array", M.seconds_to_midi_ticks, out, Q, P)
                    if ok and not (isinstance(back, np.ndarray) and back.shape == arr.shape and np.array_equal(back, arr.astype(np.int64))):
                        res.fail("seconds-inverts-ticks-array", expected=arr, observed=back,
                                 where="seconds_to_midi_ticks(midi_ticks_to_seconds(array))", detail=d)
        if not np.array_equal(keep, arr):
            res.fail("argument-unchanged", expected="input array untouched", observed="changed", where="midi_ticks_to_seconds", detail=d)

    res.states = max(1, n_states)
    res.traces = max(1, n_states)
    nt = sum(1 for rd in exp_ticks if len(rd) > 1)
    res.outcome = "ticks:%s:ties=%s" % (pform, "yes" if nt else "no")
    res.nontrivial = True


# --------------------------------------------------------------------------------------------- tables

TABLE_CHECKS = [
    "base-pitch-classes", "step-order", "dummy-spelling", "alter-signs", "sign-to-alter", "alt-int", "key-lists",
    "keys-table", "interval-table", "label-durs", "dot-multipliers", "durs-sym-durs", "straight-durs",
    "symbolic-int-durs", "clef-tables",
]


def ev_table(case, res, cx):
    import partitura.utils.globals as G
    import partitura.utils.music as M

    name = case["table"]
    cx.n += 1

    def bad(exp, obs, where, detail=""):
        res.fail("tables-agree:" + name, expected=exp, observed=obs, where=where, detail=detail)

    if name == "base-pitch-classes":
        if dict(G.BASE_PC) != REF_PC:
            bad(REF_PC, dict(G.BASE_PC), "globals.BASE_PC")
        if dict(G.MIDI_BASE_CLASS) != {k.lower(): v for k, v in REF_PC.items()}:
            bad({k.lower(): v for k, v in REF_PC.items()}, dict(G.MIDI_BASE_CLASS), "globals.MIDI_BASE_CLASS")
        for s in REF_STEPS:
            if G.BASE_PC.get(s) != G.MIDI_BASE_CLASS.get(s.lower()):
                bad("BASE_PC[%s] == MIDI_BASE_CLASS[%s]" % (s, s.lower()), [G.BASE_PC.get(s), G.MIDI_BASE_CLASS.get(s.lower())],
                    "BASE_PC vs MIDI_BASE_CLASS")
    elif name == "step-order":
        exp = {}
        for i, s in enumerate(REF_STEPS):
            exp[s] = i
            exp[i] = s
        if dict(G.STEPS) != exp:
            bad(exp, dict(G.STEPS), "globals.STEPS")
        else:
            pcs = [G.BASE_PC[G.STEPS[i]] for i in range(7)]
            if pcs != sorted(pcs):
                bad("base pitch classes increase with the step index", pcs, "STEPS vs BASE_PC")
    elif name == "dummy-spelling":
        if sorted(G.DUMMY_PS_BASE_CLASS) != list(range(12)):
            bad(list(range(12)), sorted(G.DUMMY_PS_BASE_CLASS), "globals.DUMMY_PS_BASE_CLASS")
        for pc, (st, al) in sorted(G.DUMMY_PS_BASE_CLASS.items()):
            if st.upper() not in REF_PC or (REF_PC[st.upper()] + al) % 12 != pc or abs(al) > 2:
                bad("a spelling of pitch class %d" % pc, [st, al], "globals.DUMMY_PS_BASE_CLASS")
            elif G.MIDI_BASE_CLASS.get(st.lower(), -99) + al != pc:
                bad("MIDI_BASE_CLASS[step]+alter == %d" % pc, [st, al], "DUMMY_PS_BASE_CLASS vs MIDI_BASE_CLASS")
    elif name == "alter-signs":
        for al in (None, 0, 1, 2, -1, -2):
            sg = G.ALTER_SIGNS.get(al, "missing")
            if not (isinstance(sg, str) and all(ch in "#xb" for ch in sg) and acc_value(sg) == (al or 0)):
                bad("sign worth %r" % (al or 0), sg, "globals.ALTER_SIGNS[%r]" % (al,))
        for al, sg in G.ALTER_SIGNS.items():
            if acc_value(sg) != (al or 0):
                bad("sign worth %r" % (al or 0), sg, "globals.ALTER_SIGNS[%r]" % (al,))
    elif name == "sign-to-alter":
        for sg, al in sorted(M.SIGN_TO_ALTER.items()):
            exp = None if sg == "-" else acc_value(sg)
            if al != exp or (exp is None and sg != "-"):
                bad(exp, al, "music.SIGN_TO_ALTER[%r]" % sg)
        for sg in ("n", "#", "x", "##", "b", "bb", "###", "bbb"):
            if sg not in M.SIGN_TO_ALTER:
                bad("entry for %r" % sg, "missing", "music.SIGN_TO_ALTER")
        # agreement with ALTER_SIGNS (decode what the other table encodes)
        for al, sg in G.ALTER_SIGNS.items():
            if M.SIGN_TO_ALTER.get(sg or "n") != (al or 0):
                bad(al or 0, M.SIGN_TO_ALTER.get(sg or "n"), "SIGN_TO_ALTER[ALTER_SIGNS[%r]]" % (al,))
    elif name == "alt-int":
        for sg, al in sorted(G.ALT_TO_INT.items()):
            exp = sg.count("#") - sg.count("-") - sg.count("b")
            if al != exp:
                bad(exp, al, "globals.ALT_TO_INT[%r]" % sg)
        for al in range(-2, 3):
            sg = G.INT_TO_ALT.get(al)
            if sg is None or G.ALT_TO_INT.get(sg) != al:
                bad(al, [sg, G.ALT_TO_INT.get(sg)], "ALT_TO_INT[INT_TO_ALT[%d]]" % al)
    elif name == "key-lists":
        exp_maj = [ref_key_name(f, False) for f in range(-7, 8)]
        exp_min = [ref_key_name(f, True)[:-1] for f in range(-7, 8)]
        if list(G.MAJOR_KEYS) != exp_maj:
            bad(exp_maj, list(G.MAJOR_KEYS), "globals.MAJOR_KEYS")
        if list(G.MINOR_KEYS) != exp_min:
            bad(exp_min, list(G.MINOR_KEYS), "globals.MINOR_KEYS")
        for lst, minor, nm in ((G.MAJOR_KEYS, False, "MAJOR_KEYS"), (G.MINOR_KEYS, True, "MINOR_KEYS")):
            for i, k in enumerate(lst):
                try:
                    pc = (G.BASE_PC[k[0]] + acc_value(k[1:])) % 12
                except Exception:
                    pc = None
                if pc != ref_tonic_pc(i - 7, minor):
                    bad("tonic pitch class %d" % ref_tonic_pc(i - 7, minor), k, "globals.%s[%d] via BASE_PC" % (nm, i))
    elif name == "keys-table":
        seen = set()
        for root, mode, fifths in G.KEYS:
            seen.add((root, mode))
            if mode not in ("major", "minor") or not (-7 <= fifths <= 7) or ref_key_name(fifths, mode == "minor").rstrip("m") != root:
                bad("(root, mode, fifths) on the line of fifths", [root, mode, fifths], "globals.KEYS")
                continue
            ok, v = cx.call("tables-agree:keys-table", M.fifths_mode_to_key_name, fifths, mode)
            if ok and v != root + ("m" if mode == "minor" else ""):
                bad(root + ("m" if mode == "minor" else ""), v, "fifths_mode_to_key_name vs globals.KEYS")
        if len(seen) != len(G.KEYS) or len(G.KEYS) != 24:
            bad("24 distinct keys", len(seen), "globals.KEYS")
        pcs = sorted((ref_tonic_pc(f, m == "minor"), m) for _, m, f in G.KEYS)
        if pcs != sorted((pc, m) for pc in range(12) for m in ("major", "minor")):
            bad("every pitch class once per mode", pcs, "globals.KEYS")
    elif name == "interval-table":
        exp = {}
        for g in range(1, 8):
            tab = PERFECT if g in (1, 4, 5) else IMPERFECT
            for q in tab:
                exp["%s%d" % (q, g)] = ref_interval_semitones(g, q)
        if len(exp) != 39:
            raise AssertionError("reference interval table")
        if sorted(G.INTERVALCLASSES) != sorted(exp) or len(G.INTERVALCLASSES) != 39:
            bad(sorted(exp), sorted(G.INTERVALCLASSES), "globals.INTERVALCLASSES")
        if dict(G.INTERVAL_TO_SEMITONES) != exp:
            diff = {k: [exp.get(k), G.INTERVAL_TO_SEMITONES.get(k)] for k in sorted(set(exp) | set(G.INTERVAL_TO_SEMITONES))
                    if exp.get(k) != G.INTERVAL_TO_SEMITONES.get(k)}
            bad("expected/observed per class", diff, "globals.INTERVAL_TO_SEMITONES")
        # agreement with step order and base pitch classes: C up n-1 steps
        for k, v in G.INTERVAL_TO_SEMITONES.items():
            q, g = k[:-1], int(k[-1])
            tab = PERFECT if g in (1, 4, 5) else IMPERFECT
            try:
                viastep = G.BASE_PC[G.STEPS[g - 1]] + tab[q]
            except Exception:
                viastep = None
            if viastep != v:
                bad(viastep, v, "INTERVAL_TO_SEMITONES[%s] vs STEPS/BASE_PC" % k)
    elif name == "label-durs":
        if sorted(G.LABEL_DURS) != sorted(REF_LABEL):
            bad(sorted(REF_LABEL), sorted(G.LABEL_DURS), "globals.LABEL_DURS keys")
        for k, v in G.LABEL_DURS.items():
            if k in REF_LABEL and Fraction(v) != REF_LABEL[k]:
                bad(REF_LABEL[k], v, "globals.LABEL_DURS[%r]" % k)
    elif name == "dot-multipliers":
        if len(G.DOT_MULTIPLIERS) < 4:
            bad("at least 4 entries", len(G.DOT_MULTIPLIERS), "globals.DOT_MULTIPLIERS")
        for i, v in enumerate(G.DOT_MULTIPLIERS):
            if Fraction(v) != ref_dot(i):
                bad(ref_dot(i), v, "globals.DOT_MULTIPLIERS[%d]" % i)
    elif name == "durs-sym-durs":
        if len(G.DURS) != len(G.SYM_DURS):
            bad("equal lengths", [len(G.DURS), len(G.SYM_DURS)], "DURS vs SYM_DURS")
        seen = set()
        for i, (v, sd) in enumerate(zip(G.DURS.tolist(), G.SYM_DURS)):
            t, dts = sd.get("type"), sd.get("dots")
            seen.add((t, dts))
            if t not in REF_LABEL or dts not in (0, 1, 2, 3) or Fraction(v) != REF_LABEL[t] * ref_dot(dts):
                bad("DURS[%d] = value of %r" % (i, sd), v, "DURS vs SYM_DURS")
        if list(G.DURS) != sorted(G.DURS):
            bad("non-decreasing", "unsorted", "globals.DURS")
        want = set((t, dd) for t in TYPES for dd in range(4))
        if seen != want:
            bad("every type x dots 0..3", sorted(want - seen) + sorted(seen - want), "globals.SYM_DURS")
    elif name == "straight-durs":
        if len(G.STRAIGHT_DURS) != len(G.SYM_STRAIGHT_DURS):
            bad("equal lengths", [len(G.STRAIGHT_DURS), len(G.SYM_STRAIGHT_DURS)], "STRAIGHT_DURS vs SYM_STRAIGHT_DURS")
        for i, (v, sd) in enumerate(zip(G.STRAIGHT_DURS.tolist(), G.SYM_STRAIGHT_DURS)):
            t = sd.get("type")
            if t not in REF_LABEL or sd.get("dots") != 0 or Fraction(v) != REF_LABEL[t]:
                bad("STRAIGHT_DURS[%d] = value of %r" % (i, sd), v, "STRAIGHT_DURS vs SYM_STRAIGHT_DURS")
        if list(G.STRAIGHT_DURS) != sorted(G.STRAIGHT_DURS):
            bad("increasing", "unsorted", "globals.STRAIGHT_DURS")
    elif name == "symbolic-int-durs":
        for k, v in G.SYMBOLIC_TO_INT_DURS.items():
            if k not in REF_LABEL or Fraction(v) * REF_LABEL[k] != 4:
                bad("4 / duration in quarters", v, "globals.SYMBOLIC_TO_INT_DURS[%r]" % k)
        for k, v in G.MEI_DURS_TO_SYMBOLIC.items():
            if v not in G.SYMBOLIC_TO_INT_DURS:
                bad("a symbolic type", v, "globals.MEI_DURS_TO_SYMBOLIC[%r]" % k)
            elif k.isdigit() and k != "0" and Fraction(G.SYMBOLIC_TO_INT_DURS[v]) != int(k):
                bad(int(k), G.SYMBOLIC_TO_INT_DURS[v], "MEI_DURS_TO_SYMBOLIC[%r] vs SYMBOLIC_TO_INT_DURS" % k)
    elif name == "clef-tables":
        if sorted(G.CLEF_TO_INT) != sorted(CLEF_SIGNS):
            bad(sorted(CLEF_SIGNS), sorted(G.CLEF_TO_INT), "globals.CLEF_TO_INT keys")
        if len(set(G.CLEF_TO_INT.values())) != len(G.CLEF_TO_INT):
            bad("distinct codes", sorted(G.CLEF_TO_INT.values()), "globals.CLEF_TO_INT")
        for s, c in G.CLEF_TO_INT.items():
            if G.INT_TO_CLEF.get(c) != s:
                bad(s, G.INT_TO_CLEF.get(c), "INT_TO_CLEF[CLEF_TO_INT[%r]]" % s)
        if len(G.INT_TO_CLEF) != len(G.CLEF_TO_INT):
            bad(len(G.CLEF_TO_INT), len(G.INT_TO_CLEF), "globals.INT_TO_CLEF size")
    else:
        raise ValueError(name)
    res.outcome = "table:" + name
    res.nontrivial = True


EVAL = {
    "spelling": ev_spelling, "notename": ev_notename, "midi": ev_midi, "midi-array": ev_midi_array, "keys": ev_keys,
    "keyname": ev_keyname, "mode": ev_mode, "clef": ev_clef, "symdur": ev_symdur, "tempo": ev_tempo,
    "tuplet": ev_tuplet, "interval": ev_interval, "ticks": ev_ticks, "table": ev_table,
}


def eval_case(case):
    res = CaseResult(states=1, transitions=0, traces=1)
    res.nontrivial = False
    cx = Ctx(res)
    EVAL[case["k"]](case, res, cx)
    res.transitions = cx.n
    if res.violations:
        res.outcome = "violation:" + case["k"]
    return res


# --------------------------------------------------------------------------------------------- spaces


def _spelling_cases():
    for step in list(REF_STEPS) + [s.lower() for s in REF_STEPS]:
        for alter in [None, -3, -2, -1, 0, 1, 2, 3]:
            for octave in range(-1, 10):
                yield dict(k="spelling", step=step, alter=alter, octave=octave)


def _notename_cases():
    for step in REF_STEPS:
        for acc in ACC_SYMBOLS:
            for octave in range(10):
                yield dict(k="notename", name="%s%s%d" % (step, acc, octave))


def _midi_cases():
    for form in ("int", "npint", "npint32", "float"):
        for m in range(128):
            c = dict(k="midi", m=m, form=form)
            if form == "int":
                c["default_a4"] = True
            yield c


def _midi_array_cases():
    for dt in ("int64", "int32", "float64"):
        for a4 in A4S:
            yield dict(k="midi-array", dtype=dt, a4=a4)
    yield dict(k="midi-array", dtype="int64", a4=440, shape2d=True)


def _keys_cases():
    for f in range(-12, 13):
        for mode in MODES_MAJOR + MODES_MINOR + MODES_UNKNOWN:
            for form in ("int", "npint", "npint32"):
                yield dict(k="keys", fifths=f, mode=mode, form=form)
                if isinstance(mode, int) and form != "int":
                    yield dict(k="keys", fifths=f, mode=mode, form=form, npmode=True)


def _keyname_cases():
    for minor in (False, True):
        for f in range(-7, 8):
            yield dict(k="keyname", fifths=f, minor=minor)


def _mode_cases():
    for mode in MODES_MAJOR + MODES_MINOR + MODES_UNKNOWN:
        yield dict(k="mode", mode=mode)
        if isinstance(mode, int):
            yield dict(k="mode", mode=mode, npmode=True)


def _clef_cases():
    for s in CLEF_SIGNS:
        yield dict(k="clef", sign=s)
    for c in range(len(CLEF_SIGNS)):
        yield dict(k="clef", code=c)


def _symdur_cases():
    for typ in TYPES:
        for dots in range(4):
            for ratio in RATIOS_SYM:
                for divs in DIVS:
                    for form in ("full", "minimal"):
                        yield dict(k="symdur", type=typ, dots=dots, ratio=ratio, divs=divs, form=form)


def _tempo_cases():
    for typ in TYPES:
        for dots in range(4):
            for bpm in BPMS:
                yield dict(k="tempo", type=typ, dots=dots, bpm=bpm)
    for bpm in BPMS:
        yield dict(k="tempo", type=None, dots=0, bpm=bpm)
        yield dict(k="tempo", type=None, dots=0, bpm=bpm, default_unit=True)


def _tuplet_cases():
    pairs = [(None, None)] + [(a, n) for a in TYPES for n in TYPES]
    for at, nt in pairs:
        for a in TUPLET_ACTUAL:
            yield dict(k="tuplet", actual_type=at, normal_type=nt, actual=a)


def _interval_cases():
    for n in range(1, 15):
        for q in QUALITIES:
            for direction in DIRECTIONS:
                yield dict(k="interval", number=n, quality=q, direction=direction)
            yield dict(k="interval", number=n, quality=q, direction="up", default_direction=True)


PPQ_CORE = [1, 96, 480, 960]
MPQ_CORE = [250000, 500000, 600000]
PPQ_MORE = [24, 120, 384, 1024, 10080]
MPQ_MORE = [200000, 333333, 400000, 461538, 750000, 1000000]
PFORMS = ["int", "float", "npint"]
TICK_BLOCKS = 8


def _tick_cases(ppqs, mpqs, kmax, all_forms):
    def gen():
        i = 0
        for ppq in ppqs:
            for mpq in mpqs:
                for lo in range(0, kmax, BLOCK):
                    hi = min(lo + BLOCK, kmax)
                    forms = PFORMS if all_forms else [PFORMS[i % 3]]
                    i += 1
                    for pf in forms:
                        yield dict(k="ticks", ppq=ppq, mpq=mpq, lo=lo, hi=hi, pform=pf)
    return gen


def _tick_cases_negative(ppqs, mpqs, kmin):
    def gen():
        i = 0
        for ppq in ppqs:
            for mpq in mpqs:
                for lo in range(-kmin, 0, BLOCK):
                    hi = min(lo + BLOCK, 0)
                    pf = PFORMS[i % 3]
                    i += 1
                    yield dict(k="ticks", ppq=ppq, mpq=mpq, lo=lo, hi=hi, pform=pf)
    return gen


def _tick_more(kmax):
    core = set((p, q) for p in PPQ_CORE for q in MPQ_CORE)
    pairs = [(p, q) for p in PPQ_CORE + PPQ_MORE for q in MPQ_CORE + MPQ_MORE if (p, q) not in core]

    def gen():
        i = 0
        for ppq, mpq in pairs:
            for lo in range(0, kmax, BLOCK):
                hi = min(lo + BLOCK, kmax)
                pf = PFORMS[i % 3]
                i += 1
                yield dict(k="ticks", ppq=ppq, mpq=mpq, lo=lo, hi=hi, pform=pf)
    return gen


def spaces(tier, seed):
    sp = [
        Space("spelling", _spelling_cases, True,
              "steps C..B upper+lower case x alter {None,-3..3} x octave -1..9: spelling->midi (python and numpy ints), Note, step2pc, "
              "ensure_pitch_spelling_format, spelling->name->spelling, name->midi"),
        Space("notename", _notename_cases, True, "every string [A-G](|#|b|x|##|bb)[0-9]: name->spelling->name, name->midi, accidental symbols"),
        Space("midi", _midi_cases, True,
              "MIDI 0..127 as int, numpy int64/int32, float: midi->spelling->midi->name->midi; frequency both ways for a4 in "
              "{440,415,442.5,432}, detuned -40/0/+40 cents, python and numpy floats, integer frequencies"),
        Space("midi-array", _midi_array_cases, True, "0..127 as int64/int32/float64 arrays (1-D, one 2-D) x four tunings: frequency both ways"),
        Space("keys", _keys_cases, True,
              "fifths -12..12 (int, numpy int64/int32) x modes {major,None,'none',1,minor,-1} (ints also as numpy) + 11 unknown modes: "
              "name, KeySignature.name, inverse, rejection"),
        Space("keynames", _keyname_cases, True, "the 30 names of the line of fifths -> (fifths, mode) -> name"),
        Space("modes", _mode_cases, True, "every accepted mode spelling and 11 unknown modes through key_mode_to_int/key_int_to_mode"),
        Space("clefs", _clef_cases, True, "7 clef signs and codes 0..6: encode/decode both ways, distinct codes"),
        Space("symdur", _symdur_cases, True,
              "14 symbolic types x dots 0..3 x ratios {none,3:2,2:3,5:4,6:4,7:4,7:8,4:3,9:8} x divs {1,2,4,6,12,480} x dict form {full,minimal}"),
        Space("tempo", _tempo_cases, True, "14 unit types x dots 0..3 x 10 bpm values + unit None: to_quarter_tempo, Tempo.microseconds_per_quarter"),
        Space("tuplets", _tuplet_cases, True, "(None,None) + 14x14 type pairs x actual 2..12 x normal 1..8: Tuplet.duration_multiplier"),
        Space("intervals", _interval_cases, True, "number 1..14 x quality {dd,d,m,M,P,A,AA,X,''} x direction {up,down,sideways,default}"),
        Space("tables", [dict(k="table", table=t) for t in TABLE_CHECKS], True, "15 agreement checks between the constant tables"),
    ]
    sp.append(Space("ticks-negative", _tick_cases_negative(PPQ_CORE + [1000000 // 1000], MPQ_CORE + [1000000], 1000 if tier == "quick" else 5000), True,
                    "negative times t=k/1000 s, k=-%d..-1 x ppq {1,96,480,960,1000} x mpq {250000,500000,600000,1000000}: the same clauses "
                    "(rounding is to nearest for negative values too; scalar and array branches agree)" % (1000 if tier == "quick" else 5000)))
    if tier == "quick":
        sp.append(Space("ticks-core", _tick_cases(PPQ_CORE, MPQ_CORE, 10000, False), True,
                        "t=k/1000 s, k=0..9999 (blocks of 250) x ppq {1,96,480,960} x mpq {250000,500000,600000}; parameter form "
                        "(int/float/numpy int) cycled over consecutive blocks; scalars float/np.float64/int/np.int64, arrays float64 1-D/2-D/strided/"
                        "empty, int64, int32; both directions"))
        more = _tick_more(4000)
        b = seed % TICK_BLOCKS
        sp.append(Space("ticks-more", lambda: (c for c in more() if block_of(c, TICK_BLOCKS) == b), True,
                        "hash block %d of %d of: remaining pairs of ppq {1,24,96,120,384,480,960,1024,10080} x mpq {200000,250000,333333,"
                        "400000,461538,500000,600000,750000,1000000}, k=0..3999" % (b, TICK_BLOCKS)))
    else:
        sp.append(Space("ticks-core", _tick_cases(PPQ_CORE, MPQ_CORE, 30000, True), True,
                        "t=k/1000 s, k=0..29999 x ppq {1,96,480,960} x mpq {250000,500000,600000} x parameter form {int,float,numpy int}"))
        sp.append(Space("ticks-more", _tick_more(20000), True,
                        "remaining pairs of ppq {1,24,96,120,384,480,960,1024,10080} x mpq {200000,...,1000000}, k=0..19999"))
    return sp


TRIGGERS = {}

if __name__ == "__main__":
    import checks.c12 as _m

    run_check(_m)
